"""
The detector zoo: for every public detector a family object that knows how to
draw a configuration from a boundary-rich menu, how to generate a history that
produces several drifts, how to feed one item to the real class and how to read
the public observables.  Used by the cross-cutting checks (C01, C02, C17, …).

Every random choice derives from the numpy Generator handed in; the *global*
numpy state consumed by stochastic detectors is re-seeded by `feed` before every
call from the item's own seed, so twin runs see identical draws.
"""
import numpy as np
import pandas as pd


def obs(det):
    """public observables common to all detectors"""
    if hasattr(det, "total_samples"):
        t, s = det.total_samples, det.samples_since_reset
    elif hasattr(det, "total_batches"):
        t, s = det.total_batches, det.batches_since_reset
    else:
        t, s = det.total_updates, det.updates_since_reset
    r = getattr(det, "retraining_recs", None)
    if r is not None:
        r = tuple(None if x is None else int(x) for x in r)
    return det.drift_state, int(t), int(s), r


class Family:
    name = ""
    kind = "stream"          # stream | batch
    stochastic = False
    has_recs = False

    def config(self, rng):   # -> dict of constructor kwargs
        raise NotImplementedError

    def make(self, cfg):
        raise NotImplementedError

    def history(self, rng, cfg, n):   # -> list of items
        raise NotImplementedError

    def start(self, det, cfg, rng):   # e.g. set_reference; returns list of pre-items or None
        return None

    def feed(self, det, item):
        raise NotImplementedError

    def lifecycle(self, cfg):         # -> (kind, a, b, restart, incAfterDrift)
        raise NotImplementedError


def _levels_stream(rng, n, shift_p=0.02, scale=1.0, dyadic=True, spread=8.0):
    """piecewise-stationary scalar stream with level shifts"""
    out, lvl = [], 0.0
    # a third of the streams are ramps: the level keeps moving, so that after every re-estimation
    # the next alarm comes as early as the detector allows (drifts back to back)
    slope = float(rng.choice([-2.0, -0.5, 0.5, 2.0])) if rng.random() < 0.35 else 0.0
    for _ in range(n):
        if rng.random() < shift_p:
            lvl = float(rng.integers(-4, 5)) * spread
        lvl += slope
        x = lvl + (float(rng.integers(-8, 9)) / 8.0 if dyadic else float(rng.normal(0, 1))) * scale
        out.append(x)
    return out


def _error_stream(rng, n, shift_p=0.01):
    """piecewise-stationary error indicator stream: (y_true, y_pred) pairs"""
    out, p = [], float(rng.choice([0.05, 0.1, 0.2]))
    for _ in range(n):
        if rng.random() < shift_p:
            p = float(rng.choice([0.02, 0.1, 0.3, 0.5, 0.8, 0.95]))
        yt = int(rng.integers(0, 2))
        err = rng.random() < p
        out.append((yt, 1 - yt if err else yt))
    return out


class _Scalar(Family):
    def feed(self, det, item):
        det.update(item)

    def history(self, rng, cfg, n):
        return _levels_stream(rng, n)


class AdwinF(_Scalar):
    name = "ADWIN"; has_recs = True

    def config(self, rng):
        return dict(delta=float(rng.choice([0.002, 0.1, 0.5, 0.9, 1.0])), max_buckets=int(rng.choice([1, 2, 3, 5])),
                    new_sample_thresh=int(rng.choice([1, 2, 3, 32])), window_size_thresh=int(rng.integers(0, 7)),
                    subwindow_size_thresh=int(rng.integers(1, 5)), conservative_bound=bool(rng.integers(0, 2)))

    def make(self, cfg):
        from menelaus.change_detection import ADWIN
        return ADWIN(**cfg)

    def lifecycle(self, cfg):
        return ("adwin", cfg["window_size_thresh"], cfg["new_sample_thresh"], 1, 1)


class AdwinAccF(AdwinF):
    name = "ADWINAccuracy"

    def make(self, cfg):
        from menelaus.concept_drift import ADWINAccuracy
        return ADWINAccuracy(**cfg)

    def history(self, rng, cfg, n):
        return _error_stream(rng, n, 0.02)

    def feed(self, det, item):
        det.update(item[0], item[1])


class CusumF(_Scalar):
    name = "CUSUM"

    def config(self, rng):
        known = bool(rng.integers(0, 2))
        return dict(target=0.0 if known else None, sd_hat=1.0 if known else None, burn_in=int(rng.choice([2, 3, 5, 30])),
                    delta=float(rng.choice([0.005, 0.25, 0.5])), threshold=float(rng.choice([2, 5, 20, 50])),
                    direction=[None, "positive", "negative"][int(rng.integers(0, 3))])

    def make(self, cfg):
        from menelaus.change_detection import CUSUM
        return CUSUM(**cfg)

    def history(self, rng, cfg, n):
        if rng.random() < 0.2:
            # a quantised step signal: stretches of exactly equal values of random length (1 .. 3*burn_in), a few noisy stretches in
            # between.  Whenever the window the statistics are estimated from is flat, sd_hat = 0 and the documented ValueError ends
            # the history (DESIGN §6) -- unless an implementation carries on, and then the lifecycle contract still binds it
            out, lvl = [], 0.0
            while len(out) < n:
                seg = int(rng.integers(1, 3 * cfg["burn_in"] + 2))
                if rng.random() < 0.3:
                    out += [lvl + float(rng.integers(-32, 33)) / 64.0 for _ in range(seg)]
                else:
                    out += [lvl] * seg
                lvl = float(rng.integers(-3, 4)) * 2.0
            return out[:n]
        # continuous noise: a constant burn-in window would make sd_hat = 0 (degenerate, DESIGN §6)
        return [x + float(rng.integers(1, 64)) / 1024.0 for x in _levels_stream(rng, n, 0.02)]

    def lifecycle(self, cfg):
        return ("burnin", cfg["burn_in"], 1, 1, 1)


class PageHinkleyF(_Scalar):
    name = "PageHinkley"

    def config(self, rng):
        return dict(delta=float(rng.choice([0.01, 0.25, 1.0])), threshold=float(rng.choice([0, 1, 5, 20])),
                    burn_in=int(rng.choice([0, 1, 2, 5, 30])), direction=["positive", "negative"][int(rng.integers(0, 2))])

    def make(self, cfg):
        from menelaus.change_detection import PageHinkley
        return PageHinkley(**cfg)

    def lifecycle(self, cfg):
        return ("burnin", cfg["burn_in"], 1, 1, 1)


class _Err(Family):
    has_recs = True

    def history(self, rng, cfg, n):
        return _error_stream(rng, n)

    def feed(self, det, item):
        det.update(item[0], item[1])


class DdmF(_Err):
    name = "DDM"

    def config(self, rng):
        return dict(n_threshold=int(rng.choice([1, 2, 5, 30])), warning_scale=float(rng.choice([1, 2, 2.5])),
                    drift_scale=float(rng.choice([2.5, 3, 4])))

    def make(self, cfg):
        from menelaus.concept_drift import DDM
        return DDM(**cfg)

    def lifecycle(self, cfg):
        return ("ddm", cfg["n_threshold"], 1, 1, 1)


class EddmF(_Err):
    name = "EDDM"

    def config(self, rng):
        return dict(n_threshold=int(rng.choice([1, 2, 5, 30])), warning_thresh=float(rng.choice([0.95, 0.9, 0.99])),
                    drift_thresh=float(rng.choice([0.9, 0.8, 0.5])))

    def make(self, cfg):
        from menelaus.concept_drift import EDDM
        return EDDM(**cfg)

    def lifecycle(self, cfg):
        return ("eddm", cfg["n_threshold"], 1, 1, 1)


class StepdF(_Err):
    name = "STEPD"

    def config(self, rng):
        return dict(window_size=int(rng.choice([1, 2, 3, 8, 30])), alpha_warning=float(rng.choice([0.05, 0.2])),
                    alpha_drift=float(rng.choice([0.003, 0.01, 0.05])))

    def make(self, cfg):
        from menelaus.concept_drift import STEPD
        return STEPD(**cfg)

    def lifecycle(self, cfg):
        return ("stepd", cfg["window_size"], 1, 1, 1)


class LfrF(_Err):
    name = "LinearFourRates"; stochastic = True

    def config(self, rng):
        rates = ["tpr", "tnr", "ppv", "npv"]
        k = int(rng.integers(1, 5))
        return dict(time_decay_factor=float(rng.choice([0.5, 0.9])), warning_level=float(rng.choice([0.05, 0.2])),
                    detect_level=float(rng.choice([0.01, 0.05])), burn_in=int(rng.choice([0, 5, 20])), num_mc=15,
                    subsample=int(rng.choice([1, 3])), rates_tracked=[rates[i] for i in sorted(rng.choice(4, k, replace=False))],
                    round_val=int(rng.choice([1, 4])))

    def make(self, cfg):
        from menelaus.concept_drift import LinearFourRates
        return LinearFourRates(**cfg)

    def history(self, rng, cfg, n):
        return [(a, b, int(rng.integers(0, 2**31))) for a, b in _error_stream(rng, n, 0.02)]

    def feed(self, det, item):
        np.random.seed(item[2])
        det.update(item[0], item[1])

    def lifecycle(self, cfg):
        return ("lfr", cfg["burn_in"], cfg["subsample"], 1, 1)


def _rows(rng, n, d, shift_p, grid=True, spread=6.0):
    out, lvl = [], np.zeros(d)
    for _ in range(n):
        if rng.random() < shift_p:
            lvl = rng.integers(-2, 3, d).astype(float) * spread
        if grid:
            out.append(lvl + rng.integers(0, 8, d).astype(float) / 4.0)
        else:
            out.append(lvl + rng.normal(0, 1, d))
    return out


class KdqStreamF(Family):
    name = "KdqTreeStreaming"; stochastic = True

    def config(self, rng):
        return dict(window_size=int(rng.choice([4, 8, 16])), persistence=float(rng.choice([0.0, 0.25, 0.5])),
                    alpha=float(rng.choice([0.05, 0.2, 0.5])), bootstrap_samples=int(rng.choice([1, 10, 25])),
                    count_ubound=int(rng.choice([1, 2, 5])))

    def make(self, cfg):
        from menelaus.data_drift import KdqTreeStreaming
        return KdqTreeStreaming(**cfg)

    def history(self, rng, cfg, n):
        d = int(rng.integers(1, 4))
        return [(r, int(rng.integers(0, 2**31))) for r in _rows(rng, n, d, 0.02, grid=bool(rng.integers(0, 2)))]

    def feed(self, det, item):
        np.random.seed(item[1])
        det.update(np.array(item[0], dtype=float).reshape(1, -1))

    def lifecycle(self, cfg):
        return ("kdqS", cfg["window_size"], 1, 1, 1)


def _batches(rng, n, d, shift_p, lo=8, hi=30, grid=None):
    out, lvl = [], np.zeros(d)
    for _ in range(n):
        if rng.random() < shift_p:
            lvl = rng.integers(-2, 3, d).astype(float) * 5.0
        m = int(rng.integers(lo, hi + 1))
        g = bool(rng.integers(0, 2)) if grid is None else grid
        if g:
            b = lvl + rng.integers(0, 8, (m, d)).astype(float) / 4.0
        else:
            b = lvl + rng.normal(0, 1, (m, d))
        out.append((b, int(rng.integers(0, 2**31))))
    return out


class _Batch(Family):
    kind = "batch"; stochastic = True
    dims = (1, 3)

    def history(self, rng, cfg, n):
        d = int(rng.integers(self.dims[0], self.dims[1] + 1))
        return _batches(rng, n + 1, d, 0.25)

    def start(self, det, cfg, hist):
        b, seed = hist[0]
        np.random.seed(seed)
        det.set_reference(b.copy())
        return hist[1:]

    def feed(self, det, item):
        np.random.seed(item[1])
        det.update(item[0].copy())


class KdqBatchF(_Batch):
    name = "KdqTreeBatch"

    def config(self, rng):
        return dict(alpha=float(rng.choice([0.05, 0.2, 0.5])), bootstrap_samples=int(rng.choice([1, 10, 25])),
                    count_ubound=int(rng.choice([1, 2, 5])))

    def make(self, cfg):
        from menelaus.data_drift import KdqTreeBatch
        return KdqTreeBatch(**cfg)

    def lifecycle(self, cfg):
        return ("batch1", 0, 1, 1, 1)


class HdddmF(_Batch):
    name = "HDDDM"

    def config(self, rng):
        stat = ["tstat", "stdev"][int(rng.integers(0, 2))]
        return dict(detect_batch=int(rng.integers(1, 4)), divergence=["H", "KL"][int(rng.integers(0, 2))], statistic=stat,
                    significance=float(rng.choice([0.05, 0.2])) if stat == "tstat" else float(rng.choice([1.0, 2.0])),
                    subsets=int(rng.choice([2, 3, 5])))

    def make(self, cfg):
        from menelaus.data_drift import HDDDM
        return HDDDM(**cfg)

    def lifecycle(self, cfg):
        one = cfg["detect_batch"] == 1
        return ("hdm", cfg["detect_batch"], 1, 2 if one else 1, 2 if one else 1)


class CdbdF(HdddmF):
    name = "CDBD"; dims = (1, 1)

    def make(self, cfg):
        from menelaus.data_drift import CDBD
        return CDBD(**cfg)


class NndviF(_Batch):
    name = "NNDVI"; dims = (1, 3)

    def config(self, rng):
        return dict(k_nn=int(rng.choice([2, 3, 5])), sampling_times=int(rng.choice([5, 20])), alpha=float(rng.choice([0.01, 0.1, 0.3])))

    def make(self, cfg):
        from menelaus.data_drift import NNDVI
        return NNDVI(**cfg)

    def history(self, rng, cfg, n):
        d = int(rng.integers(self.dims[0], self.dims[1] + 1))
        return _batches(rng, n + 1, d, 0.3, lo=8, hi=20)

    def lifecycle(self, cfg):
        return ("batch1", 0, 1, 1, 1)


class PcacdF(Family):
    name = "PCACD"

    def config(self, rng):
        return dict(window_size=int(rng.choice([20, 30, 50])), ev_threshold=float(rng.choice([0.5, 0.9, 0.99])),
                    delta=float(rng.choice([0.01, 0.1])), divergence_metric=["kl", "intersection"][int(rng.integers(0, 2))],
                    sample_period=float(rng.choice([0.05, 0.1, 0.2])), online_scaling=bool(rng.integers(0, 2)))

    def make(self, cfg):
        from menelaus.data_drift import PCACD
        return PCACD(**cfg)

    def history(self, rng, cfg, n):
        d = int(rng.integers(2, 4))
        out, lvl, sc = [], np.zeros(d), np.ones(d)
        for i in range(n):
            if rng.random() < 0.004 and i > 2 * cfg["window_size"]:
                lvl = rng.integers(-2, 3, d).astype(float) * 6.0
                sc = rng.choice([0.5, 1.0, 3.0], d)
            out.append(lvl + rng.normal(0, 1, d) * sc)
        return out

    def feed(self, det, item):
        det.update(np.array(item, dtype=float).reshape(1, -1))

    def lifecycle(self, cfg):
        step = min(100, round(cfg["sample_period"] * cfg["window_size"]))
        return ("pcacd", cfg["window_size"], step, 0, 1)


FAMILIES = [AdwinF(), AdwinAccF(), CusumF(), PageHinkleyF(), DdmF(), EddmF(), StepdF(), LfrF(),
            KdqStreamF(), KdqBatchF(), HdddmF(), CdbdF(), NndviF(), PcacdF()]
BY_NAME = {f.name: f for f in FAMILIES}


# ---------------------------------------------------------------- independence of detector objects
def _pubstats(name, det):
    """a few public numeric observables per family (beyond state / counters / recs) that expose corrupted statistics"""
    try:
        if name in ("ADWIN", "ADWINAccuracy"):
            return (round(float(det.mean()), 9), round(float(det.variance()), 9))
        if name == "STEPD":
            return (round(float(det.recent_accuracy()), 9), round(float(det.overall_accuracy()), 9))
        if name in ("HDDDM", "CDBD"):
            return (int(det.reference_n), tuple(sorted((int(k), round(float(v), 9)) for k, v in det.distances.items())))
        if name == "NNDVI":
            return (int(len(det.reference_batch)),)
    except Exception as e:
        return ("EXC:" + type(e).__name__,)
    return ()


def solo_trace(fam, cfg, hist):
    det = fam.make(cfg)
    items = fam.start(det, cfg, hist) or hist
    out = []
    for it in items:
        try:
            fam.feed(det, it)
            out.append(obs(det) + (_pubstats(fam.name, det),))
        except Exception as e:
            out.append(("EXC:" + type(e).__name__,))
            break
    return out


def isolation_failures(ctx, names, pairs_per_family=3, n_stream=240, n_batch=10):
    """
    Every property of the form "what the detector reports is a function of its own parameters and its own history" implies
    that detector objects are independent of one another: the trace of a detector run alone equals its trace when a second
    object of the same class (other parameters, other data) is constructed and updated alternately with it in the same
    process.  (Accidental sharing — class-level containers, cached buffers, mutable default arguments, module-level caches
    keyed too coarsely — is invisible to any check that runs one object at a time.)  Returns failure dicts for ctx.fail.
    """
    import core
    fails = []
    for name in names:
        fam = BY_NAME[name]
        for k in range(pairs_per_family):
            rng = np.random.default_rng([ctx.seed, 4242, core.shash(name), k])
            cfgA, cfgB = fam.config(rng), fam.config(rng)
            if k % 2 == 0:                      # same structural parameters (shared buffers are often keyed by them), other thresholds
                cfgB = dict(cfgA)
            n = n_stream if fam.kind == "stream" else n_batch
            hA, hB = fam.history(rng, cfgA, n), fam.history(rng, cfgB, n)
            if fam.kind == "batch" and hA and hB and hasattr(hA[0][0], "shape") and hA[0][0].shape[1] != hB[0][0].shape[1]:
                hB = fam.history(np.random.default_rng([ctx.seed, 4243, k]), cfgB, n)
            solo = solo_trace(fam, cfgA, hA)
            try:
                dA, dB = fam.make(cfgA), fam.make(cfgB)
                iA, iB = (fam.start(dA, cfgA, hA) or hA), (fam.start(dB, cfgB, hB) or hB)
            except Exception as e:
                fails.append(dict(detector=name, config=cfgA, other_config=cfgB, step=-1,
                                  what=f"constructing / starting two {name} objects raised {type(e).__name__}: {e}"))
                continue
            ctx.count(f"isolation:{name}:pairs")
            inter = []
            deadB = False
            for j, it in enumerate(iA):
                if not deadB and j < len(iB):
                    try:
                        fam.feed(dB, iB[j])
                    except Exception:
                        deadB = True
                try:
                    fam.feed(dA, it)
                    inter.append(obs(dA) + (_pubstats(name, dA),))
                except Exception as e:
                    inter.append(("EXC:" + type(e).__name__,))
                    break
            ctx.case(("isolation", name, k), any(len(o) > 1 and o[0] == "drift" for o in solo))
            for j, (a, b) in enumerate(zip(solo, inter)):
                if a != b:
                    fails.append(dict(detector=name, config=cfgA, other_config=cfgB, step=j, alone=list(map(str, a)), interleaved=list(map(str, b)),
                                      history_seed=[ctx.seed, 4242, name, k],
                                      what=f"{name}: update {j} reports {b} when a second {name} object is updated alternately in the same process, "
                                           f"{a} when the detector runs alone (detector objects are not independent)"))
                    break
            else:
                if len(solo) != len(inter):
                    fails.append(dict(detector=name, config=cfgA, other_config=cfgB, step=min(len(solo), len(inter)),
                                      what=f"{name}: trace lengths differ alone / interleaved ({len(solo)} vs {len(inter)})"))
    return fails


# ---------------------------------------------------------------- reading a detector does not change it
_MUTATORS = {"update", "reset", "set_reference", "give_oracle_label"}


def read_everything(det):
    """read every public attribute / property and call every public method that takes no argument and is not one of the
    documented state-changing calls (mean, variance, the *_accuracy accessors, to_dataframe, to_plotly_dataframe, ...)"""
    import inspect
    called = []
    for name in sorted(n for n in dir(det) if not n.startswith("_")):
        if name in _MUTATORS:
            continue
        try:
            v = getattr(det, name)
        except Exception:
            continue
        if callable(v) and not inspect.isclass(v):
            try:
                sig = inspect.signature(v)
                if all(p.default is not inspect.Parameter.empty or p.kind in (p.VAR_POSITIONAL, p.VAR_KEYWORD) for p in sig.parameters.values()):
                    v()
                    called.append(name)
            except Exception:
                called.append(name + "!")      # an accessor may legitimately raise (nothing to show yet); it still must not change anything
    return called


def accessor_failures(ctx, names, per_family=2, n_stream=260, n_batch=10):
    """
    "The counters count updates", "nothing is reported before ...", "the outputs are a function of the parameters and the history
    of updates" all imply that READING a detector between updates -- its properties, statistics accessors, plotting / export
    frames -- never changes what it reports later: the trace of a run in which everything public is read after every update
    equals the trace of the plain run, and reading does not move the counters or the state at the moment it happens.
    """
    import core
    fails = []
    for name in names:
        fam = BY_NAME[name]
        for k in range(per_family):
            rng = np.random.default_rng([ctx.seed, 4343, core.shash(name), k])
            cfg = fam.config(rng)
            hist = fam.history(rng, cfg, n_stream if fam.kind == "stream" else n_batch)
            plain = solo_trace(fam, cfg, hist)
            det = fam.make(cfg)
            try:
                items = fam.start(det, cfg, hist) or hist
            except Exception as e:
                fails.append(dict(detector=name, config=cfg, step=-1, what=f"starting {name} raised {type(e).__name__}: {e}"))
                continue
            read_everything(det)
            called, bad = [], None
            for j, it in enumerate(items):
                try:
                    fam.feed(det, it)
                    o = obs(det) + (_pubstats(name, det),)
                except Exception as e:
                    o = ("EXC:" + type(e).__name__,)
                if j >= len(plain) or o != plain[j]:
                    bad = (j, "update %d reports %s after everything public was read between the updates, %s in the plain run"
                           % (j, list(map(str, o)), list(map(str, plain[j])) if j < len(plain) else "nothing (shorter trace)"))
                    break
                if len(o) == 1:
                    break
                called = read_everything(det)
                o2 = obs(det) + (_pubstats(name, det),)
                if o2 != o:
                    bad = (j, "reading the detector after update %d changed what it reports: %s -> %s" % (j, list(map(str, o)), list(map(str, o2))))
                    break
            ctx.count(f"accessors:{name}:histories")
            ctx.case(("accessors", name, k), any(len(o) > 1 and o[0] == "drift" for o in plain))
            if bad is not None:
                fails.append(dict(detector=name, config=cfg, step=bad[0], accessors_called=called, history_seed=[ctx.seed, 4343, name, k],
                                  what=f"{name}: {bad[1]} (reading a detector must not change it)"))
    return fails
