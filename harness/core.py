"""
Infrastructure shared by every check: build + axiom audit of the Lean proof
library, the model driver, verdict logic, known findings, evidence.

Exit codes of a check:  0 = property held on everything explored,
1 = VIOLATION line printed, 2 = infrastructure trouble (never a VIOLATION).
"""
import json, os, re, struct, subprocess, sys, time, hashlib, traceback

ROOT = os.path.dirname(os.path.dirname(os.path.abspath(__file__)))
LEAN = os.path.join(ROOT, "lean")
# VERIF_OUT redirects evidence/ and replays/ (used when trying seeded changes, so that the
# committed evidence of the unchanged tree is not overwritten)
OUT = os.environ.get("VERIF_OUT", ROOT)
DRIVER = os.path.join(LEAN, ".lake", "build", "bin", "mdriver")
ALLOWED_AXIOMS = {"propext", "Classical.choice", "Quot.sound"}
FORBIDDEN = re.compile(r"\b(sorry|admit|native_decide|bv_decide|implemented_by|unsafe)\b|^axiom\s|maxHeartbeats\s+0\b", re.M)


class Infra(Exception):
    """infrastructure trouble: exit 2, never a violation"""


# ---------------------------------------------------------------- floats
def f2b(x) -> str:
    """float -> decimal string of the IEEE-754 bit pattern"""
    return str(struct.unpack("<Q", struct.pack("<d", float(x)))[0])


def b2f(s: str) -> float:
    return struct.unpack("<d", struct.pack("<Q", int(s)))[0]


def close(a: float, b: float, rel=1e-9, abs_=1e-12) -> bool:
    if a != a and b != b:
        return True
    if a == b:
        return True
    if a in (float("inf"), float("-inf")) or b in (float("inf"), float("-inf")):
        return False
    return abs(a - b) <= max(abs_, rel * max(abs(a), abs(b)))


def shash(s: str) -> int:
    """stable string hash for seed derivation (Python's hash() is salted per process)"""
    import zlib
    return zlib.crc32(s.encode()) & 0x7FFFFFFF


def dstr(s):
    """python drift_state -> protocol token"""
    return {None: "N", "warning": "W", "drift": "D"}[s]


def recs_str(r):
    if r is None:
        return "_,_"
    a, b = r
    return ("_" if a is None else str(int(a))) + "," + ("_" if b is None else str(int(b)))


# ---------------------------------------------------------------- lean side
def strip_comments(src: str) -> str:
    # remove nested block comments and line comments
    out, i, depth = [], 0, 0
    while i < len(src):
        if src.startswith("/-", i):
            depth += 1; i += 2; continue
        if src.startswith("-/", i) and depth:
            depth -= 1; i += 2; continue
        if depth == 0:
            if src.startswith("--", i):
                j = src.find("\n", i)
                i = len(src) if j < 0 else j
                continue
            out.append(src[i])
        i += 1
    return "".join(out)


def lake_build():
    t0 = time.time()
    p = subprocess.run(["lake", "build"], cwd=LEAN, capture_output=True, text=True)
    if p.returncode != 0:
        raise Infra("lake build failed:\n" + p.stdout[-4000:] + p.stderr[-2000:])
    if not os.path.exists(DRIVER):
        raise Infra("mdriver missing after lake build")
    return time.time() - t0


def scan_sources():
    """textual scan of every .lean file of the project for forbidden constructs"""
    hits = []
    for dp, _, fs in os.walk(LEAN):
        if ".lake" in dp:
            continue
        for f in fs:
            if f.endswith(".lean"):
                path = os.path.join(dp, f)
                src = strip_comments(open(path).read())
                for m in FORBIDDEN.finditer(src):
                    hits.append(f"{os.path.relpath(path, LEAN)}: {m.group(0).strip()}")
    return hits


def audit(prop_id: str):
    """
    Proof obligations of a property = the theorems registered for it in
    lean/theorems/<id>.json.  Each must exist in the compiled library and depend on
    no axiom beyond propext / Classical.choice / Quot.sound.
    Returns (obligations, discharged, per-theorem axioms, failures).
    """
    rp = os.path.join(LEAN, "theorems", prop_id + ".json")
    if not os.path.exists(rp):
        raise Infra(f"no theorems registered for {prop_id}")
    entry = json.load(open(rp))
    mods, thms = entry["modules"], entry["theorems"]
    src = "".join(f"import {m}\n" for m in mods) + "".join(f"#print axioms {t}\n" for t in thms)
    path = os.path.join(LEAN, ".lake", f"audit_{prop_id}.lean")
    os.makedirs(os.path.dirname(path), exist_ok=True)
    open(path, "w").write(src)
    p = subprocess.run(["lake", "env", "lean", path], cwd=LEAN, capture_output=True, text=True)
    out = p.stdout + p.stderr
    axioms, failures = {}, []
    # messages: "'name' depends on axioms: [a, b]" or "'name' does not depend on any axioms"
    for t in thms:
        m = re.search(r"'" + re.escape(t) + r"' depends on axioms: \[([^\]]*)\]", out, re.S)
        if m:
            ax = [a.strip() for a in m.group(1).replace("\n", " ").split(",") if a.strip()]
            axioms[t] = ax
            bad = [a for a in ax if a not in ALLOWED_AXIOMS]
            if bad:
                failures.append(f"{t}: disallowed axioms {bad}")
        elif re.search(r"'" + re.escape(t) + r"' does not depend on any axioms", out):
            axioms[t] = []
        else:
            failures.append(f"{t}: not found / did not check")
    hits = scan_sources()
    for h in hits:
        failures.append("forbidden construct: " + h)
    return len(thms), len(thms) - len([f for f in failures if not f.startswith("forbidden")]), axioms, failures


def leanchecker(prop_id: str):
    """thorough tier: re-check the compiled property modules with Lean's independent checker"""
    entry = json.load(open(os.path.join(LEAN, "theorems", prop_id + ".json")))
    t0 = time.time()
    p = subprocess.run(["lake", "env", "leanchecker", *entry["modules"]], cwd=LEAN, capture_output=True, text=True)
    return {"modules": entry["modules"], "exit": p.returncode, "wall_s": round(time.time() - t0, 1),
            "output_tail": (p.stdout + p.stderr)[-500:]}


def run_driver(lines, timeout=600):
    """pipe operation lines through the compiled Lean model driver"""
    data = "\n".join(lines) + "\n"
    try:
        p = subprocess.run([DRIVER], input=data, capture_output=True, text=True, timeout=timeout)
    except subprocess.TimeoutExpired:
        raise Infra("mdriver timed out")
    if p.returncode != 0:
        raise Infra("mdriver crashed: " + p.stderr[-2000:])
    out = p.stdout.split("\n")
    if out and out[-1] == "":
        out.pop()
    if len(out) != len(lines):
        raise Infra(f"mdriver produced {len(out)} lines for {len(lines)} inputs")
    return out


# ---------------------------------------------------------------- source coverage of the anchored code
def repo_root():
    return os.environ.get("VERIF_REPO") or "/repo"


def anchored_files(prop_id):
    for line in open(os.path.join(ROOT, "properties.jsonl")):
        p = json.loads(line)
        if p["id"] == prop_id:
            return [f for f in p["anchors"]["files"] if f.endswith(".py")]
    return []


COVERAGE_ACTIVE = False


def start_source_coverage(prop_id, tier):
    """
    Measures which statements / branches of the property's anchored source files the run executes
    (thorough tier, or VERIF_COV=1).  This is evidence about the reach of the correspondence check (the tie
    between model and code is only as good as the code the generators drive), not a verdict.
    Only the harness process is measured (C12 / C19 shard part of their cases over worker processes).
    """
    if not (tier == "thorough" or os.environ.get("VERIF_COV") == "1"):
        return None
    try:
        import coverage
        cov = coverage.Coverage(include=[os.path.join(repo_root(), "menelaus", "*")], branch=True, data_file=None)
        cov.start()
        global COVERAGE_ACTIVE
        COVERAGE_ACTIVE = True
        return cov
    except Exception:
        return None


def stop_source_coverage(cov, ctx, prop_id):
    if cov is None:
        return
    try:
        cov.stop()
        rep = {}
        for rel in anchored_files(prop_id):
            path = os.path.join(repo_root(), rel)
            try:
                an = cov._analyze(path)
                n = an.numbers
                rep[rel] = {"statements": n.n_statements, "executed": n.n_statements - n.n_missing,
                            "branches": n.n_branches, "branches_missed": n.n_missing_branches,
                            "missing_lines": sorted(an.missing)[:80]}
            except Exception as e:
                rep[rel] = {"error": str(e)[:100]}
        ctx.extra["source_coverage_of_anchored_files"] = rep
    except Exception:
        ctx.extra["source_coverage_of_anchored_files"] = {"error": traceback.format_exc()[-300:]}


def unknown_failing(ctx):
    """failing inputs of this run that are not listed known findings"""
    known = [k["signature"] for k in load_known() if k["property"] == ctx.prop]
    return [f for f in ctx.failing if f.get("signature") not in known]


def extra_seeds_if_source_changed(ctx, mod, prop_id):
    """
    The working tree under test is fingerprinted function by function (harness/srcmap.py) against the tree the Lean models were
    last reconciled with.  Functions of the property's anchored files that changed are listed in the evidence; when there are
    any, the generated part of the check is repeated under further generator seeds (as long as the quick budget allows), because
    changed code is exactly where the differential tie between model and code has to be exercised hardest.  Never a verdict.
    """
    try:
        import srcmap
        ch = srcmap.changed(repo_root(), anchored_files(prop_id))
    except Exception:
        ch = None
    ctx.extra["anchored_source_changed"] = ch if ch is not None else "source-map.json missing"
    known = [k["signature"] for k in load_known() if k["property"] == prop_id]
    unknown = lambda: [f for f in ctx.failing if f.get("signature") not in known]
    if not ch or unknown() or os.environ.get("VERIF_NO_EXTRA_SEEDS") == "1":
        return
    base_seed, first_pass = ctx.seed, ctx.elapsed()
    limit = (240 if ctx.quick else 1500)
    used = []
    for k in (1, 2):
        if unknown() or ctx.mismatches or ctx.elapsed() + first_pass > limit:
            break
        ctx.seed = base_seed + 7919 * k
        used.append(ctx.seed)
        try:
            mod.run(ctx)
        except Infra as e:
            ctx.count("extra-seed-pass-degenerate")
        except Exception:
            ctx.extra["extra_seed_pass_error"] = traceback.format_exc()[-800:]
            break
    ctx.extra["extra_seed_passes"] = used
    ctx.seed = base_seed


# ---------------------------------------------------------------- known findings
def load_known():
    """known-findings.txt: `known: property=<id> <text> ## <json signature>` / `fixed: ...`"""
    known = []
    path = os.path.join(ROOT, "known-findings.txt")
    if os.path.exists(path):
        for line in open(path):
            line = line.strip()
            if line.startswith("known:"):
                head, _, sig = line.partition("##")
                m = re.search(r"property=(\S+)\s+(.*)", head)
                known.append({"property": m.group(1), "text": m.group(2).strip(),
                              "signature": json.loads(sig)})
    return known


# ---------------------------------------------------------------- context
class Ctx:
    def __init__(self, prop_id, tier, seed):
        self.prop = prop_id
        self.tier = tier
        self.seed = seed
        self.t0 = time.time()
        self.stats = {}            # free-form counters (input distribution, branches hit)
        self.samples = []          # a few actual cases
        self.evaluations = 0
        self.nontrivial = set()    # hashes of distinct non-trivial cases
        self.traces = 0
        self.mismatches = []       # correspondence mismatches (dicts)
        self.failing = []          # property-level failing inputs on the implementation (dicts)
        self.thin = 0
        self.exhaustive = None
        self.rule = ""
        self.extra = {}
        self.assumptions = []
        self.budget_s = None

    @property
    def quick(self):
        return self.tier == "quick"

    def count(self, key, n=1):
        self.stats[key] = self.stats.get(key, 0) + n

    def case(self, key, nontrivial: bool):
        """register one evaluated case; `key` identifies it for distinctness"""
        self.evaluations += 1
        if nontrivial:
            self.nontrivial.add(hashlib.sha1(repr(key).encode()).hexdigest()[:16])

    def sample(self, obj, limit=4):
        if len(self.samples) < limit:
            self.samples.append(obj)

    def mismatch(self, **kw):
        """model and implementation differ on a property observable"""
        if len(self.mismatches) < 50:
            self.mismatches.append(kw)
        self.count("mismatches")

    def fail(self, signature=None, **kw):
        """the property itself fails on the implementation for a concrete input"""
        kw["signature"] = signature or {}
        kw.setdefault("found_with_seed", self.seed)
        if len(self.failing) < 50:
            self.failing.append(kw)
        self.count("failing_inputs")

    def elapsed(self):
        return time.time() - self.t0


def write_replay(ctx, kind, payload, idx):
    os.makedirs(os.path.join(OUT, "replays"), exist_ok=True)
    rel = os.path.join("replays", f"{ctx.prop}-{ctx.tier}-{ctx.seed}-{idx}.json")
    with open(os.path.join(OUT, rel), "w") as f:
        json.dump({"property": ctx.prop, "kind": kind, "seed": payload.get("found_with_seed", ctx.seed), "tier": ctx.tier, **payload},
                  f, indent=1, default=str)
    return rel


def finish(ctx, obligations, discharged, axioms, proof_failures, build_s, trusted_base, search=None):
    """verdict logic of DESIGN §4; returns the exit code"""
    known = [k for k in load_known() if k["property"] == ctx.prop]
    violations = 0
    lines = []
    known_hit = {}
    idx = 0
    # 1. concrete failing inputs on the implementation
    for f in ctx.failing:
        k = next((k for k in known if k["signature"] == f["signature"]), None)
        if k is not None:
            known_hit.setdefault(k["text"], f)
            continue
        idx += 1
        rel = write_replay(ctx, "failing-input", f, idx)
        lines.append(f"VIOLATION property={ctx.prop} replay={rel}")
        violations += 1
        if idx >= 5:
            break
    # 2. correspondence mismatches / broken proof obligations without a failing input
    if violations == 0 and (ctx.mismatches or proof_failures):
        found = []
        if search is not None and ctx.mismatches:
            try:
                found = search(ctx, ctx.mismatches) or []
            except Infra:
                raise
            except Exception:
                found = []
                ctx.extra["search_error"] = traceback.format_exc()[-1500:]
        found = [f for f in found if not any(k["signature"] == f.get("signature") for k in known)]
        if found:
            for f in found[:5]:
                idx += 1
                rel = write_replay(ctx, "failing-input", f, idx)
                lines.append(f"VIOLATION property={ctx.prop} replay={rel}")
                violations += 1
        else:
            idx += 1
            payload = {"broken_proof_obligations": proof_failures,
                       "broken_correspondence": ctx.mismatches[:5],
                       "note": "the property is no longer shown to hold: the named theorem(s) / correspondence no longer check; "
                               "the failing-input search found no input on which the property itself fails"}
            rel = write_replay(ctx, "no-failing-input", payload, idx)
            lines.append(f"VIOLATION property={ctx.prop} replay={rel} no-failing-input-found")
            violations += 1
    for text in known_hit:
        print(f"KNOWN-FINDING: property={ctx.prop} {text}")
    not_repro = [k["text"] for k in known if k["text"] not in known_hit]
    for l in lines:
        print(l)
    ev = {
        "property_id": ctx.prop, "tier": ctx.tier, "seed": ctx.seed, "level": "proof",
        "coverage": {
            "obligations": obligations, "discharged": discharged,
            "checker_cmd": "cd lean && lake build && lake env lean .lake/audit_%s.lean  (#print axioms per theorem; allowed: propext, Classical.choice, Quot.sound)" % ctx.prop,
            "trusted_base": trusted_base,
            "axioms_per_theorem": axioms,
            "proof_failures": proof_failures,
            "evaluations": ctx.evaluations,
            "distinct_nontrivial": len(ctx.nontrivial),
            "rule": ctx.rule,
            "samples": ctx.samples,
            "traces_validated_against_impl": ctx.traces,
            "correspondence_mismatches": len(ctx.mismatches),
            "failing_inputs": len(ctx.failing),
            "thin_margin_truncations": ctx.thin,
            "input_distribution": ctx.stats,
            "known_findings_reproduced": list(known_hit),
            "known_finding_not_reproduced": not_repro,
            "lake_build_s": round(build_s, 2),
            **({"exhaustive": ctx.exhaustive} if ctx.exhaustive is not None else {}),
            **ctx.extra,
        },
        "assumptions": ctx.assumptions,
        "wall_s": round(ctx.elapsed(), 2),
        "violations": violations,
    }
    os.makedirs(os.path.join(OUT, "evidence"), exist_ok=True)
    with open(os.path.join(OUT, "evidence", f"{ctx.prop}.json"), "w") as f:
        json.dump(ev, f, indent=1, default=str)
    print(f"[{ctx.prop}] tier={ctx.tier} seed={ctx.seed} obligations={discharged}/{obligations} "
          f"evaluations={ctx.evaluations} nontrivial={len(ctx.nontrivial)} mismatches={len(ctx.mismatches)} "
          f"failing={len(ctx.failing)} violations={violations} wall={ctx.elapsed():.1f}s")
    return 1 if violations else 0


def generic_replay(ctx, path, run):
    """
    Replay for the cross-cutting checks: every case is a deterministic function of (seed, tier), so the
    recorded run is regenerated and the recorded failing input is looked up among the failing inputs of
    the re-run (same detector / configuration / step / clause).  Exit 1 = reproduced, 0 = not reproduced.
    """
    rec = json.load(open(path))
    print(json.dumps({k: rec[k] for k in rec if k not in ("history", "items_from_spawn", "batches")}, indent=1, default=str)[:3000])
    if rec.get("kind") != "failing-input":
        print("REPLAY: this file names a broken proof obligation / correspondence, there is no input to re-run")
        return 0
    ctx.seed, ctx.tier = int(rec["seed"]), rec["tier"]
    run(ctx)
    keys = [k for k in ("detector", "config", "step", "clause", "what", "parameter", "permutation", "election", "vector") if k in rec]
    def same(f):
        return all(json.dumps(f.get(k), default=str, sort_keys=True) == json.dumps(rec.get(k), default=str, sort_keys=True) for k in keys)
    hit = [f for f in ctx.failing if same(f)]
    print(f"REPLAY: re-ran seed={ctx.seed} tier={ctx.tier}: {len(ctx.failing)} failing input(s), "
          f"{'REPRODUCED' if hit else 'NOT reproduced'} the recorded one (matched on {keys})")
    return 1 if hit else 0
