"""entry point:  main.py <Cxx> <quick|thorough> [--replay file]"""
import importlib, os, sys, traceback

sys.path.insert(0, os.path.dirname(os.path.abspath(__file__)))
# VERIF_REPO=<dir> runs the checks against another checkout of mitre/menelaus (used to try
# seeded changes in a scratch worktree); by default the installed package = /repo's working tree.
if os.environ.get("VERIF_REPO"):
    sys.path.insert(1, os.environ["VERIF_REPO"])
import core

BASE_TRUST = [
    "Lean 4.33 kernel; axioms per theorem listed under axioms_per_theorem (subset of propext, Classical.choice, Quot.sound)",
    "hand-written Lean model tied to /repo only by this run's correspondence check (differential, bounded by the generators and budgets reported here)",
    "Python harness and mdriver line-protocol parser relay operations faithfully",
    "Float rounding: theorems using field/order laws are about lawful carriers, the executed Float instance shares the definitions only",
]


def main():
    if len(sys.argv) < 3:
        print("usage: main.py <Cxx> <quick|thorough> [--replay file]"); return 2
    prop, tier = sys.argv[1], sys.argv[2]
    os.environ["MENELAUS_VERIF"] = "1"
    seed = int(os.environ.get("VERIF_SEED", "20260929"))
    ctx = core.Ctx(prop, tier, seed)
    try:
        mod = importlib.import_module("checks." + prop.lower())
        if "--replay" in sys.argv:
            path = sys.argv[sys.argv.index("--replay") + 1]
            return mod.replay(ctx, path)
        build_s = core.lake_build()
        obligations, discharged, axioms, pf = core.audit(prop)
        if tier == "thorough":
            lc = core.leanchecker(prop)
            ctx.extra["leanchecker"] = lc
            if lc["exit"] != 0:
                pf.append("leanchecker rejected " + " ".join(lc["modules"]) + ": " + lc["output_tail"][-200:])
        cov = core.start_source_coverage(prop, tier)
        try:
            try:
                mod.run(ctx)
            except core.Infra as e:
                # a degenerate input distribution (no drift reached, no case of some kind) is infrastructure trouble — unless the run has
                # already found concrete failing inputs / mismatches: a changed detector that rejects valid calls or never alarms makes the
                # distribution degenerate *because* it is broken, and what was found must be reported, not hidden behind exit 2
                if not (core.unknown_failing(ctx) or ctx.mismatches):
                    raise
                ctx.extra["degenerate_distribution_after_findings"] = str(e)
            core.extra_seeds_if_source_changed(ctx, mod, prop)
        finally:
            core.stop_source_coverage(cov, ctx, prop)
        return core.finish(ctx, obligations, discharged, axioms, pf, build_s,
                           BASE_TRUST + getattr(mod, "TRUST", []), getattr(mod, "search", None))
    except core.Infra as e:
        print(f"[{prop}] INFRASTRUCTURE: {e}", file=sys.stderr)
        return 2
    except Exception:
        traceback.print_exc()
        print(f"[{prop}] INFRASTRUCTURE: harness exception", file=sys.stderr)
        return 2


if __name__ == "__main__":
    sys.exit(main())
