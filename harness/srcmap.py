"""
Source fingerprint of the anchored code: for every function / method of the files a property is anchored in, a hash of its
AST (docstrings and comments excluded).  `python harness/srcmap.py --write` records the fingerprints of the tree the models
were last reconciled with (source-map.json, committed).  On every run the check recomputes them from the working tree
under test; functions whose fingerprint differs are listed in the evidence (`anchored_source_changed`) and make the run
spend a larger correspondence budget (further generator seeds) — the hand-written model is tied to the code by the
correspondence check, so code that moved since the model was written is where that check has to work hardest.
A changed fingerprint is never a violation by itself.
"""
import ast, hashlib, json, os, sys

ROOT = os.path.dirname(os.path.dirname(os.path.abspath(__file__)))
MAP = os.path.join(ROOT, "source-map.json")


def _strip_doc(node):
    for n in ast.walk(node):
        if isinstance(n, (ast.FunctionDef, ast.AsyncFunctionDef, ast.ClassDef, ast.Module)) and n.body and \
                isinstance(n.body[0], ast.Expr) and isinstance(getattr(n.body[0], "value", None), ast.Constant) and \
                isinstance(n.body[0].value.value, str):
            n.body = n.body[1:] or [ast.Pass()]
    return node


def fingerprints(path):
    try:
        tree = _strip_doc(ast.parse(open(path).read()))
    except Exception as e:
        return {"<unparsable>": type(e).__name__}
    out = {}

    def visit(node, prefix):
        for n in node.body:
            if isinstance(n, (ast.FunctionDef, ast.AsyncFunctionDef)):
                out[prefix + n.name] = hashlib.sha1(ast.dump(n, include_attributes=False).encode()).hexdigest()[:16]
            elif isinstance(n, ast.ClassDef):
                # class-level statements other than methods (attributes, decorators) as one entry
                rest = [ast.dump(x, include_attributes=False) for x in n.body if not isinstance(x, (ast.FunctionDef, ast.AsyncFunctionDef))]
                out[prefix + n.name + ".<class body>"] = hashlib.sha1("\n".join(rest).encode()).hexdigest()[:16]
                visit(n, prefix + n.name + ".")
    visit(tree, "")
    top = [ast.dump(x, include_attributes=False) for x in tree.body if not isinstance(x, (ast.FunctionDef, ast.AsyncFunctionDef, ast.ClassDef))]
    out["<module level>"] = hashlib.sha1("\n".join(top).encode()).hexdigest()[:16]
    return out


def all_anchored():
    files = set()
    for line in open(os.path.join(ROOT, "properties.jsonl")):
        files.update(f for f in json.loads(line)["anchors"]["files"] if f.endswith(".py"))
    return sorted(files)


def changed(repo, files):
    """[(file, function)] whose fingerprint differs from the recorded one (added / removed functions included)"""
    if not os.path.exists(MAP):
        return None
    base = json.load(open(MAP))["files"]
    out = []
    for f in files:
        now = fingerprints(os.path.join(repo, f))
        was = base.get(f, {})
        for k in sorted(set(now) | set(was)):
            if now.get(k) != was.get(k):
                out.append(f"{f}::{k}")
    return out


if __name__ == "__main__":
    repo = os.environ.get("VERIF_REPO") or "/repo"
    if "--write" in sys.argv:
        import subprocess
        head = subprocess.run(["git", "-C", repo, "rev-parse", "HEAD"], capture_output=True, text=True).stdout.strip()
        json.dump({"repo_commit": head, "files": {f: fingerprints(os.path.join(repo, f)) for f in all_anchored()}},
                  open(MAP, "w"), indent=1, sort_keys=True)
        print("wrote", MAP)
    else:
        print(changed(repo, all_anchored()))
