"""regenerates MANIFEST.json from the table below (run by hand after adding a check)"""
import json, os
ROOT = os.path.dirname(os.path.dirname(os.path.abspath(__file__)))
props = [json.loads(l) for l in open(os.path.join(ROOT, "properties.jsonl"))]

CHECKS = {
 "C01": dict(
   text="The lifecycle contract is a Lean acceptor over observed rows (drift_state, total, since, retraining_recs): Lean theorems show it decides the "
        "declarative contract and that acceptance implies the user-facing clauses (total counts updates and never goes back, since advances by one "
        "except on the update after a drift / when a kdq reference completes, no report before the warm-up of each detector kind, recommendations "
        "end at the current sample); further theorems show that every one of the 15 Lean detector models is accepted on every history. The same acceptor is executed "
        "(via mdriver) on multi-drift traces of all 15 real detectors; a rejected row is a concrete failing input. A further clause run on the real classes: reading a "
        "detector between updates (every public attribute, every public no-argument method) changes neither its counters nor anything it reports later.",
   note="Trusted: Lean kernel; the acceptor's table of warm-up rules and restart values (11 kinds, stated in Model/Lifecycle.lean) as the reading of the "
        "property; input-derived signals (EDDM error count, ADWIN width from retraining_recs, kdq reference completion) reconstructed by the harness; "
        "generators (boundary menus, piecewise-stationary streams) bound what the implementation runs see.",
   technique="Lean 4 proof (acceptor decides the declarative contract; model traces accepted, by induction) + the Lean acceptor executed on implementation traces",
   ref="§7 C01"),
 "C02": dict(
   text="Lean twin theorems (simulation relation preserved by every step, established by the update that follows a drift): for every history ending in a "
        "reported drift and every continuation, the running detector model reports what a fresh model reports on the continuation, total shifted; "
        "carrier-free, so valid for the executed Float instance; all ten families of the property (DDM, EDDM, STEPD, PageHinkley, CUSUM, KdqTreeStreaming, "
        "KdqTreeBatch, HDDDM/CDBD for detect_batch 1-3, NNDVI) incl. set_reference twins for the batch detectors. On the real classes the same relation is executed: fresh twins (documented carry-over "
        "only, built from public data) are started at reported drifts and at explicit set_reference calls and compared after every update of all later "
        "epochs, stochastic detectors under a per-call numpy seed schedule.",
   note="Trusted: Lean kernel; hand-written detector models (tied to the code by the correspondence checks of C04/C05/C07/C09/C10); the twin runs are "
        "differential testing bounded by the generators; numpy global RNG re-seeding aligns stochastic twins.",
   technique="Lean 4 proof (simulation relation / twin-run induction over arbitrary continuations) + twin relation executed on the real detectors",
   ref="§7 C02"),
 "C17": dict(
   text="Lean: generic first-alarm monotonicity (threshold-free statistics run + decision antitone in strictness => first alarm under the strict "
        "threshold is never earlier), a link lemma (a detector model's first reported drift = first alarm of the abstract system) and per-detector "
        "instances; for the families whose pre-alarm state depends on the threshold (kdq persistence counter, HDDDM/CDBD recorded beta, LFR bounds cache) a "
        "simulation lemma (looser vs stricter run related until the looser alarms) with nearest-rank quantile / linear percentile / beta monotonicity; all 13 "
        "families are instantiated (CUSUM, DDM, EDDM, STEPD, NNDVI, ADWIN, ADWINAccuracy, KdqTreeStreaming, KdqTreeBatch, HDDDM/CDBD stdev and tstat, LFR); "
        "PageHinkley is proved under 'looser threshold > 0 or running means non-negative' (_partial) and the counter-example for a negative mean is proved "
        "(known finding F12). On the real classes: paired runs under ordered threshold pairs on the same history and seed schedule for 13 families; "
        "first-drift indices compared, warning-only changes compared on full traces.",
   note="Trusted: Lean kernel; scipy critical values antitone in alpha (oracle hypothesis); detector models tied to the code by the per-detector "
        "correspondence checks; paired runs are differential testing bounded by generators and menus.",
   technique="Lean 4 proof (generic monotonicity lemma + per-model antitone decision) + paired-run relation executed on the real detectors",
   ref="§7 C17"),
 "C04": dict(
   text="Lean theorems over carrier-polymorphic models of CUSUM.update / PageHinkley.update: for every history over an ordered field the CUSUM statistics "
        "are the maximal suffix sums of the standardised current-epoch observations (target/sd given, estimated from the first burn_in observations, or "
        "re-estimated from the last burn_in after a drift) and Page-Hinkley's running mean / cumulative sum / extrema are the documented statistics of the "
        "epoch; for every carrier (incl. the executed Float): no alarm during burn-in, decision = documented test, each step reads only the epoch state "
        "and the supplied observation, continuation after a drift = fresh detector with the documented carry-over; a manual reset() restarts the epoch and never re-estimates. Tied to the code by differential "
        "correspondence (exhaustive small streams + random multi-alarm streams) and an independent exact-rational specification run on implementation traces.",
   note="Trusted: Lean kernel; rounding (field theorems vs Float) covered only by the correspondence and thin-margin rule; excluded: burn_in=0, target "
        "without sd_hat, NaN/inf data; histories containing an update that raised (sd_hat=0) are outside cusum_spec but the raise is modelled and checked.",
   technique="Lean 4 proof (invariant over all histories, refinement to max-suffix-sum / textbook PH statistics, epoch simulation) + differential correspondence + independent rational spec monitor",
   ref="§7 C04"),
 "C03": dict(
   text="Lean 4 theorems over all histories and configurations (subwindow_size_thresh >= 1): for every ordered field ADWIN's window is exactly the last W "
        "inputs, the bucket rows partition it into chunks of size 2^row with exact totals / sums of squared deviations, and mean()/variance() are the mean / "
        "population variance of those inputs; for every carrier incl. the executed Float model: W +1 per update, shrinks iff drift, >= 1; drift iff scheduled "
        "and some admissible bucket-boundary split exceeds the epsilon-cut; oldest buckets dropped until none does; recs = [total-W, total-1], cleared next "
        "update; ADWINAccuracy = ADWIN on indicators with its own parameters; over R the eps-cut is antitone in delta; a manual reset() clears only the state and the recommendation (window, statistics and check schedule untouched). Tied to adwin.py / adwin_accuracy.py by "
        "step-wise correspondence plus a model-independent exactness check against the raw stream.",
   note="Trusted: Lean kernel, the hand-written model, the bounded correspondence (exhaustive {0,1,16}^7/9 + dyadic level-shift streams <= 400/4000, menus of "
        "DESIGN §7). Field theorems do not cover Float rounding; numpy log vs libm differ by <= 1 ulp, ties below 1e-9 truncate. Excluded: max_buckets=0, "
        "new_sample_thresh=0, subwindow_size_thresh=0, delta=0, NaN/inf data.",
   technique="Lean 4 proof (invariant by induction over the history on (n,S,Q) triples, field identities, fuelled cut loop shown sufficient) + differential correspondence + raw-stream exactness check",
   ref="§7 C03"),
 "C05": dict(
   text="Lean 4 theorems for every error history, configuration and epoch: epoch structure and counters, retraining_recs semantics (first alarm index of the "
        "epoch / start of the uninterrupted run for STEPD, drift index, cleared next update), decision tables and guards of DDM / EDDM / STEPD for every carrier "
        "incl. the executed Float model; over ordered fields DDM rate = errors/n and the stored minimum pair minimises p+s over tested positions, EDDM mean "
        "distance telescopes, STEPD counters are the correct counts inside/before the last window. Tied to the code by an exhaustive correspondence (all "
        "2^10 / 2^12 outcome sequences x 92 boundary-seeking configurations, every decision compared) plus long multi-drift sequences.",
   note="Trusted: Lean kernel; models tied by the bounded correspondence; Float rounding outside the theorems; scipy.stats.norm.cdf monotone (p < alpha modelled "
        "as z > z_alpha, found by bisection on the code's own expression); window_size=0 and alpha outside [0,1] excluded.",
   technique="Lean 4 proof (snoc induction, generic trace-semantics lemmas, field algebra) + exhaustive model/implementation correspondence + declarative clauses on implementation traces",
   ref="§7 C05"),
 "C06": dict(
   text="Lean 4 theorems: for every carrier (incl. Float) the decision (off schedule: None, nothing cached; on schedule: drift / warning iff a tracked rate's "
        "statistic is outside the detect / warning bounds cached for its (rounded rate, denominator)), first-wins cache surviving resets, untracked rates never "
        "influence state/recs/cache (simulation relation), confusion matrix = epoch counts + 1 per cell and the four rates, recs and lifecycle; over ordered "
        "fields: a rate changes exactly on the samples of its row/column, the statistic is the exponentially weighted average over exactly those samples "
        "(closed form), np.percentile(linear) model. Tied to lfr.py by exhaustive correspondence over all {0,1}^2 sequences of length <= 6/7 plus random "
        "histories, with the Monte-Carlo draws captured from np.random.binomial.",
   note="Trusted: Lean kernel; numpy RNG (Monte-Carlo quality of the bounds only covered by a statistical test, labelled a test); Float rounding; parallelize=True "
        "is not modelled but tied to the serial branch by twin runs on the real class under content-addressed draws; excluded: repeated/unknown rate names, "
        "subsample=0, num_mc=0, non-0/1 labels. (Percentile monotonicity in the level is proved under C17.)",
   technique="Lean 4 proof (loop invariants, simulation relation, field algebra) + differential correspondence with captured draws + declarative spec and twin runs on the real class",
   ref="§7 C06"),
 "C10": dict(
   text="Lean 4 theorems: D is the sorted duplicate-free union and v1/v2 are exact membership indicators for any sizes and duplicates (any linear order); the "
        "adjacency-validation predicate is exactly the k-NN relation with self-inclusion; the NNPS distance lies in [0,1], is symmetric, is 0 on equal sets "
        "and has no vanishing denominator (ordered fields); NNDVI reports drift iff the distance exceeds mean + z*(population std) of the sampling_times "
        "re-assignment distances, the reference is replaced iff drift, counters over whole histories (law-free). Tied to the code by a seeded correspondence "
        "plus direct property clauses on the implementation with alpha / strictness boundary probes.",
   note="sklearn's k-NN search, np.random.permutation and scipy norm.ppf(1-alpha) are inputs validated or captured per case; Float rounding not covered "
        "(tolerance 1e-9, thin-margin rule); membership theorems need a linear order.",
   technique="Lean 4 proof (refinement of the np.unique model to a declarative spec, ordered-field algebra, law-free lifecycle induction) + differential correspondence with validated oracles",
   ref="§7 C10"),
 "C11": dict(
   text="Lean 4 theorems for all histories, oracle inputs and configurations: explicit state during the first 2w samples and the 1+w samples after a drift "
        "(silent, no score, since restarts at 0, reference := former test window); a score is computed exactly on sliding updates with (n-1)%step=0; drift "
        "iff the embedded Page-Hinkley (threshold pyRound(.01w), burn-in 0) alarms on the max score; online_scaling never read by the control flow; "
        "per-component supports shared by reference and test histograms; over ordered fields: histogram = relative bin counts, intersection of identical "
        "windows = 0, score in [0,1]; for every carrier the clamped intersection score is never negative; over the reals the standardise / un-standardise round trip of the online scaler (zero-variance rule included) is the identity, so the adopted reference is the raw former test window. Tied to pca_cd.py by a per-update correspondence "
        "(both metrics, scaling on/off, repeated-window streams, several drifts) and a 1904-configuration parameter sweep.",
   note="Trusted oracles: sklearn PCA / KernelDensity and scipy jensenshannon (and StandardScaler inside the schedule; its model Model/Scaler.lean is tied to sklearn by a differential run), recomputed by the harness from the raw stream with public API "
        "(num_pcs, projections, KDE-JS values are model inputs). Float rounding / numpy summation order not covered (rel 1e-9). Excluded: window_size=0, "
        "round(sample_period*w)<=0, windows in which every feature is constant, NaN/inf.",
   technique="Lean 4 proof (invariants and induction over the update list, explicit epoch descriptions, ordered-field algebra) + differential correspondence with model-directed oracle scheduling + clauses on implementation traces",
   ref="§7 C11"),
 "C12": dict(
   text="Lean 4 theorems for every list of abstract member machines, all selectors, all four elections and all update / reset / set_reference histories: "
        "each member's state is that machine run alone on the calls mapped through its selector (on exactly the delivered calls when some member raises); "
        "drift_states and retraining_recs are the members' values in insertion order (members without recs omitted); drift_state is the election applied to "
        "the independently run members; the election state is the fold over one ballot per update and survives reset; total counts the updates that returned "
        "normally, since restarts only on reset. Tied to ensemble.py by a differential run: real ensembles of 11 member classes against independent "
        "deep-copied twins plus the Lean model, call by call.",
   note="Trusted: Lean kernel; the hand-written model of ensemble.py (members abstract); bounded correspondence (30/300 ensembles, 100-600 calls, seed schedule "
        "applied through a seeding subclass of stochastic members); a member's state means a deep __dict__ snapshot; election semantics are C13's.",
   technique="Lean 4 proof (induction over the member list and the op list, delivered-calls simulation) + twin-run differential correspondence with malformed-call injection",
   ref="§7 C12"),
 "C14": dict(
   text="Lean 4 theorems for all histories and container orders: accepted row counts (stream exactly 1, batch >= 2; y rules), streaming width / name stability once "
        "an accepted input fixes them, batch stability outside the proved DataFrame-after-array gap (width_stable_partial + the counter-example), a rejected call "
        "is a no-op and all later traces equal those of the run that never saw it (generic update skeleton with idempotent pending reset; per-wrapper no-op "
        "lemmas for the univariate guards and HDM), container irrelevance. Tied to detector.py and the per-detector guards by exhaustive base-class call "
        "sequences over a container menu and per-detector malformed-call injection at every position with never-saw-it twins; probe calls whose acceptance the property leaves open "
        "(NaN / inf observations, a single-column first input) are injected too: whenever the detector rejects one, it must not be counted and later traces must equal the twin's.",
   note="Trusted: hand-written validation model (string column names); bounded correspondence. Known findings (recorded): batch DataFrame-after-array width gap "
        "(a repair breaks an existing test); PCACD, KdqTreeBatch, KdqTreeStreaming, HDDDM, CDBD, NNDVI count a batch / observation holding NaN or inf before a library call raises "
        "(no finiteness validation in the library; a design decision, not a minimal patch).",
   technique="Lean 4 proof (invariants, induction over histories, simulation) + exhaustive base-class correspondence + malformed-call injection twins on the real detectors",
   ref="§7 C14"),
 "C15": dict(
   text="Lean 4 noninterference and inputs-unchanged theorems for an ownership discipline (copy on validation, detector operations read only detector-owned "
        "locations, injectors work on fresh copies), with a proved counter-model for aliasing (a detector keeping the caller's location is not covered). "
        "Adherence of the implementation is established by bit-for-bit snapshots of every passed object before/after each call and by overwrite-vs-private-copy "
        "twin runs over ndarray (C / Fortran / strided) and DataFrame (single / mixed dtype) inputs at every call position, for all detectors and injectors.",
   note="PARTIAL by nature: the theorem is about the discipline; Python object identity is outside any Lean model, so the tie to the code is the differential runs.",
   technique="Lean 4 proof (unwinding-style noninterference over interleavings) + snapshot and twin-run relation on the real classes",
   ref="§7 C15"),
 "C18": dict(
   text="Lean 4 theorems (List.Perm): for row-permuted reference and test batches the HDM per-feature min/max, histogram count vectors, recorded distance, and "
        "(detect_batch != 1, same oracle inputs) epsilon / beta / decision traces over whole histories are equal; np.unique pool and membership vectors, NNPS "
        "distance and NNDVI decision traces are equal; kd-tree build / fill / divergence and KdqTreeBatch decision traces are equal (linear order; the fill and divergence parts law-free). On the real classes: every batch of a sequence permuted (reversal, rotation, "
        "random), distances / per-node counts / decisions compared under the same seed schedule, incl. large-batch histories.",
   note="Theorems need a lawful linear order (Float is not one: the twin runs cover it); equality of the positional bootstrap epsilon_0 under permutation is a "
        "hypothesis (detect_batch=2 decisions are outside the property).",
   technique="Lean 4 proof (permutation invariance of the models' batch summaries, lifted to histories) + permuted-twin relation on the real batch detectors",
   ref="§7 C18"),
 "C16": dict(
   text="Lean 4 theorems that any detector step fed only the agreement bit / confusion cell / no extra argument yields identical complete-state traces under "
        "any label encoding with equal agreement (incl. injective relabelling, >= 3 classes) and any unused-argument values, instantiated for the DDM / EDDM / "
        "STEPD models; twin runs on the real DDM, EDDM, STEPD, ADWINAccuracy (19 encodings) and LinearFourRates (8 encodings) and on 14 detectors with junk "
        "in every documented-unused argument, all public observables compared after every call.",
   note="The theorems are structural (by construction of the step functions); that the Python classes have this shape is established by the twin runs. "
        "NaN / None labels and cross-type pairs excluded.",
   technique="Lean 4 proof (congruence over traces) + twin-run relation on the real classes with per-call re-seeding",
   ref="§7 C16"),
 "C19": dict(
   text="Lean 4 theorems on a model of MD3: exact refusal rules and guard order, refused calls leave the whole state unchanged, the decision happens at exactly "
        "the N-th well-formed label (drift iff sens*accStd < acc - correct/N), the new reference is adopted, waiting cleared, md restarts at the new reference "
        "md; strict warning rule; counters and lifetime of 'drift'; over fields lambda=(N-1)/N and the closed form of the margin density; the k-fold reference summary (len, fold means and population deviations of margin density and accuracy, numpy pairwise summation order) is computed by the model from per-fold bit lists and proved to be the fold mean (not the pooled ratio) . Tied to md3.py by a "
        "differential correspondence (exhaustive over bounded interleavings of legal and illegal calls, random beyond) plus the protocol clauses run directly "
        "on the implementation.",
   note="Classifier, margin function and KFold's fold membership are oracle inputs (per-sample margin / correctness bits recomputed with public sklearn); the reference statistics themselves are modelled; Float rounding not covered; "
        "exhaustive to length 5-7 unreduced, 8/10 modulo the verified-unchanged-refusal reduction; excluded: k larger than the reference or oracle length.",
   technique="Lean 4 proof (invariant, induction over call histories, closed-form algebra) + model/implementation differential testing with exact-boundary dyadic configurations",
   ref="§7 C19"),
 "C20": dict(
   text="Lean 4 model of the eight injectors (draws as validated inputs) with 39+ theorems: frame conditions (shape, labels, rows outside the window and "
        "non-targeted columns unchanged) for every carrier, swap / label-swap involutions, cell-level specs of join / shift / random walk, resampled rows come "
        "from the window, sampling-vector algebra over ordered fields (non-negative, sums to one, class masses, leftover redistribution), cover blocks. Tied "
        "to the code by correspondence on exhaustive windows n <= 8 x columns x containers with RNG taps, and direct frame clauses on the implementation.",
   note="Arithmetic theorems are about ordered fields; Float is tied by correspondence only. That drawn frequencies follow the weights is numpy's RNG (chi-square "
        "test in thorough, a test). dtype is not modelled; known finding: integer-dtype truncation in FeatureShift / BrownianNoise.",
   technique="Lean 4 proof (structural induction over tables, field algebra) + differential correspondence with RNG taps + frame-condition clauses on the implementation",
   ref="§7 C20"),
 "C07": dict(
   text="Lean 4 theorems for all histories and configurations: drift iff the test is due on this batch (since >= max(2, detect_batch)) and the recorded epsilon > "
        "recorded beta; the recorded distance is the feature average of the distances between histograms over the common range with floor(sqrt(n_ref)) bins; "
        "reference append / replace / reset (incl. the detect_batch=1 split and proxy batch), feature_info arg-max and counters for every carrier incl. the "
        "executed Float model; epsilon / beta formulas over ordered fields (beta from exactly the epoch's epsilons); over R: Hellinger and Jensen-Shannon are 0 "
        "on equal histograms, symmetric, bounded by sqrt(2) / sqrt(ln 2), histogram totals and numpy's bin rule. Tied to the code by per-call correspondence "
        "(np.histogram and scipy rel_entr semantics modelled in Lean) and declarative clauses recomputed on implementation records.",
   note="Float rounding and the t critical value (scipy, df validated) are inputs. The bootstrap epsilon_0 (_estimate_initial_epsilon) is computed by the Lean "
        "model (Model/HDMBoot.lean, theorems in Props/C07Boot.lean: epsilon_0 >= 0, = 0 iff all pairwise subset distances coincide, reads only the sampled rows, "
        "bootstrap form = oracle form so all C07 theorems transfer); its only inputs are the row positions drawn by DataFrame.sample, captured by wrapping "
        "np.random.choice in the harness process and shape-checked by the model. The +-1 edge corrections of np.histogram are tied to numpy only by the correspondence. Known finding: "
        "detect_batch=1 with a 2-row new reference.",
   technique="Lean 4 proof (invariants / induction over batch histories, field algebra, real analysis for the divergence bounds) + differential correspondence + declarative clauses on implementation records",
   ref="§7 C07"),
 "C08": dict(
   text="Lean 4 theorems on a carrier-polymorphic model of KDQTreePartitioner: build returns exactly the tree of the declarative Built predicate (every internal "
        "node splits axis depth mod m at the midpoint of the points it holds, holds more than count_ubound points, stop rule as coded), each node's count is "
        "its children's sum, leaf counts add to the points built / filled after every history of fills, fill sends every point to exactly one leaf cell, "
        "filling the build data under another id reproduces the build counts, accumulate / reset rule, flatten lists every node once with exact parent and "
        "depth, Kulldorff statistic = two-cell KL; over ordered fields: termination (fuel suffices, no None child), midpoint, +0.5 distributions sum to one; "
        "over R: KL >= 0 (Gibbs), KL(self) = 0. Tied to the code by correspondence on the public tree plus 12 property clauses on the implementation.",
   note="Structural theorems assume only complementarity of > / <= and no None child; Float rounding not covered (known finding: midpoint of adjacent floats "
        "rounds to the maximum -> empty upper half / RecursionError); one build per partitioner.",
   technique="Lean 4 proof (refinement to a declarative tree spec, structural induction, ordered-field termination, Gibbs inequality) + differential correspondence + property clauses on the public tree",
   ref="§7 C08"),
 "C09": dict(
   text="Lean 4 theorems on the kdq detector model (bootstrap draws as inputs): streaming phases (first w samples build the tree, silent for a further w), "
        "counter = length of the current uninterrupted run of exceeding evaluations over every history, drift iff that run > persistence*window (over ordered fields: iff run > floor(persistence*window), a floored never a rounded bound), restart after "
        "drift; batch drift iff KL(ref||batch) > critical, drifted batch adopted as reference, set_reference; the critical value is the nearest-rank "
        "(1-alpha) order statistic of the bootstrap divergences, sample size = reference size. Tied to kdq_tree.py by correspondence with recorded "
        "np.random.choice draws plus an independent monitor that recomputes divergence and decisions from the public per-node counts.",
   note="Lifecycle and decision theorems for every carrier; divergence and critical value at Float tied by correspondence only (thin-margin rule below 1e-9); "
        "numpy RNG trusted for the draws.",
   technique="Lean 4 proof (history invariant: counter = run length; order-statistic characterisation) + differential correspondence with captured draws + monitor on public observables",
   ref="§7 C09"),
 "C13": dict(
   text="Lean 4 theorems for all n and all parameters: majority/minimum/ordered verdict iff count rule, range, monotonicity; "
        "ConfirmedElection refines the documented per-member voter automaton, counters <= wait_time. Tied to election.py by an "
        "exhaustive correspondence (all vectors n<=5/6, all parameters, BFS over all reachable counter states).",
   note="Trusted: Lean kernel (+propext/Classical.choice/Quot.sound at most), the hand-written model of election.py, the exhaustive but "
        "size-bounded correspondence run, harness/driver plumbing. Degenerate parameters a=0 / a=c=0 are characterised by separate theorems.",
   technique="Lean 4 proof (induction over the vote list, refinement to a reference automaton) + exhaustive model/implementation correspondence",
   ref="§7 C13"),
}

checks = []
for p in props:
    c = CHECKS.get(p["id"])
    if not c:
        continue
    checks.append({
        "property_id": p["id"],
        "quick_cmd": f"./vcheck {p['id']} quick",
        "thorough_cmd": f"./vcheck {p['id']} thorough",
        "evidence_file": f"evidence/{p['id']}.json",
        "replay_cmd_template": f"./vcheck {p['id']} quick --replay {{path}}",
        "engine": "lean4-proof+correspondence",
        "level_claimed": {"category": "proof", "text": c["text"], "design_ref": c["ref"]},
        "level_note": c["note"],
        "technique": c["technique"],
    })
na = [{"property_id": p["id"], "reason": "check not built yet in this round (planned: Lean 4 model + theorems + correspondence, see DESIGN.md §7)"}
      for p in props if p["id"] not in CHECKS]
m = {
 "version": 1,
 "setup_cmd": "cd lean && lake build",
 "hooks": {"guard": "MENELAUS_VERIF", "enable": "no hooks are needed: every observable is public API; the harness sets MENELAUS_VERIF=1 for uniformity",
           "baseline_off_cmd": "cd /repo && /venv/bin/python -m pytest -ra -q -p no:cacheprovider --timeout=900 --continue-on-collection-errors",
           "source_commits": [], "add_only": True},
 "engines": [{"name": "lean4-proof+correspondence", "path": "lean/ harness/ vcheck",
              "serves_properties": [c["property_id"] for c in checks],
              "kind_free_text": "Lean 4 proof library (models + theorems, axiom audit on every run) and a Python differential harness that drives /repo's "
                                "working tree and the compiled Lean model driver (mdriver) on the same operations"}],
 "checks": checks,
 "not_applicable": na,
 "notes": "Exit codes: 0 held, 1 VIOLATION, 2 infrastructure trouble. VERIF_SEED selects the generator seed. known-findings.txt lists recorded findings.",
}
json.dump(m, open(os.path.join(ROOT, "MANIFEST.json"), "w"), indent=1)
print("checks:", len(checks), "not_applicable:", len(na))
