"""regenerates MANIFEST.json from the table below (run by hand after adding a check)"""
import json, os
ROOT = os.path.dirname(os.path.dirname(os.path.abspath(__file__)))
props = [json.loads(l) for l in open(os.path.join(ROOT, "properties.jsonl"))]

CHECKS = {
 "C01": dict(
   text="The lifecycle contract is a Lean acceptor over observed rows (drift_state, total, since, retraining_recs): Lean theorems show it decides the "
        "declarative contract and that acceptance implies the user-facing clauses (total counts updates and never goes back, since advances by one "
        "except on the update after a drift / when a kdq reference completes, no report before the warm-up of each detector kind, recommendations "
        "end at the current sample); further theorems show the Lean detector models are accepted on every history. The same acceptor is executed "
        "(via mdriver) on multi-drift traces of all 15 real detectors; a rejected row is a concrete failing input.",
   note="Trusted: Lean kernel; the acceptor's table of warm-up rules and restart values (11 kinds, stated in Model/Lifecycle.lean) as the reading of the "
        "property; input-derived signals (EDDM error count, ADWIN width from retraining_recs, kdq reference completion) reconstructed by the harness; "
        "generators (boundary menus, piecewise-stationary streams) bound what the implementation runs see.",
   technique="Lean 4 proof (acceptor decides the declarative contract; model traces accepted, by induction) + the Lean acceptor executed on implementation traces",
   ref="§7 C01"),
 "C02": dict(
   text="Lean twin theorems (simulation relation preserved by every step, established by the update that follows a drift): for every history ending in a "
        "reported drift and every continuation, the running detector model reports what a fresh model reports on the continuation, total shifted; "
        "carrier-free, so valid for the executed Float instance. On the real classes the same relation is executed: fresh twins (documented carry-over "
        "only, built from public data) are started at reported drifts and at explicit set_reference calls and compared after every update of all later "
        "epochs, stochastic detectors under a per-call numpy seed schedule.",
   note="Trusted: Lean kernel; hand-written detector models (tied to the code by the correspondence checks of C04/C05/C07/C09/C10); the twin runs are "
        "differential testing bounded by the generators; numpy global RNG re-seeding aligns stochastic twins.",
   technique="Lean 4 proof (simulation relation / twin-run induction over arbitrary continuations) + twin relation executed on the real detectors",
   ref="§7 C02"),
 "C17": dict(
   text="Lean: generic first-alarm monotonicity (threshold-free statistics run + decision antitone in strictness => first alarm under the strict "
        "threshold is never earlier), a link lemma (a detector model's first reported drift = first alarm of the abstract system) and per-detector "
        "instances; PageHinkley is proved only under 'running means non-negative' (_partial) and the counter-example for a negative mean is proved "
        "(known finding F12). On the real classes: paired runs under ordered threshold pairs on the same history and seed schedule for 13 families; "
        "first-drift indices compared, warning-only changes compared on full traces.",
   note="Trusted: Lean kernel; scipy critical values antitone in alpha (oracle hypothesis); detector models tied to the code by the per-detector "
        "correspondence checks; paired runs are differential testing bounded by generators and menus.",
   technique="Lean 4 proof (generic monotonicity lemma + per-model antitone decision) + paired-run relation executed on the real detectors",
   ref="§7 C17"),
 "C04": dict(
   text="Lean theorems over carrier-polymorphic models of CUSUM.update / PageHinkley.update: for every history over an ordered field the CUSUM statistics "
        "are the maximal suffix sums of the standardised current-epoch observations (target/sd given, estimated from the first burn_in observations, or "
        "re-estimated from the last burn_in after a drift) and Page-Hinkley's running mean / cumulative sum / extrema are the documented statistics of the "
        "epoch; for every carrier (incl. the executed Float): no alarm during burn-in, decision = documented test, each step reads only the epoch state "
        "and the supplied observation, continuation after a drift = fresh detector with the documented carry-over. Tied to the code by differential "
        "correspondence (exhaustive small streams + random multi-alarm streams) and an independent exact-rational specification run on implementation traces.",
   note="Trusted: Lean kernel; rounding (field theorems vs Float) covered only by the correspondence and thin-margin rule; excluded: burn_in=0, target "
        "without sd_hat, NaN/inf data; histories containing an update that raised (sd_hat=0) are outside cusum_spec but the raise is modelled and checked.",
   technique="Lean 4 proof (invariant over all histories, refinement to max-suffix-sum / textbook PH statistics, epoch simulation) + differential correspondence + independent rational spec monitor",
   ref="§7 C04"),
 "C13": dict(
   text="Lean 4 theorems for all n and all parameters: majority/minimum/ordered verdict iff count rule, range, monotonicity; "
        "ConfirmedElection refines the documented per-member voter automaton, counters <= wait_time. Tied to election.py by an "
        "exhaustive correspondence (all vectors n<=5/6, all parameters, BFS over all reachable counter states).",
   note="Trusted: Lean kernel (+propext/Classical.choice/Quot.sound at most), the hand-written model of election.py, the exhaustive but "
        "size-bounded correspondence run, harness/driver plumbing. Degenerate parameters a=0 / a=c=0 are characterised by separate theorems.",
   technique="Lean 4 proof (induction over the vote list, refinement to a reference automaton) + exhaustive model/implementation correspondence",
   ref="§7 C13"),
}

checks = []
for p in props:
    c = CHECKS.get(p["id"])
    if not c:
        continue
    checks.append({
        "property_id": p["id"],
        "quick_cmd": f"./vcheck {p['id']} quick",
        "thorough_cmd": f"./vcheck {p['id']} thorough",
        "evidence_file": f"evidence/{p['id']}.json",
        "replay_cmd_template": f"./vcheck {p['id']} quick --replay {{path}}",
        "engine": "lean4-proof+correspondence",
        "level_claimed": {"category": "proof", "text": c["text"], "design_ref": c["ref"]},
        "level_note": c["note"],
        "technique": c["technique"],
    })
na = [{"property_id": p["id"], "reason": "check not built yet in this round (planned: Lean 4 model + theorems + correspondence, see DESIGN.md §7)"}
      for p in props if p["id"] not in CHECKS]
m = {
 "version": 1,
 "setup_cmd": "cd lean && lake build",
 "hooks": {"guard": "MENELAUS_VERIF", "enable": "no hooks are needed: every observable is public API; the harness sets MENELAUS_VERIF=1 for uniformity",
           "baseline_off_cmd": "cd /repo && /venv/bin/python -m pytest -ra -q -p no:cacheprovider --timeout=900 --continue-on-collection-errors",
           "source_commits": [], "add_only": True},
 "engines": [{"name": "lean4-proof+correspondence", "path": "lean/ harness/ vcheck",
              "serves_properties": [c["property_id"] for c in checks],
              "kind_free_text": "Lean 4 proof library (models + theorems, axiom audit on every run) and a Python differential harness that drives /repo's "
                                "working tree and the compiled Lean model driver (mdriver) on the same operations"}],
 "checks": checks,
 "not_applicable": na,
 "notes": "Exit codes: 0 held, 1 VIOLATION, 2 infrastructure trouble. VERIF_SEED selects the generator seed. known-findings.txt lists recorded findings.",
}
json.dump(m, open(os.path.join(ROOT, "MANIFEST.json"), "w"), indent=1)
print("checks:", len(checks), "not_applicable:", len(na))
