"""
C06 — Linear Four Rates tracks the four rates and tests them against simulated bounds.

Three things are run on the real `menelaus.concept_drift.LinearFourRates`:

1. correspondence with the Lean model (Model/LFR.lean through mdriver): the same
   (y_true, y_pred) sequence and the Bernoulli draws the implementation made
   (captured by wrapping `np.random.binomial` in this process) are piped to the
   model; `drift_state`, `retraining_recs`, the counters, `all_drift_states` and
   the *simulation schedule* (which (rate estimate, denominator) pairs were
   simulated, in which order) are compared after every update;
2. the property's clauses evaluated directly on the implementation by an
   independent declarative specification (`Spec` below: confusion matrix
   recomputed from the epoch's history, closed-form exponentially weighted
   statistic over the rate's own row/column, numpy percentiles of the captured
   draws, first-simulation-wins cache, recs / counters from the state trace);
3. "untracked never matters" twin runs: with a single tracked rate, two histories
   that differ only in samples/coordinates that rate does not read must give
   identical traces and identical draws.

Every implementation call is preceded by `np.random.seed(seed_i)` with
`seed_i = H(VERIF_SEED, case, i)`, on each side of a twin run.
"""
import os, copy, hashlib, itertools, json, math
import numpy as np
import core

TRUST = [
    "numpy's global RNG: the Bernoulli draws are inputs of the model, captured by wrapping np.random.binomial "
    "(the entry point lfr.py calls) in the harness process; their distribution (the Monte-Carlo quality of the bounds) "
    "is trusted to numpy — thorough tier adds a statistical sanity *test* of the simulated bounds, not a theorem",
    "np.percentile (linear) and numpy scalar rounding are modelled in Lean (Model/LFR.lean: percentile, lerp, roundTo); "
    "the independent Python specification used for the property clauses calls np.percentile / np.round as oracles",
    "eta ** k is modelled as repeated multiplication (differs from C pow by ulps; covered by the 1e-9 margin rule; exact for eta = 0.5)",
    "pandas DataFrame.apply(axis=0) calls get_Rj once per Monte-Carlo column, in column order (checked on every simulation: "
    "num_mc calls of the right size and p)",
    "excluded configurations: subsample = 0, num_mc = 0, levels outside [0,1], labels other than 0/1, repeated or unknown names in "
    "rates_tracked; parallelize=True is not modelled (thread scheduling of the same function body) but tied to the serial branch by "
    "twin runs on the real class under a content-addressed replacement of np.random.binomial (draws depend on (seed, p, size, column) only)",
    "auxiliary semi-private observable: _r_stat[samples_since_reset] (the four statistics at the current index) is read after every update "
    "when present and compared with the model (all four rates) and with the specification's closed form (tracked rates; every step in the "
    "long pure runs, on tested steps elsewhere); older per-index history entries are not compared",
]

RATES = ["tpr", "tnr", "ppv", "npv"]
SUBSETS = [list(s) for k in range(1, 5) for s in itertools.combinations(RATES, k)]
LEVELS = [(0.05, 0.05), (0.1, 0.01), (0.25, 0.125), (0.01, 0.1), (0.2, 0.05)]
INF = float("inf")


LABEL_FORMS = {"int": int, "bool": bool, "np.int64": np.int64, "np.bool_": np.bool_,
               "array1": lambda v: np.array([v]), "boolarray1": lambda v: np.array([bool(v)])}


def H(*xs):
    return int(hashlib.sha256(repr(xs).encode()).hexdigest()[:8], 16)


# ---------------------------------------------------------------- tap on np.random.binomial
class Tap:
    def __init__(self):
        self.calls = []
        self.orig = None

    def install(self):
        self.orig = np.random.binomial
        tap = self

        def binomial(*a, **k):
            r = tap.orig(*a, **k)
            try:
                p = k.get("p", a[1] if len(a) > 1 else None)
                size = k.get("size", a[2] if len(a) > 2 else None)
                tap.calls.append((float(p), int(size), [int(x) for x in np.ravel(r)]))
            except Exception:
                tap.calls.append((float("nan"), -1, []))
            return r

        np.random.binomial = binomial

    def uninstall(self):
        if self.orig is not None:
            np.random.binomial = self.orig
            self.orig = None

    def take(self):
        c, self.calls = self.calls, []
        return c


def group(calls, num_mc):
    """consecutive num_mc calls = one simulation"""
    blocks = []
    for i in range(0, len(calls), num_mc):
        chunk = calls[i:i + num_mc]
        blocks.append({"p": chunk[0][0], "size": chunk[0][1], "cols": [c[2] for c in chunk],
                       "uniform": all(c[0] == chunk[0][0] and c[1] == chunk[0][1] for c in chunk)})
    return blocks


def block_token(b):
    return ",".join("".join(str(x) for x in col) for col in b["cols"])


# ---------------------------------------------------------------- implementation adapter
def make_impl(LFR, cfg):
    try:
        return LFR(time_decay_factor=cfg["eta"], warning_level=cfg["warn"], detect_level=cfg["detect"],
                   burn_in=cfg["burn_in"], num_mc=cfg["num_mc"], subsample=cfg["subsample"],
                   rates_tracked=list(cfg["tracked"]), parallelize=False, round_val=cfg["round_val"])
    except Exception as ex:
        return "EXC:" + type(ex).__name__


def impl_update(tap, d, cfg, yt, yp, seed):
    """one update on the real detector; returns the observables (public API) and the captured draws"""
    if isinstance(d, str):
        return {"state": d, "recs": "?", "total": -1, "since": -1, "nstates": -1, "last": "?", "blocks": [], "R": None}
    tap.take()
    np.random.seed(seed)
    E = LABEL_FORMS.get(cfg.get("enc", "int"), int)     # the 0/1 labels in another guise (same confusion cell)
    try:
        d.update(E(yt), E(yp))
        st = d.drift_state
        state = core.dstr(st) if st in (None, "warning", "drift") else "X:" + repr(st)
        ads = d.all_drift_states
        last = ads[-1] if len(ads) else "?"
        obs = {"state": state, "recs": core.recs_str(d.retraining_recs), "total": int(d.total_samples),
               "since": int(d.samples_since_reset), "nstates": len(ads),
               "last": core.dstr(last) if last in (None, "warning", "drift") else "X"}
    except Exception as ex:  # a mutated tree may raise anywhere
        obs = {"state": "EXC:" + type(ex).__name__, "recs": "?", "total": -1, "since": -1, "nstates": -1, "last": "?"}
    # auxiliary, semi-private observable: the statistics at the current index (skipped when not readable)
    try:
        rs = d._r_stat[d.samples_since_reset]
        obs["R"] = {r: float(rs[r]) for r in RATES}
    except Exception:
        obs["R"] = None
    obs["blocks"] = group(tap.take(), cfg["num_mc"])
    return obs


def obs_line(o):
    return f"{o['state']} {o['recs']} {o['total']} {o['since']} {o['nstates']}"


# ---------------------------------------------------------------- declarative specification
def affects(rate, yt, yp):
    return {"tpr": yt == 1, "tnr": yt == 0, "ppv": yp == 1, "npv": yp == 0}[rate]


class Spec:
    """the property text, evaluated from the epoch's raw history and the captured draws"""

    def __init__(self, cfg):
        self.cfg = cfg
        self.total = 0
        self.epoch = []
        self.state = None
        self.recs = [None, None]
        self.cache = {}
        self.states = []
        self.last_R = {}

    def clone(self):
        s = Spec(self.cfg)
        s.total, s.epoch, s.state = self.total, list(self.epoch), self.state
        s.recs, s.cache, s.states = list(self.recs), dict(self.cache), list(self.states)
        return s

    def rate(self, r):
        e = self.epoch
        tp = 1 + sum(1 for t, p in e if t == 1 and p == 1)
        tn = 1 + sum(1 for t, p in e if t == 0 and p == 0)
        fp = 1 + sum(1 for t, p in e if t == 0 and p == 1)
        fn = 1 + sum(1 for t, p in e if t == 1 and p == 0)
        num, den = {"tpr": (tp, tp + fn), "tnr": (tn, tn + fp), "ppv": (tp, tp + fp), "npv": (tn, tn + fn)}[r]
        return num / den, den

    def stat(self, r):
        """eta^k / 2 + (1 - eta) * sum_j eta^(k-j) * 1{y_true_j == y_pred_j} over the samples of the rate's row/column"""
        eta = self.cfg["eta"]
        a = [1.0 if t == p else 0.0 for t, p in self.epoch if affects(r, t, p)]
        k = len(a)
        return eta ** k * 0.5 + (1 - eta) * sum(eta ** (k - j) * a[j - 1] for j in range(1, k + 1))

    def update(self, yt, yp, blocks):
        """returns (problems, margin); problems = clauses about the simulation schedule that fail"""
        c = self.cfg
        if self.state == "drift":
            self.epoch, self.recs = [], [None, None]
        self.epoch.append((yt, yp))
        self.total += 1
        n = len(self.epoch)
        problems, margin, used = [], INF, 0
        warn = alarm = False
        tested = n > c["burn_in"] and n % c["subsample"] == 0
        self.last_R = {r: self.stat(r) for r in c["tracked"]} if (tested or c.get("stat_every_step")) else {}
        if tested:
            for r in c["tracked"]:
                rate, den = self.rate(r)
                R = self.last_R[r]
                key = (float(np.round(np.float64(rate), c["round_val"])), den)
                if key not in self.cache:
                    if used >= len(blocks):
                        problems.append(f"no simulation was run for the new key {key} of {r}")
                        break
                    b = blocks[used]
                    used += 1
                    if not (b["uniform"] and len(b["cols"]) == c["num_mc"] and b["size"] == den
                            and all(len(col) == den for col in b["cols"])):
                        problems.append(f"simulation for {r} is not num_mc={c['num_mc']} vectors of {den} draws "
                                        f"(got {len(b['cols'])} of size {b['size']})")
                        break
                    if b["p"] != rate:
                        problems.append(f"simulation for {r} drew with p={b['p']!r}, the {r.upper()} of the epoch's "
                                        f"confusion matrix is {rate!r}")
                        break
                    eta = c["eta"]
                    stats = [(1 - eta) * sum(eta ** (den - 1 - i) * col[i] for i in range(den)) for col in b["cols"]]
                    self.cache[key] = [float(np.percentile(stats, q)) for q in
                                       (c["warn"] * 100, 100 - c["warn"] * 100, c["detect"] * 100, 100 - c["detect"] * 100)]
                lw, uw, ld, ud = self.cache[key]
                for bnd in (lw, uw, ld, ud):
                    margin = min(margin, abs(R - bnd) / max(1.0, abs(R), abs(bnd)))
                warn = warn or R < lw or R > uw
                alarm = alarm or R < ld or R > ud
            if not problems and used != len(blocks):
                problems.append(f"{len(blocks) - used} simulation(s) run for keys that were already cached")
        elif blocks:
            problems.append("simulation run although the sample is inside burn_in / not a subsample multiple")
        self.state = "drift" if alarm else ("warning" if warn else None)
        self.states.append(self.state)
        if self.state is not None and self.recs[0] is None:
            self.recs[0] = self.total - 1
        if self.state == "drift":
            self.recs[1] = self.total - 1
        return problems, margin

    def line(self):
        return f"{core.dstr(self.state)} {core.recs_str(self.recs)} {self.total} {len(self.epoch)} {len(self.states)}"


# ---------------------------------------------------------------- helpers
def cfg_new_line(cfg):
    return ("new lfr %s %s %s %d %d %d %d %s" % (core.f2b(cfg["eta"]), core.f2b(cfg["warn"]), core.f2b(cfg["detect"]),
                                                  cfg["burn_in"], cfg["num_mc"], cfg["subsample"], cfg["round_val"],
                                                  ",".join(cfg["tracked"])))


def u_line(yt, yp, blocks):
    return " ".join(["u", str(yt), str(yp)] + [block_token(b) for b in blocks])


def parse_model(o):
    """`<state> <recs> <total> <since> <nstates> <used> <given> <shapeok> <margin> | est:den …`"""
    parts = o.split("|")
    if len(parts) != 3:
        return None
    head, tail, rpart = parts
    t = head.split()
    rb = rpart.split()
    if len(t) != 9 or len(rb) != 4:
        return None
    sims = []
    for tok in tail.split():
        e, _, dn = tok.partition(":")
        sims.append((core.b2f(e), int(dn)))
    return {"line": " ".join(t[:5]), "state": t[0], "used": int(t[5]), "given": int(t[6]), "shape": t[7] == "1",
            "margin": core.b2f(t[8]), "sims": sims, "R": dict(zip(RATES, (core.b2f(x) for x in rb)))}


def exact_cfg(cfg, since):
    """eta = 0.5 and a short epoch: statistics, weights and simulated values are dyadic rationals that binary64
    represents exactly, implementation / specification / model perform the same IEEE operations, so a statistic that
    *equals* a bound is a genuine tie (`<` vs `<=` observable) and the thin-margin exemption does not apply"""
    return cfg["eta"] == 0.5 and since <= 40


def payload(cfg, seq, seeds, step, **kw):
    return dict(config=cfg, sequence=[list(x) for x in seq], seeds=list(seeds), step=step, **kw)


class Runner:
    def __init__(self, ctx, LFR, tap):
        self.ctx, self.LFR, self.tap = ctx, LFR, tap
        self.lines, self.expect = [], []      # driver input, and what each output line is compared with
        self.dead = set()                     # cases (id, prefix) whose comparison stopped
        self.spec_fail = 0

    def emit(self, line, exp=None):
        self.lines.append(line)
        self.expect.append(exp)

    # one implementation step + the specification's clauses; returns False when the case must stop
    def check_spec(self, cfg, spec, obs, seq, seeds):
        ctx = self.ctx
        yt, yp = seq[-1]
        problems, margin = spec.update(yt, yp, obs["blocks"])
        step = len(seq) - 1
        if obs["state"].startswith("EXC") or obs["state"].startswith("X:"):
            ctx.fail(signature={"class": "lfr-exception"}, what="update raised / produced an illegal state: " + obs["state"],
                     **payload(cfg, seq, seeds, step, impl=obs_line(obs)))
            return False
        if problems:
            ctx.fail(signature={"class": "lfr-simulation-schedule"}, what=problems[0],
                     **payload(cfg, seq, seeds, step, impl=obs_line(obs), spec=spec.line(),
                               simulations=[{"p": b["p"], "size": b["size"], "n": len(b["cols"])} for b in obs["blocks"]]))
            return False
        if obs.get("R") is not None:
            for r, v in spec.last_R.items():
                ctx.count("statistic_compared(_r_stat)")
                if not core.close(obs["R"][r], v):
                    ctx.fail(signature={"class": "lfr-statistic"},
                             what=f"_r_stat[{r}] = {obs['R'][r]!r} is not the exponentially weighted average over the samples of the "
                                  f"rate's row/column of the epoch ({v!r})",
                             **payload(cfg, seq, seeds, step, impl=obs_line(obs), spec=spec.line(), rate=r))
                    return False
        if margin == 0.0 and exact_cfg(cfg, len(spec.epoch)):
            ctx.count("ties_at_a_bound(exact arithmetic)")
        if obs_line(obs) != spec.line() or obs["last"] != obs["state"]:
            if obs["state"] != core.dstr(spec.state) and margin < 1e-9 and not exact_cfg(cfg, len(spec.epoch)):
                ctx.thin += 1
                return False
            ctx.fail(signature={"class": "lfr-spec"},
                     what="state / retraining_recs / counters / all_drift_states differ from the specification "
                          "(drift (warning) iff a tracked rate's weighted statistic is outside the detect (warning) percentile bounds "
                          "cached for (rounded rate, denominator); recs = first non-None index of the epoch, drift index)",
                     **payload(cfg, seq, seeds, step, impl=obs_line(obs) + " last=" + obs["last"], spec=spec.line(), margin=margin))
            return False
        return True


# ---------------------------------------------------------------- generators
def gen_sequence(rng, n):
    """piecewise stationary: class prior and accuracy per class change a few times (several drifts per history)"""
    seq = []
    while len(seq) < n:
        seg = int(rng.integers(15, 90))
        prior = float(rng.choice([0.2, 0.5, 0.8]))
        acc1 = float(rng.choice([0.1, 0.3, 0.6, 0.9, 1.0]))
        acc0 = float(rng.choice([0.1, 0.3, 0.6, 0.9, 1.0]))
        for _ in range(seg):
            yt = int(rng.random() < prior)
            ok = rng.random() < (acc1 if yt else acc0)
            seq.append((yt, yt if ok else 1 - yt))
    return seq[:n]


LONG_CELLS = [(1, 1), (0, 0), (1, 1), (0, 0), (1, 0), (0, 1)]
# tracked sets that contain a rate whose *numerator* cell dominates (rate close to 1), per dominating cell
LONG_TRACKED = {(1, 1): [["tpr"], ["ppv", "tpr"], ["tpr", "tnr", "ppv", "npv"], ["ppv"]],
                (0, 0): [["tnr"], ["npv", "tnr", "tpr"], ["npv"], ["tnr", "ppv"]],
                (1, 0): [["tpr", "npv"], ["npv"]], (0, 1): [["tnr", "ppv"], ["ppv"]]}


def long_case(rng, i):
    """
    long pure run: one epoch of 420..500 samples dominated by one confusion cell (a rate close to 0 or 1 with a denominator
    in the hundreds, where one more sample moves the rate by ~1e-5..1e-6), burn_in in the hundreds so that no reset happens
    first; a disagreeing sample of the same row and column is injected late (positions 330..400) so that the statistic is far from
    its fixed point while the rate moves by tiny steps
    """
    if i == 0:   # the plain case: 411 correctly classified positives
        cfg = {"eta": 0.99, "warn": 0.05, "detect": 0.05, "burn_in": 410, "num_mc": 15, "subsample": 1, "round_val": 4,
               "tracked": ["tpr"], "stat_every_step": True}
        return cfg, [(1, 1)] * 411
    cell = LONG_CELLS[i % len(LONG_CELLS)]
    warn, detect = LEVELS[int(rng.integers(len(LEVELS)))]
    opts = LONG_TRACKED[cell]
    cfg = {"eta": 0.99 if i % 2 else 0.9, "warn": warn, "detect": detect, "burn_in": 300 if i % 3 else 410,
           "num_mc": 15, "subsample": int(rng.choice([1, 3])), "round_val": int(rng.choice([1, 4])),
           "tracked": list(opts[(i // len(LONG_CELLS)) % len(opts)]), "stat_every_step": True}
    n = int(rng.integers(420, 501))
    noise = float(rng.choice([0.0, 0.01, 0.03]))
    seq = [cell if rng.random() >= noise else (int(rng.integers(2)), int(rng.integers(2))) for _ in range(n)]
    for pos in (int(rng.integers(330, 360)), int(rng.integers(370, 400))):
        seq[pos] = (cell[0], 1 - cell[1]) if rng.random() < 0.5 else (1 - cell[0], cell[1])
    return cfg, seq


def random_cfg(rng, i):
    tracked = list(SUBSETS[i % 15])
    if rng.random() < 0.5:
        tracked = [tracked[j] for j in rng.permutation(len(tracked))]
    warn, detect = LEVELS[int(rng.integers(len(LEVELS)))]
    return {"eta": float(rng.choice([0.5, 0.9, 0.99], p=[0.4, 0.45, 0.15])), "warn": warn, "detect": detect,
            "burn_in": int(rng.choice([0, 5, 20], p=[0.2, 0.3, 0.5])), "num_mc": int(rng.choice([15, 40])),
            "subsample": int(rng.choice([1, 3])), "round_val": int(rng.choice([1, 4])), "tracked": tracked,
            "enc": list(LABEL_FORMS)[i % len(LABEL_FORMS)]}


EXH_CFGS = [
    # eta = 0.5: every statistic and every simulated value is a dyadic rational, so `<` vs `<=` is observable
    {"eta": 0.5, "warn": 0.25, "detect": 0.125, "burn_in": 0, "num_mc": 15, "subsample": 1, "round_val": 1, "tracked": RATES},
    {"eta": 0.5, "warn": 0.2, "detect": 0.05, "burn_in": 2, "num_mc": 15, "subsample": 1, "round_val": 4, "tracked": ["ppv", "tnr"]},
    {"eta": 0.5, "warn": 0.5, "detect": 0.25, "burn_in": 1, "num_mc": 15, "subsample": 2, "round_val": 1, "tracked": ["npv", "tpr", "ppv"]},
    {"eta": 0.9, "warn": 0.1, "detect": 0.01, "burn_in": 3, "num_mc": 15, "subsample": 1, "round_val": 4, "tracked": ["tpr"]},
    {"eta": 0.5, "warn": 0.25, "detect": 0.25, "burn_in": 0, "num_mc": 40, "subsample": 1, "round_val": 1, "tracked": ["tnr"]},
    {"eta": 0.5, "warn": 0.125, "detect": 0.25, "burn_in": 1, "num_mc": 15, "subsample": 3, "round_val": 4, "tracked": ["npv", "ppv", "tnr", "tpr"]},
    {"eta": 0.5, "warn": 0.5, "detect": 0.0, "burn_in": 0, "num_mc": 15, "subsample": 1, "round_val": 1, "tracked": ["ppv"]},
    {"eta": 0.99, "warn": 0.05, "detect": 0.05, "burn_in": 2, "num_mc": 15, "subsample": 1, "round_val": 1, "tracked": ["tnr", "npv"]},
]



# ---------------------------------------------------------------- serial / parallel twins (parallelize=True)
class CATap:
    """
    Content-addressed replacement of np.random.binomial for the serial/parallel twin runs: the k-th draw a thread
    makes for (p, size) within one update depends only on (update seed, p, size, k mod num_mc), so the two joblib
    threads of parallelize=True cannot perturb one another's draws and both modes are deterministic functions of
    the history.  Draws are still numpy Bernoulli samples of the requested p.
    """
    def __init__(self, num_mc):
        import threading
        self.num_mc, self.seed, self.counters, self.lock, self.orig = num_mc, 0, {}, threading.Lock(), None
        self.ident = threading.get_ident

    def begin(self, seed):
        self.seed, self.counters = seed, {}

    def install(self):
        self.orig = np.random.binomial
        tap = self

        def binomial(n, p, size=None):
            key = (tap.ident(), float(p), -1 if size is None else int(size))
            with tap.lock:
                k = tap.counters.get(key, 0)
                tap.counters[key] = k + 1
            rs = np.random.RandomState(H(tap.seed, key[1], key[2], k % tap.num_mc) % (2 ** 32))
            return rs.binomial(n, p, size)

        np.random.binomial = binomial

    def uninstall(self):
        if self.orig is not None:
            np.random.binomial = self.orig
            self.orig = None


def parallel_twins(ctx, LFR, outer_tap):
    """
    parallelize=True must be the same detector as parallelize=False (the flag only selects how the per-rate test
    bodies are scheduled): in particular only the *tracked* rates are tested.  The serial branch is tied to the Lean
    model by the correspondence above; the parallel branch is tied to the serial one here, on the real class,
    observable by observable after every update.
    """
    rng = np.random.default_rng(ctx.seed + 77)
    n_cases = 6 if ctx.quick else 60
    subsets = [[], ["tnr"], ["tpr"], ["ppv", "npv"], ["tnr", "ppv"], ["npv"], ["tpr", "tnr", "ppv"], RATES]
    outer_tap.uninstall()
    try:
        for i in range(n_cases):
            cfg = random_cfg(rng, i)
            cfg["tracked"] = list(subsets[i % len(subsets)])
            cfg["num_mc"], cfg["burn_in"], cfg["round_val"] = 15, int(rng.choice([0, 5, 20])), 4
            n = int(rng.choice([60, 100, 160]))
            seq = gen_sequence(rng, n)
            tap = CATap(cfg["num_mc"])
            tap.install()
            try:
                dets = []
                for par in (False, True):
                    try:
                        dets.append(LFR(time_decay_factor=cfg["eta"], warning_level=cfg["warn"], detect_level=cfg["detect"],
                                        burn_in=cfg["burn_in"], num_mc=cfg["num_mc"], subsample=cfg["subsample"],
                                        rates_tracked=list(cfg["tracked"]), parallelize=par, round_val=cfg["round_val"]))
                    except Exception as ex:
                        dets.append("EXC:" + type(ex).__name__)
                drifts = 0
                for k, (yt, yp) in enumerate(seq):
                    seed = H(ctx.seed, "par", i, k)
                    obs = []
                    for d in dets:
                        tap.begin(seed)
                        o = impl_update(Tap(), d, cfg, yt, yp, seed)
                        obs.append((o["state"], o["recs"], o["total"], o["since"], o["nstates"], o["last"]))
                    ctx.case(("par", i, k), k + 1 > cfg["burn_in"])
                    drifts += obs[0][0] == "D"
                    if obs[0] != obs[1]:
                        ctx.fail(signature={"clause": "parallelize-is-only-scheduling"},
                                 what="LinearFourRates(parallelize=True) reports something else than parallelize=False on the same history and draws "
                                      "(the flag must only change how the per-rate tests are scheduled; untracked rates are never tested)",
                                 config=cfg, history=[list(x) for x in seq[:k + 1]], step=k, serial=list(obs[0]), parallel=list(obs[1]))
                        break
                ctx.count("par.cases")
                ctx.count("par.drifts", drifts)
                ctx.count("par.tracked=%d" % len(cfg["tracked"]))
            finally:
                tap.uninstall()
    finally:
        outer_tap.install()

# ---------------------------------------------------------------- run
def run(ctx):
    # detector objects are independent of one another (a consequence of "the outputs are a function of the detector's own
    # parameters and history"): solo trace = trace when a second object of the class is updated alternately (impl/zoo.py)
    from impl import zoo as _zoo
    for _f in _zoo.isolation_failures(ctx, ['LinearFourRates']):
        ctx.fail(signature={"clause": "detector-objects-independent"}, **_f)
    from menelaus.concept_drift import LinearFourRates as LFR
    tap = Tap()
    tap.install()
    try:
        _run(ctx, LFR, tap)
    finally:
        tap.uninstall()


def _run(ctx, LFR, tap):
    R = Runner(ctx, LFR, tap)
    rng = np.random.default_rng(ctx.seed)
    quick = ctx.quick
    exh_len = 6
    exh_cfgs = EXH_CFGS[:3] if quick else EXH_CFGS
    exh_lens = [6] * len(exh_cfgs) if quick else [7, 7] + [6] * (len(exh_cfgs) - 2)
    n_random = 36 if quick else 900
    n_twin = 24 if quick else 600
    n_long = 10 if quick else 72
    ctx.rule = ("exhaustive: every (y_true,y_pred) sequence of length <= %d (thorough: <= 7 for the first two) (prefix tree, all 4^k nodes) for %d configurations; "
                "random: %d piecewise-stationary sequences of length 40..300 x config menus (eta {.5,.9,.99}, 5 level pairs, burn_in {0,5,20}, "
                "subsample {1,3}, round_val {1,4}, num_mc {15,40}, the 15 non-empty subsets of rates in given or permuted order); "
                "long pure runs: %d histories of 411..500 samples dominated by one cell, burn_in {300,410}, eta {.9,.99}, _r_stat compared at every step; "
                "twin: %d single-rate pairs.  A case (one update of one history) is non-trivial when the test ran (after burn_in, on a "
                "subsample multiple); distinct = distinct (config, history prefix)") % (exh_len, len(exh_cfgs), n_random, n_long, n_twin)

    # ---- A. exhaustive prefix tree
    for ci, cfg in enumerate(exh_cfgs):
        R.emit(cfg_new_line(cfg))
        seeds = [H(ctx.seed, "exh", ci, i) for i in range(exh_lens[ci])]
        case = ("exh", ci)

        def dfs(det, spec, seq, maxlen=exh_lens[ci]):
            depth = len(seq)
            if depth == maxlen:
                return
            for yt, yp in ((0, 0), (0, 1), (1, 0), (1, 1)):
                d2 = copy.deepcopy(det)
                s2 = spec.clone()
                obs = impl_update(tap, d2, cfg, yt, yp, seeds[depth])
                seq2 = seq + [(yt, yp)]
                R.emit("push")
                R.emit(u_line(yt, yp, obs["blocks"]), (case, tuple(seq2), obs, cfg, seeds))
                ok = R.check_spec(cfg, s2, obs, seq2, seeds[:depth + 1])
                tested = len(s2.epoch) > cfg["burn_in"] and len(s2.epoch) % cfg["subsample"] == 0
                ctx.case((ci, tuple(seq2)), tested)
                ctx.count("exh.state." + obs["state"][:3])
                if ok:
                    dfs(d2, s2, seq2)
                else:
                    ctx.count("exh.stopped")
                R.emit("pop")

        dfs(make_impl(LFR, cfg), Spec(cfg), [])
    ctx.exhaustive = True

    # ---- B. random histories
    lengths = [300, 300, 200, 120, 80, 40]
    for i in range(n_random):
        cfg = random_cfg(rng, i)
        n = lengths[i % len(lengths)] if quick else int(rng.choice([40, 80, 120, 200, 300, 300]))
        seq = gen_sequence(rng, n)
        run_case(R, ("rnd", i), cfg, seq)

    # ---- C. untracked-never-matters twins (single tracked rate)
    for i in range(n_twin):
        rate = RATES[i % 4]
        cfg = random_cfg(rng, i)
        cfg["tracked"] = [rate]
        cfg["burn_in"] = int(rng.choice([0, 5, 20]))
        n = int(rng.choice([40, 80, 150]))
        seq = gen_sequence(rng, n)
        twin = []
        for yt, yp in seq:
            if not affects(rate, yt, yp) and rng.random() < 0.6:
                # flip the coordinate the tracked rate does not read on a sample outside its row/column
                yt, yp = (yt, 1 - yp) if rate in ("tpr", "tnr") else (1 - yt, yp)
            twin.append((yt, yp))
        twin_case(R, ("twin", i), cfg, seq, twin)

    # ---- C2. long pure runs (extreme rate, large denominator, burn_in in the hundreds)
    for i in range(n_long):
        cfg, seq = long_case(rng, i)
        tr = run_case(R, ("long", i), cfg, seq)
        ctx.count("long.cases")
        ctx.count("long.tested_steps", sum(1 for k in range(len(tr)) if k + 1 > cfg["burn_in"]))
        ctx.count("long.state.D", sum(1 for o in tr if o["state"] == "D"))

    # ---- C2b. one very long history in few epochs (strict levels): thousands of distinct (rounded rate, denominator) keys pass
    # through the bounds cache of ONE detector -- a cap, an eviction or a nearest-key lookup in that cache shows only here.
    # Judged by the declarative specification (Spec) with the recorded draws; not sent to the Lean model (see run_case).
    deep = (not quick) or os.environ.get("VERIF_C06_VERYLONG") == "1"
    lcfg = {"eta": 0.9, "warn": 0.01, "detect": 0.001, "burn_in": 50, "num_mc": 100 if deep else 15, "subsample": 1, "round_val": 4,
            "tracked": list(RATES)}
    lrng = np.random.default_rng([ctx.seed, 606])
    nlong = 3300 if deep else 500
    nA = nlong * 4 // 5
    lseq = []
    for i in range(nA):                      # phase A: one long, nearly stationary stretch (rates in a narrow band, ever larger denominators)
        yt = int(lrng.integers(2))
        lseq.append((yt, yt if lrng.random() < (0.72 if i < nA // 2 else 0.8) else 1 - yt))
    acc = 0.15
    for i in range(nlong - nA):              # phase B: regimes of 35 samples far from that band: short epochs, small denominators again
        if i % 35 == 0:
            acc = float(lrng.choice([0.1, 0.2, 0.35, 0.5, 0.9]))
        yt = int(lrng.random() < 0.5)
        lseq.append((yt, yt if lrng.random() < acc else 1 - yt))
    ltr = run_case(R, ("verylong", 0), lcfg, lseq, register=False, model=False)
    ctx.count("verylong.updates", len(ltr))
    ctx.count("verylong.simulations", sum(len(o["blocks"]) for o in ltr))
    ctx.case(("verylong", nlong), True)

    # ---- C3. parallelize=True is the same detector (relation on the real class)
    parallel_twins(ctx, LFR, tap)

    # ---- D. thorough: statistical sanity test of the bounds (a test, not a theorem)
    if not quick:
        bounds_sanity(ctx, LFR, tap)

    # ---- model side
    out = core.run_driver(R.lines, timeout=1500)
    compare_model(ctx, R, out)

    # ---- distribution sanity
    st = ctx.stats
    need = ["rnd.state.D", "rnd.state.W", "rnd.state.N", "rnd.cache_hit", "rnd.second_epoch", "exh.state.D", "exh.state.N",
            "ties_at_a_bound(exact arithmetic)", "long.tested_steps"]
    if not ctx.failing and not ctx.mismatches:
        missing = [k for k in need if st.get(k, 0) == 0]
        if missing:
            raise core.Infra("degenerate input distribution: no occurrence of " + ", ".join(missing))


def run_case(R, case, cfg, seq, register=True, model=True):
    """sequential history: implementation + specification clauses, and op lines for the model (model=False: the history is
    judged by the declarative specification only -- very long epochs would send 10^8 recorded draws through the line protocol)"""
    ctx = R.ctx
    seeds = [H(ctx.seed, case, i) for i in range(len(seq))]
    det = make_impl(R.LFR, cfg)
    spec = Spec(cfg)
    if not model:
        R0 = R

        class _NoModel:
            def __getattr__(self, k): return getattr(R0, k)
            def emit(self, *a, **k): pass
        R = _NoModel()
    R.emit(cfg_new_line(cfg))
    trace = []
    epochs = 1
    for i, (yt, yp) in enumerate(seq):
        prev_drift = spec.state == "drift"
        obs = impl_update(R.tap, det, cfg, yt, yp, seeds[i])
        trace.append(obs)
        R.emit(u_line(yt, yp, obs["blocks"]), (case, i, obs, cfg, seeds, seq))
        ok = R.check_spec(cfg, spec, obs, seq[:i + 1], seeds[:i + 1])
        if register:
            tested = len(spec.epoch) > cfg["burn_in"] and len(spec.epoch) % cfg["subsample"] == 0
            ctx.case((case, i), tested)
            ctx.count("rnd.state." + obs["state"][:3])
            if prev_drift:
                epochs += 1
            if tested:
                ctx.count("rnd.tests", len(cfg["tracked"]))
                ctx.count("rnd.simulations", len(obs["blocks"]))
                if len(obs["blocks"]) < len(cfg["tracked"]):
                    ctx.count("rnd.cache_hit", len(cfg["tracked"]) - len(obs["blocks"]))
        if not ok:
            break
    if register:
        if epochs >= 2:
            ctx.count("rnd.second_epoch")
        ctx.count("rnd.len<=%d" % (100 * math.ceil(len(seq) / 100)))
        ctx.count("rnd.tracked=%d" % len(cfg["tracked"]))
        ctx.count("rnd.eta=%s" % cfg["eta"])
        # the full all_drift_states list at the end
        if not isinstance(det, str) and ok:
            ads = "".join(core.dstr(s) if s in (None, "warning", "drift") else "X" for s in det.all_drift_states)
            R.emit("states", (case, "states", ads, cfg, seeds, seq))
        ctx.sample({"config": cfg, "length": len(seq), "states": "".join(o["state"][:1] for o in trace)[:120],
                    "final_recs": trace[-1]["recs"]})
    return trace


def twin_case(R, case, cfg, seq, twin):
    ctx = R.ctx
    a = run_case(R, case, cfg, seq, register=False)
    # second side: implementation only (same seed schedule)
    seeds = [H(ctx.seed, case, i) for i in range(len(twin))]
    det = make_impl(R.LFR, cfg)
    ndiff = sum(1 for x, y in zip(seq, twin) if x != y)
    ctx.count("twin.cases")
    ctx.count("twin.flipped_samples", ndiff)
    for i, (yt, yp) in enumerate(twin):
        if i >= len(a):
            break
        ob = impl_update(R.tap, det, cfg, yt, yp, seeds[i])
        oa = a[i]
        ctx.case((case, i), ndiff > 0)
        if obs_line(oa) != obs_line(ob) or [b["cols"] for b in oa["blocks"]] != [b["cols"] for b in ob["blocks"]] \
                or [(b["p"], b["size"]) for b in oa["blocks"]] != [(b["p"], b["size"]) for b in ob["blocks"]]:
            ctx.fail(signature={"class": "lfr-untracked-twin"},
                     what=f"only {cfg['tracked'][0]} is tracked; two histories that differ only in samples/coordinates it does not read "
                          "give different states or different simulations",
                     config=cfg, sequence=[list(x) for x in seq], twin=[list(x) for x in twin], seeds=seeds[:i + 1], step=i,
                     impl=obs_line(oa), impl_twin=obs_line(ob))
            break
        if oa["state"] != "N":
            ctx.count("twin.state." + oa["state"][:3])


def compare_model(ctx, R, out):
    dead = set()
    for line, o, exp in zip(R.lines, out, R.expect):
        if exp is None:
            if o not in ("ok",):
                raise core.Infra(f"driver rejected `{line[:200]}`: {o}")
            continue
        case = exp[0]
        if case[0] == "exh":
            _, path, obs, cfg, seeds = exp
            if any((case, path[:k]) in dead for k in range(1, len(path))):
                continue
            key, seq, step = (case, path), list(path), len(path) - 1
            seeds = seeds[:len(path)]
        else:
            _, step, obs, cfg, seeds, seq = exp
            if case in dead:
                continue
            key = case
            if step == "states":
                ctx.traces += 1
                if o != obs:
                    dead.add(key)
                    ctx.mismatch(component="lfr", case=repr(case), what="all_drift_states", impl=obs, model=o,
                                 **payload(cfg, seq, seeds, len(seq) - 1))
                continue
            seq, seeds = seq[:step + 1], seeds[:step + 1]
        m = parse_model(o)
        if m is None:
            dead.add(key)
            ctx.mismatch(component="lfr", case=repr(case), impl=obs_line(obs), model=o, **payload(cfg, seq, seeds, step))
            continue
        impl_sims = [(b["p"], b["size"]) for b in obs["blocks"]]
        if m["used"] != m["given"] or not m["shape"] or len(m["sims"]) != len(impl_sims) or \
                any(d1 != d2 or not core.close(e1, e2) for (e1, d1), (e2, d2) in zip(m["sims"], impl_sims)):
            dead.add(key)
            ctx.mismatch(component="lfr", case=repr(case), what="simulation schedule differs",
                         impl=[list(x) for x in impl_sims], model=[list(x) for x in m["sims"]], model_used=m["used"],
                         **payload(cfg, seq, seeds, step))
            continue
        if obs.get("R") is not None and any(not core.close(obs["R"][r], m["R"][r]) for r in RATES):
            dead.add(key)
            ctx.mismatch(component="lfr", case=repr(case), what="_r_stat (statistics of the four rates)",
                         impl=obs["R"], model=m["R"], **payload(cfg, seq, seeds, step))
            continue
        if m["line"] != obs_line(obs):
            dead.add(key)
            if m["state"] != obs["state"] and m["margin"] < 1e-9 and not exact_cfg(cfg, obs["since"]):
                ctx.thin += 1
                continue
            ctx.mismatch(component="lfr", case=repr(case), impl=obs_line(obs), model=m["line"], margin=m["margin"],
                         **payload(cfg, seq, seeds, step))
            continue
        if step == len(seq) - 1 and (case[0] != "exh"):
            pass
    # one trace per history compared
    ctx.traces += sum(1 for e in R.expect if e is not None and e[0][0] != "exh" and e[1] == 0)
    ctx.traces += sum(1 for e in R.expect if e is not None and e[0][0] == "exh" and len(e[1]) >= 6)


# ---------------------------------------------------------------- statistical sanity test (thorough)
def bounds_sanity(ctx, LFR, tap):
    """
    A *test*: with num_mc = 4000 the simulated percentiles must be close to the exact
    quantiles of (1-eta) * sum eta^(N-i) * Bernoulli(p), enumerated over all 2^N outcomes.
    """
    worst = 0.0
    checked = 0
    for k, (eta, level) in enumerate([(0.5, 0.1), (0.9, 0.05), (0.9, 0.2)]):
        cfg = {"eta": eta, "warn": level, "detect": level, "burn_in": 5, "num_mc": 4000, "subsample": 1, "round_val": 4,
               "tracked": ["tpr"]}
        det = make_impl(LFR, cfg)
        seq = [(1, 1), (1, 0), (1, 1), (1, 1), (1, 0), (1, 1)]
        for i, (yt, yp) in enumerate(seq):
            obs = impl_update(tap, det, cfg, yt, yp, H(ctx.seed, "sanity", k, i))
        if len(obs["blocks"]) != 1:
            continue
        b = obs["blocks"][0]
        p, N = b["p"], b["size"]
        stats = sorted((1 - eta) * sum(eta ** (N - 1 - i) * col[i] for i in range(N)) for col in b["cols"])
        lo, hi = np.percentile(stats, level * 100), np.percentile(stats, 100 - level * 100)
        # exact distribution
        outcomes = []
        for bits in itertools.product((0, 1), repeat=N):
            pr = 1.0
            for x in bits:
                pr *= p if x else 1 - p
            outcomes.append(((1 - eta) * sum(eta ** (N - 1 - i) * bits[i] for i in range(N)), pr))
        cdf_lo = sum(pr for v, pr in outcomes if v <= lo + 1e-12)
        cdf_lo_strict = sum(pr for v, pr in outcomes if v < lo - 1e-12)
        cdf_hi = sum(pr for v, pr in outcomes if v <= hi + 1e-12)
        cdf_hi_strict = sum(pr for v, pr in outcomes if v < hi - 1e-12)
        # the exact level must lie in the jump of the CDF at the simulated bound, up to sampling error
        tol = 4 * math.sqrt(0.25 / 4000)
        err = max(0.0, cdf_lo_strict - level - tol, level - cdf_lo - tol,
                  cdf_hi_strict - (1 - level) - tol, (1 - level) - cdf_hi - tol)
        worst = max(worst, err)
        checked += 1
        if err > 0:
            ctx.fail(signature={"class": "lfr-bounds-statistical-test"},
                     what="statistical test: simulated percentile bounds are not the level / 1-level quantiles of the exact distribution",
                     config=cfg, p=p, N=N, lo=float(lo), hi=float(hi), cdf=[cdf_lo_strict, cdf_lo, cdf_hi_strict, cdf_hi])
    ctx.extra["bounds_statistical_test"] = {"kind": "test, not a theorem", "checked": checked, "worst_excess": worst}


# ---------------------------------------------------------------- search / replay
def search(ctx, mismatches):
    """
    Props/C06.lean proves that the model's state is the specification's (decision, cache, recs, counters),
    so a model/implementation difference on the property's observables is a failing input of the property.
    """
    found = []
    for m in mismatches:
        if "config" in m:
            found.append({"signature": {"class": "lfr-model"},
                          "what": "implementation differs from the Lean model of the specification on " +
                                  str(m.get("what", "state / retraining_recs / counters / all_drift_states")),
                          **{k: m[k] for k in m}})
    return found


def replay(ctx, path):
    from menelaus.concept_drift import LinearFourRates as LFR
    r = json.load(open(path))
    cfg, seq, seeds = r.get("config"), r.get("sequence"), r.get("seeds")
    print(json.dumps({k: r[k] for k in r if k not in ("sequence", "seeds", "twin")}, indent=1)[:3000])
    if not (cfg and seq and seeds):
        return 0
    tap = Tap()
    tap.install()
    bad = 0
    try:
        for name, s in (("sequence", seq), ("twin", r.get("twin"))):
            if not s:
                continue
            det, spec = make_impl(LFR, cfg), Spec(cfg)
            for i, (yt, yp) in enumerate(s[:len(seeds)]):
                obs = impl_update(tap, det, cfg, yt, yp, seeds[i])
                problems, margin = spec.update(yt, yp, obs["blocks"])
                flag = "" if (not problems and obs_line(obs) == spec.line()) else "   <-- differs " + "; ".join(problems)
                bad += bool(flag)
                print(f"{name}[{i}] y_true={yt} y_pred={yp} impl: {obs_line(obs)} | spec: {spec.line()} | sims={len(obs['blocks'])}{flag}")
    finally:
        tap.uninstall()
    return 1 if bad else 0
