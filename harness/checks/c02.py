"""
C02 — clean slate after drift / set_reference.

Property clause run directly on the real classes (the failing-input search and at the same
time the tie of the Lean twin theorems of Props/C02.lean to the code): at reported drifts of a
multi-drift history a *fresh* detector with the same parameters (plus the documented
carry-over, built from public data only) is started and fed the rest of the history; after
every update of every later epoch the running detector and the twin must report the same
drift_state, retraining_recs (shifted), counters (shifted) and public statistics.  Stochastic
detectors run under a per-call seed schedule (np.random re-seeded before every call on each
side).  set_reference at an arbitrary point of a batch detector's history is compared with a
new detector started on that reference.
"""
import copy
import numpy as np
import core
from impl import zoo

TRUST = ["carry-over is rebuilt from public data only: CUSUM target/sd_hat = np.mean/np.std of the last burn_in raw observations; "
         "batch detectors: set_reference(drifted batch)",
         "twin runs of stochastic detectors (kdq bootstrap, HDM bootstrap via DataFrame.sample, NNDVI permutations) are aligned by "
         "re-seeding numpy's global state before every call on each side"]

FAMS = ["DDM", "EDDM", "STEPD", "PageHinkley", "CUSUM", "KdqTreeStreaming", "KdqTreeBatch", "HDDDM", "CDBD", "NNDVI"]


def stats(name, det):
    """public statistics beyond drift_state / recs (numeric, compared with core.close)"""
    out = {}
    try:
        if name == "STEPD":
            out = {"recent": float(det.recent_accuracy()), "past": float(det.past_accuracy()), "overall": float(det.overall_accuracy())}
        elif name == "PageHinkley":
            df = det.to_dataframe()
            if len(df):
                last = df.iloc[-1]
                out = {c: float(np.ravel(last[c])[0]) for c in df.columns}
                out["rows"] = float(len(df))
        elif name == "CUSUM":
            out = {"target": None if det.target is None else float(np.ravel(det.target)[0]),
                   "sd_hat": None if det.sd_hat is None else float(np.ravel(det.sd_hat)[0])}
        elif name in ("HDDDM", "CDBD"):
            out = {"reference_n": float(det.reference_n)}
            if hasattr(det, "current_distance"):
                out["current_distance"] = float(det.current_distance)
        elif name == "NNDVI":
            out = {"ref_rows": float(len(det.reference_batch)), "ref_sum": float(np.sum(det.reference_batch))}
    except Exception as e:   # a mutated tree may raise from an accessor
        out = {"EXC": type(e).__name__}
    return out


def same_stats(a, b):
    if a.keys() != b.keys():
        return False
    for k in a:
        x, y = a[k], b[k]
        if isinstance(x, float) and isinstance(y, float):
            if not core.close(x, y):
                return False
        elif x != y:
            return False
    return True


def hdm_records(det, lo):
    """public per-batch records restricted to keys > lo, shifted to start at 0"""
    rec = {}
    for nm in ("distances", "epsilon_values", "thresholds"):
        d = getattr(det, nm)
        rec[nm] = {int(k) - lo: float(v) for k, v in d.items() if int(k) > lo}
    return rec


def same_records(a, b):
    for nm in a:
        if a[nm].keys() != b[nm].keys():
            return False
        for k in a[nm]:
            if not core.close(a[nm][k], b[nm][k]):
                return False
    return True


def fresh_twin(fam, cfg, history_so_far, drifted_item):
    """a new detector with the documented carry-over; returns (twin, ok)"""
    name = fam.name
    if name == "CUSUM":
        b = cfg["burn_in"]
        last = np.array([float(x) for x in history_so_far[-b:]])
        c2 = dict(cfg, target=float(np.mean(last)), sd_hat=float(np.std(last)))
        return fam.make(c2)
    det = fam.make(cfg)
    return det


def run(ctx):
    per = 8 if ctx.quick else 60
    max_twins = 4 if ctx.quick else 8
    ctx.rule = ("for each of DDM, EDDM, STEPD, PageHinkley, CUSUM, KdqTreeStreaming, KdqTreeBatch, HDDDM, CDBD, NNDVI: configurations from "
                "boundary menus x multi-drift histories; at up to %d reported drifts per history a fresh twin (documented carry-over only) is started "
                "and compared after every later update until the end of the history (so through all later epochs); batch detectors additionally get a "
                "set_reference twin at a random position; non-trivial = the twin comparison covered >= 1 further drift of the running detector; "
                "distinct = distinct (detector, config, history, spawn point)") % max_twins
    twins_total = 0
    for name in FAMS:
        fam = zoo.BY_NAME[name]
        for k in range(per):
            crng = np.random.default_rng([ctx.seed, 2, core.shash(name), k])
            cfg = fam.config(crng)
            n = int(crng.choice([300, 700])) if fam.kind == "stream" else int(crng.choice([10, 18, 30]))
            if name == "KdqTreeStreaming":
                n = int(crng.choice([200, 400]))
            hist = fam.history(crng, cfg, n)
            if name == "CUSUM" and k % 4 == 3:
                hist = _plateau_stream(crng, cfg, n)
                ctx.count("CUSUM:plateau-histories")
            if name == "CUSUM" and k % 4 == 1:
                # one observation of very large magnitude early in the history (a glitch, a unit mix-up): once it has left the last
                # burn_in observations nothing of it may survive — statistics maintained incrementally over the whole stream would
                # keep its rounding residue for ever
                j = int(crng.integers(cfg["burn_in"] + 1, max(cfg["burn_in"] + 2, n // 4)))
                hist[j] = float(crng.choice([3.0e8, -2.0 ** 31, 7.0e9]))
                ctx.count("CUSUM:outlier-histories")
            det = fam.make(cfg)
            items = fam.start(det, cfg, hist) or hist
            setref_at = int(crng.integers(1, max(2, len(items) - 2))) if fam.kind == "batch" and crng.random() < 0.7 else None
            tree_ref = hist[0][0] if fam.kind == "batch" else None     # the values the reference summary was last built from
            twins = []          # (twin, offset_total, spawn_index, further_drifts, kind)
            raw = []            # raw scalar observations (CUSUM carry-over)
            drift_idx = []
            failed = False
            for i, it in enumerate(items):
                prev_state = det.drift_state
                # explicit set_reference twin
                if setref_at is not None and i == setref_at:
                    B = items[int(crng.integers(0, i))][0]      # an earlier batch (same width)
                    if crng.random() < 0.4 and tree_ref is not None:
                        # ... or the very values the current reference summary was built from (the user re-installs the
                        # reference, possibly while a drift is pending): still "a new detector on that reference"
                        B = tree_ref
                        ctx.count(f"{name}:set_reference-with-the-current-reference")
                    tree_ref = B
                    seed = int(crng.integers(0, 2**31))
                    for dd in [det] + [t[0] for t in twins]:
                        np.random.seed(seed); dd.set_reference(B.copy())
                    tw = fam.make(cfg)
                    np.random.seed(seed); tw.set_reference(B.copy())
                    twins.append([tw, None, i, 0, "set_reference"])
                    ctx.count(f"{name}:set_reference-twins")
                    prev_state = None   # the pending drift (if any) was superseded by the explicit reference
                # spawn a fresh twin right after a reported drift
                if prev_state == "drift" and len([t for t in twins if t[4] == "drift"]) < max_twins and \
                        (len(drift_idx) <= 2 or crng.random() < 0.3):
                    T = zoo.obs(det)[1]
                    tw = fresh_twin(fam, cfg, raw, items[i - 1])
                    if fam.kind == "batch":
                        np.random.seed(it[1])       # the running detector re-builds its reference inside this update
                        tw.set_reference(items[i - 1][0].copy())
                        tree_ref = items[i - 1][0]
                    twins.append([tw, T, i, 0, "drift"])
                try:
                    fam.feed(det, it)
                except Exception as e:
                    # the running detector rejects this update (e.g. CUSUM's documented ValueError once the re-estimated
                    # standard deviation is 0): a fresh twin with the documented carry-over must reject it the same way
                    ctx.count(f"{name}:update-raised")
                    for tw in twins:
                        try:
                            fam.feed(tw[0], it)
                            ctx.fail(detector=name, config=cfg, spawn_after_update=tw[2] - 1, step=i, twin_kind=tw[4],
                                     what=f"the running detector raised {type(e).__name__} where the fresh twin accepted the update",
                                     history_seed=[ctx.seed, 2, name, k],
                                     items_from_spawn=[_show(x) for x in items[max(0, tw[2] - 1): min(len(items), i + 1)]][:40])
                        except Exception as e2:
                            ctx.count(f"{name}:twin-raised-too")
                            if type(e2) is not type(e):
                                ctx.fail(detector=name, config=cfg, spawn_after_update=tw[2] - 1, step=i, twin_kind=tw[4],
                                         what=f"the running detector raised {type(e).__name__}, the fresh twin {type(e2).__name__}",
                                         history_seed=[ctx.seed, 2, name, k])
                    break
                if name in ("CUSUM",):
                    raw.append(float(it))
                d, t, s, r = zoo.obs(det)
                if d == "drift":
                    drift_idx.append(i)
                st = stats(name, det)
                for tw in twins:
                    if tw is None:
                        continue
                    tdet, off, spawn, further, kind = tw
                    try:
                        fam.feed(tdet, it)
                    except Exception as e:
                        ctx.fail(detector=name, config=cfg, spawn_after_update=spawn - 1, step=i, twin_kind=kind,
                                 what=f"fresh twin raised {type(e).__name__}: {e} where the running detector did not",
                                 history_seed=[ctx.seed, 2, name, k])
                        failed = True; break
                    d2, t2, s2, r2 = zoo.obs(tdet)
                    if off is None:      # set_reference twin: totals are not comparable, states are
                        off_eff = t - t2
                        tw[1] = off_eff if kind == "set_reference" and tw[1] is None else tw[1]
                        off = tw[1]
                    r2s = None if r2 is None else tuple(None if x is None else x + off for x in r2)
                    bad = None
                    if d != d2:
                        bad = f"drift_state {d!r} vs twin {d2!r}"
                    elif kind == "drift" and (t != t2 + off or s != s2):
                        bad = f"counters (total,since)=({t},{s}) vs twin ({t2}+{off},{s2})"
                    elif r != r2s:
                        bad = f"retraining_recs {r} vs twin {r2} shifted by {off}"
                    elif not same_stats(st, stats(name, tdet)):
                        bad = f"public statistics {st} vs twin {stats(name, tdet)}"
                    elif name in ("HDDDM", "CDBD") and not same_records(hdm_records(det, off), hdm_records(tdet, 0)):
                        bad = f"per-batch records {hdm_records(det, off)} vs twin {hdm_records(tdet, 0)}"
                    if bad:
                        ctx.fail(detector=name, config=cfg, spawn_after_update=spawn - 1, step=i, twin_kind=kind, what=bad,
                                 offset=off, history_seed=[ctx.seed, 2, name, k],
                                 items_from_spawn=[_show(x) for x in items[max(0, spawn - 1): min(len(items), i + 1)]][:12])
                        failed = True; break
                    if d == "drift":
                        tw[3] += 1
                if failed:
                    break
            for tw in twins:
                twins_total += 1
                ctx.case((name, repr(cfg), k, tw[2], tw[4]), tw[3] >= 1)
                ctx.count(f"{name}:twins")
                ctx.count(f"{name}:twins-with-further-drift", int(tw[3] >= 1))
            ctx.count(f"{name}:histories")
            ctx.count(f"{name}:drifts", len(drift_idx))
            ctx.traces += 1
            if k == 0:
                ctx.sample({"detector": name, "config": cfg, "updates": len(items), "drifts_at": drift_idx[:10],
                            "twins_spawned_at": [t[2] for t in twins]})
    ctx.extra["twins"] = twins_total
    weak = [n for n in FAMS if ctx.stats.get(f"{n}:twins-with-further-drift", 0) == 0]
    ctx.extra["families_without_multi_epoch_twin"] = weak
    if len(weak) > 3:
        raise core.Infra(f"degenerate input distribution: no twin spanning a further drift for {weak}")


def _plateau_stream(rng, cfg, n):
    """quantised signal: noisy stretches alternate with constant plateaus longer than burn_in, so that the last burn_in
    observations before an alarm can all be equal (re-estimated sd_hat = 0: the documented degenerate case must then be
    reached by the running detector and by the fresh twin alike)"""
    b, out, lvl = cfg["burn_in"], [], 0.0
    while len(out) < n:
        seg = int(rng.integers(b + 2, 4 * b + 12))
        out += [lvl + float(rng.integers(-8, 9)) / 8.0 + float(rng.integers(1, 64)) / 1024.0 for _ in range(seg)]
        lvl += float(rng.choice([-3.0, -1.0, 1.0, 3.0]))
        seg = int(rng.integers(b + 2, 6 * b + 30))
        out += [lvl] * seg
    return out[:n]


def _show(it):
    if isinstance(it, tuple) and hasattr(it[0], "tolist"):
        return {"batch": np.asarray(it[0]).tolist(), "seed": it[1]}
    if isinstance(it, tuple):
        return [x.tolist() if hasattr(x, "tolist") else x for x in it]
    return it


def replay(ctx, path):
    return core.generic_replay(ctx, path, run)
