"""
C07 — HDDDM / CDBD: alarm exactly when the distance change exceeds the adaptive bound.

Three layers, all through the public API of menelaus.data_drift.{HDDDM, CDBD}:

 1. correspondence: generated histories (reference, 6-30 batches of varying size, several level
    shifts, optional set_reference mid-history) x divergence (H / KL / two user functions) x
    detect_batch 1-3 x statistic x significance are run on the real classes and on the Lean model
    (Model/HDM.lean through mdriver); every public observable is compared after every call.
    A user divergence doubles as a probe: it records the count vectors it is handed, which are
    compared exactly with the model's histograms.  `np.histogram` and the distance functions are
    additionally compared on adversarial inputs (values on / one ulp around the linspace edges,
    degenerate ranges, count vectors with zeros) through the pure ops `hist` / `dist`.
 2. property clauses evaluated directly on the implementation's records, independent of the
    model: the recorded distance equals the feature-averaged Hellinger / Jensen-Shannon / user
    distance of histograms with floor(sqrt(n_ref)) bins on common edges (recomputed with
    np.histogram from the harness' own copy of the data), 0 on a batch equal to the reference,
    symmetric for equal sizes, within [0, sqrt 2] / [0, sqrt ln 2]; epsilon = |d_t - d_(t-1)|;
    beta = mean-plus-scaled-deviation of the epoch's epsilons as documented/coded; drift iff
    epsilon > beta (exactly, on the recorded floats) from the detect_batch-th batch of the epoch;
    reference_n bookkeeping; feature_info; counters.  These feed ctx.fail.
 3. the bootstrap estimate eps0 is an input of the specification: it is recomputed here by
    replaying the same seeded draws (np.random.seed before every call; DataFrame.sample draws
    np.random.choice(n_ref, size, replace=True) once per subset) with np.histogram and independent
    distance code, handed to the model, and validated against the value the implementation
    exposes as thresholds[t] on the batch where beta = eps0.
"""
import json, math, os, zlib
import numpy as np
import core

TRUST = [
    "scipy.stats.t.ppf (critical value handed to the model as an oracle; its argument df = reference_n + test_n - 2 is checked by the driver against the model's own state)",
    "bootstrap eps0 (_estimate_initial_epsilon) is an input of the model: recomputed by the harness from the inputs by replaying the seeded np.random.choice draws of DataFrame.sample with np.histogram + independent distance code, and compared with the value exposed as thresholds[t] where beta = eps0",
    "np.histogram / scipy jensenshannon / scipy.stats.entropy are used only by the independent Python recomputation (layer 2); the Lean model has its own histogram, Hellinger and Jensen-Shannon code",
    "Float log1p in the driver is 2*atanh(z/(2+z)) (core Lean has no log1p); np.sum's pairwise order is modelled as a sequential sum (both within the 1e-9 tolerance)",
    "pandas container plumbing (DataFrame(...), concat, iloc, sample) and BatchDetector validation (C14)",
    "excluded: NaN/inf data; ranges so small that np.linspace cannot make increasing edges (numpy raises)",
    "detect_batch=1 with a 2-row reference / drifting batch: update raises from inside reset (known finding, witness in corpus/C07); the model follows the code (rejected call), the state after the exception is not modelled and generated histories use >= 3 rows for detect_batch=1",
]

SQRT2 = math.sqrt(2.0)
SQRTLN2 = math.sqrt(math.log(2.0))


# ------------------------------------------------------------------ user divergences (plain Python floats)
def user_tv(r, t):
    rs = float(sum(int(x) for x in r)); ts = float(sum(int(x) for x in t))
    acc = 0.0
    for a, b in zip(r, t):
        acc = acc + abs(float(a) / rs - float(b) / ts)
    return 0.5 * acc


def user_shift(r, t):
    rs = float(sum(int(x) for x in r)); ts = float(sum(int(x) for x in t))
    acc = 0.0
    for i, (a, b) in enumerate(zip(r, t)):
        acc = acc + float(i + 1) * (float(b) / ts - float(a) / rs)
    return acc


USER = {"tv": user_tv, "shift": user_shift}


class Probe:
    """wraps a user divergence and records the count vectors it receives"""
    def __init__(self, f):
        self.f = f
        self.calls = []

    def __call__(self, r, t):
        self.calls.append(([int(x) for x in r], [int(x) for x in t]))
        return self.f(r, t)


# ------------------------------------------------------------------ independent recomputation
def ind_distance(div, r, t):
    r = np.asarray(r, dtype=float); t = np.asarray(t, dtype=float)
    if div == "H":
        return float(np.sqrt(np.sum((np.sqrt(t / t.sum()) - np.sqrt(r / r.sum())) ** 2)))
    if div == "KL":
        from scipy.stats import entropy
        p = r / r.sum(); q = t / t.sum(); m = (p + q) / 2
        return float(np.sqrt(max(0.0, (entropy(p, m) + entropy(q, m)) / 2)))
    return float(USER[div](r, t))


def ind_feature_distances(div, ref, X):
    """declarative recomputation: floor(sqrt(n_ref)) bins on the common range of ref ∪ X"""
    bins = int(math.isqrt(ref.shape[0]))
    out, hists = [], []
    for f in range(ref.shape[1]):
        lo = min(ref[:, f].min(), X[:, f].min()); hi = max(ref[:, f].max(), X[:, f].max())
        hr = np.histogram(ref[:, f], bins=bins, range=(lo, hi))[0]
        ht = np.histogram(X[:, f], bins=bins, range=(lo, hi))[0]
        hists.append(([int(v) for v in hr], [int(v) for v in ht]))
        out.append(ind_distance(div, hr, ht))
    return out, hists


def ind_eps0(div, ref, X, subsets, seed):
    """replay of _estimate_initial_epsilon under the call's seed (see module docstring)"""
    n = ref.shape[0]
    bins = int(math.isqrt(n))
    size = int((1 - (1 / subsets)) * n)
    rs = np.random.RandomState(seed)
    mins = [min(ref[:, f].min(), X[:, f].min()) for f in range(ref.shape[1])]
    maxs = [max(ref[:, f].max(), X[:, f].max()) for f in range(ref.shape[1])]
    hs = []
    for _ in range(subsets):
        idx = rs.choice(n, size=size, replace=True)
        sub = ref[idx]
        hs.append([np.histogram(sub[:, f], bins=bins, range=(mins[f], maxs[f]))[0] for f in range(ref.shape[1])])
    ds = []
    for i in range(subsets):
        for j in range(i + 1, subsets):
            tot = 0
            for f in range(ref.shape[1]):
                tot = tot + ind_distance(div, hs[i][f], hs[j][f])
            ds.append(tot)
    e = 0
    for i in range(len(ds)):
        for j in range(i + 1, len(ds)):
            e += abs(ds[i] - ds[j])
    return float(e / subsets)


def tcrit(stat, signif, df):
    if stat != "tstat":
        return float("nan")
    from scipy.stats import t
    return float(t.ppf(1 - signif / 2, df))


def spec_beta(stat, signif, since, db, eps0, epoch_eps, tc):
    """documented/coded threshold from the epoch's recorded epsilons c_2..c_since (last = current)"""
    if db != 3 and since == 2:
        return eps0
    d = since - 1
    past = epoch_eps[:-1]
    ehat = sum(past) / d
    sd = math.sqrt(sum((e - ehat) ** 2 for e in past) / d)
    if stat == "tstat":
        return ehat + tc * sd / math.sqrt(d)
    return ehat + signif * sd


# ------------------------------------------------------------------ case generation
def gen_case(rng, idx, quick):
    cls = "CDBD" if rng.random() < 0.3 else "HDDDM"
    div = str(rng.choice(["H", "KL", "tv", "shift"], p=[0.4, 0.3, 0.15, 0.15]))
    if cls == "CDBD" and rng.random() < 0.6:
        div = "KL"
    db = int(rng.choice([1, 2, 3]))
    stat = str(rng.choice(["tstat", "stdev"]))
    signif = float(rng.choice([0.05, 0.01, 0.2, 0.5])) if stat == "tstat" else float(rng.choice([0.0, 0.5, 1.0, 2.0, 3.0]))
    subsets = int(rng.choice([2, 3, 5]))
    dim = 1 if cls == "CDBD" else int(rng.choice([1, 2, 3]))
    kind = str(rng.choice(["dyadic", "continuous", "replicated", "mixed"], p=[0.3, 0.35, 0.15, 0.2]))
    nb = int(rng.integers(6, 31 if not quick else 21))
    small = rng.random() < 0.35
    lo_sz = 3 if db == 1 else 2

    def size():
        if small:
            return int(rng.integers(lo_sz, 9))
        return int(rng.integers(lo_sz, 61))

    level = np.zeros(dim)
    scale = 1.0

    def block(n, kind_):
        if kind_ == "dyadic":
            return np.clip(np.round((rng.normal(size=(n, dim)) * scale + level) * 4) / 4, -64, 64)
        if kind_ == "continuous":
            return rng.normal(size=(n, dim)) * scale + level
        if kind_ == "mixed":
            a = rng.normal(size=(n, dim)) * scale + level
            a[:, 0] = np.round(a[:, 0])        # heavy ties in the first column
            if dim > 1 and rng.random() < 0.3:
                a[:, -1] = 2.5                   # a constant column (degenerate range when all batches agree)
            return a
        raise ValueError(kind_)

    ops = []
    ref_n = size() if not small else int(rng.integers(lo_sz, 10))
    if kind == "replicated":
        base = np.round(rng.normal(size=(max(ref_n, lo_sz), dim)) * 4) / 4
        ref = base.copy()
    else:
        ref = block(max(ref_n, lo_sz), kind)
    ops.append(("setref", ref))
    shift_at = set(int(x) for x in rng.choice(np.arange(2, nb), size=min(nb - 2, int(rng.integers(1, 5))), replace=False))
    setref_at = int(rng.integers(3, nb)) if rng.random() < 0.3 else -1
    for b in range(nb):
        if b in shift_at:
            level = level + rng.choice([-1, 1], size=dim) * rng.choice([0.5, 1.0, 2.0, 4.0]) * (rng.random(dim) < 0.7)
            if rng.random() < 0.3:
                scale = float(rng.choice([0.0, 0.5, 1.0, 2.0]))
        if b == setref_at:
            ops.append(("setref", block(max(size(), lo_sz), kind if kind != "replicated" else "dyadic")))
        if kind == "replicated":
            if b in shift_at:
                base = base + rng.choice([0.0, 0.25, 1.0, 3.0])
            r = rng.random()
            X = base.copy() if r < 0.7 else np.concatenate([base, base]) if r < 0.85 else base[::-1].copy()
        else:
            X = block(size(), kind)
        ops.append(("batch", X))
    frame = rng.random() < 0.25
    seeds = [int(zlib.crc32(f"{idx}:{i}".encode()) ^ int(rng.integers(0, 2**31))) % (2**32) for i in range(len(ops))]
    return {"cls": cls, "div": div, "db": db, "stat": stat, "signif": signif, "subsets": subsets, "dim": dim,
            "kind": kind, "frame": frame, "ops": [[k, a.tolist()] for k, a in ops], "seeds": seeds}


# ------------------------------------------------------------------ running the implementation
def make_detector(case):
    from menelaus.data_drift import HDDDM, CDBD
    div = case["div"]
    probe = None
    if div in USER:
        probe = Probe(USER[div]); divarg = probe
    else:
        divarg = div
    k = dict(divergence=divarg, detect_batch=case["db"], statistic=case["stat"],
             significance=case["signif"], subsets=case["subsets"])
    det = (CDBD if case["cls"] == "CDBD" else HDDDM)(**k)
    return det, probe


def fl(x):
    return None if x is None else float(x)


def observe(det, before_total):
    def g(name):
        try:
            return getattr(det, name)
        except AttributeError:
            return None
    def new(dname):
        d = g(dname) or {}
        return sorted((int(k), float(v)) for k, v in d.items() if int(k) > before_total)
    fi = g("feature_info")
    fe = g("feature_epsilons")
    return {
        "drift": core.dstr(det.drift_state), "total": int(det.total_batches), "since": int(det.batches_since_reset),
        "refN": None if g("reference_n") is None else int(g("reference_n")),
        "dist": fl(g("current_distance")), "distances": new("distances"), "eps": new("epsilon_values"),
        "thr": new("thresholds"), "beta": fl(g("beta")),
        "featEps": None if fe is None else [float(x) for x in fe],
        "featInfo": None if fi is None else {
            "argmax": int(fi["Significant_drift_in_variable "]),
            "eps": [float(x) for x in fi["Epsilons"]], "fd": [float(x) for x in fi["Feature_Distances"]]},
    }


def wrap(case, a):
    a = np.array(a, dtype=float)
    if case["frame"]:
        import pandas as pd
        return pd.DataFrame(a.copy(), columns=[f"c{i}" for i in range(a.shape[1])])
    return a.copy()


def run_impl(case):
    """returns the list of per-op records: {'exc':name} or observables (+ probe histograms)"""
    det, probe = make_detector(case)
    recs = []
    total = 0
    for (kind, data), seed in zip(case["ops"], case["seeds"]):
        X = wrap(case, data)
        if probe is not None:
            probe.calls = []
        np.random.seed(seed)
        try:
            if kind == "setref":
                det.set_reference(X)
            else:
                det.update(X)
        except Exception as ex:  # a changed tree may raise anywhere
            recs.append({"exc": type(ex).__name__, "msg": str(ex)[:200]})
            break
        o = observe(det, total)
        total = o["total"]
        if probe is not None:
            o["calls"] = list(probe.calls)
        recs.append(o)
    return recs


# ------------------------------------------------------------------ layer 2: property clauses on the records
def check_records(ctx, case, recs):
    """walks the history with the harness' own copy of the data; returns the oracle values per op
    (eps0, tcrit, df) for the model and reports property failures through ctx.fail"""
    div, db, stat, signif, dim = case["div"], case["db"], case["stat"], case["signif"], case["dim"]
    bound = SQRT2 if div == "H" else SQRTLN2 if div == "KL" else None
    oracles = []
    ref = None            # the reference the specification prescribes
    pending = None        # batch that replaces the reference at the next update (after a drift)
    since = total = 0
    prev_dist = prev_fd = None
    epoch_eps = []
    stop = False

    def fail(what, cls, i, **kw):
        ctx.fail(signature={"class": cls}, what=what, step=i, op=case["ops"][i][0], case=case,
                 record=recs[i] if i < len(recs) else None, **kw)

    def start_epoch(newref, i):
        """reference := newref, statistics restart; detect_batch=1 pushes the 2nd half through update"""
        nonlocal ref, since, total, prev_dist, prev_fd, epoch_eps
        epoch_eps = []
        since = 0
        proxy_rec = None
        if db == 1:
            h = newref.shape[0] // 2
            first, second = newref[:h], newref[h:]
            if second.shape[0] < 2:
                return "reject"
            fd, _ = ind_feature_distances(div, first, second)
            prev_fd = fd
            prev_dist = (1 / dim) * sum(fd)
            total += 1
            since = 1
            proxy_rec = (total, prev_dist)
        ref = newref
        return proxy_rec

    for i, (kind, data) in enumerate(case["ops"]):
        if i >= len(recs):
            break
        X = np.array(data, dtype=float)
        rec = recs[i]
        eps0 = float("nan"); tc = float("nan"); df = None
        valid = X.shape[0] >= 2
        proxy = None
        if kind == "setref":
            if valid:
                proxy = start_epoch(X, i)
                pending = None
        else:
            if pending is not None:
                proxy = start_epoch(pending, i)
                pending = None
        expect_reject = (not valid) or proxy == "reject"
        if proxy == "reject" and "exc" in rec:
            # the property quantifies over every batch size >= 2: this call should have been processed
            ctx.fail(signature={"class": "detect_batch1-two-row-proxy"}, step=i, op=kind, case=case, record=rec,
                     what="detect_batch=1: the new reference (a 2-row drifting batch / 2-row set_reference data) is split 1+1 "
                          "and its 1-row second half is refused by update() from inside reset(): "
                          f"{rec['exc']}: {rec.get('msg')}")
            oracles.append((eps0, tc, df))
            break
        if "exc" in rec:
            if not expect_reject:
                fail(f"{kind} raised {rec['exc']}: {rec.get('msg')} on an input the specification accepts", "exception", i)
            oracles.append((eps0, tc, df))
            break
        if expect_reject:
            fail("a call the specification rejects (one-row batch / one-row proxy) was accepted", "accepted-invalid", i)
            oracles.append((eps0, tc, df))
            break
        # proxy record of detect_batch = 1
        if proxy is not None:
            pk, pv = proxy
            got = dict(rec["distances"]).get(pk)
            if got is None or not core.close(got, pv):
                fail("detect_batch=1: the distance recorded for the proxy batch (second half of the new reference vs "
                     "the first half) differs from the specification", "proxy-distance", i, expected=pv, got=got)
        if kind == "setref":
            if rec["total"] != total or rec["since"] != since or rec["drift"] != "N":
                fail("counters / drift_state after set_reference", "counters", i, expected=[total, since, "N"])
            if rec["refN"] != ref.shape[0]:
                fail("reference_n after set_reference is not the size of the new reference", "reference_n", i,
                     expected=int(ref.shape[0]))
            oracles.append((eps0, tc, df))
            continue
        # ---- an update
        total += 1
        since += 1
        n_ref = ref.shape[0]
        fd, hists = ind_feature_distances(div, ref, X)
        dist = (1 / dim) * sum(fd)
        df = n_ref + X.shape[0] - 2
        tested = (since >= 2 and db != 3) or (since >= 3 and db == 3)
        if tested:
            tc = tcrit(stat, signif, df)
        if since == 2 and db != 3:
            eps0 = ind_eps0(div, ref, X, case["subsets"], case["seeds"][i])
        oracles.append((eps0, tc, df))
        # counters
        if rec["total"] != total or rec["since"] != since:
            fail("total_batches / batches_since_reset do not count the updates (plus one proxy batch per epoch for "
                 "detect_batch=1)", "counters", i, expected=[total, since])
        # distance
        rd = rec["dist"]
        if rd is None or not core.close(rd, dist):
            fail("recorded distance is not the feature-averaged distance of the aligned histograms "
                 "(floor(sqrt(n_ref)) bins over the common range)", "distance", i, expected=dist, got=rd, n_ref=int(n_ref))
        elif dict(rec["distances"]).get(total) != rd:
            fail("distances[total_batches] is not current_distance", "distance-record", i)
        if rd is not None and bound is not None and not (-1e-12 <= rd <= bound + 1e-9):
            fail("distance outside [0, bound]", "distance-bound", i, bound=bound, got=rd)
        if "calls" in rec:
            off = dim if (proxy is not None) else 0
            got = rec["calls"][off:off + dim]
            if got != hists:
                fail("the count vectors handed to the user divergence are not the aligned histograms of reference and batch",
                     "histograms", i, expected=hists, got=got)
        # feature epsilons
        if since >= 2 and rec["featEps"] is not None and prev_fd is not None:
            exp = [a - b for a, b in zip(fd, prev_fd)]
            if len(exp) != len(rec["featEps"]) or not all(core.close(a, b) for a, b in zip(exp, rec["featEps"])):
                fail("feature_epsilons are not the per-feature distance changes", "feature-epsilons", i, expected=exp)
        # epsilon
        eps_rec = dict(rec["eps"]).get(total)
        thr_rec = dict(rec["thr"]).get(total)
        if since >= 2:
            exp_eps = abs(dist - prev_dist)
            if eps_rec is None or not core.close(eps_rec, exp_eps, abs_=1e-11):
                fail("epsilon is not |distance - previous distance|", "epsilon", i, expected=exp_eps, got=eps_rec)
                stop = True
            else:
                epoch_eps.append(eps_rec)
        elif eps_rec is not None:
            fail("an epsilon was recorded on the first batch of an epoch", "epsilon", i)
        # beta
        drift_expected = False
        if tested and not stop:
            if thr_rec is None:
                fail("no threshold recorded on a batch on which the drift test is due", "beta-missing", i)
                stop = True
            else:
                if since == 2 and db != 3 and not core.close(thr_rec, eps0, rel=1e-7, abs_=1e-10):
                    fail("on the second batch of an epoch (detect_batch != 3) beta must be the bootstrap estimate of epsilon "
                         "(replayed here from the call's seed); the recorded thresholds[t] is something else",
                         "bootstrap-eps0", i, expected=eps0, got=thr_rec)
                exp_beta = spec_beta(stat, signif, since, db, thr_rec if (since == 2 and db != 3) else None, epoch_eps, tc)
                if not core.close(thr_rec, exp_beta, rel=1e-8, abs_=1e-11):
                    fail("beta is not mean + scaled deviation of the epoch's epsilons", "beta", i, expected=exp_beta, got=thr_rec)
                if rec["beta"] != thr_rec:
                    fail("beta attribute differs from thresholds[t]", "beta-record", i)
                drift_expected = eps_rec is not None and eps_rec > thr_rec
        elif not tested and thr_rec is not None:
            fail("a threshold was recorded before the detect_batch-th batch of the epoch", "beta-early", i)
        # drift iff (exact on the recorded floats)
        if not stop:
            is_drift = rec["drift"] == "D"
            if is_drift != drift_expected:
                fail("drift_state is 'drift' iff epsilon > beta on a batch from the detect_batch-th of the epoch on: violated",
                     "drift-iff", i, eps=eps_rec, beta=thr_rec, tested=tested, drift=rec["drift"])
            if rec["drift"] == "W":
                fail("warning state", "drift-iff", i)
            # feature_info
            if is_drift and dim > 1:
                fi = rec["featInfo"]
                if fi is None:
                    fail("feature_info missing on drift", "feature-info", i)
                else:
                    fe = rec["featEps"]
                    am = fe.index(max(fe)) if fe else None
                    ok = (fi["eps"] == fe and fi["argmax"] == am and len(fi["fd"]) == dim
                          and all(core.close(a, b) for a, b in zip(fi["fd"], fd)))
                    if not ok:
                        fail("feature_info does not report the per-feature distances / the first feature whose distance grew most",
                             "feature-info", i, expected={"eps": fe, "argmax": am, "fd": fd})
            # reference bookkeeping
            if is_drift:
                if rec["refN"] != n_ref:
                    fail("reference_n changed on a drifting batch (the replacement is sized at the next update)", "reference_n", i,
                         expected=int(n_ref))
                pending = X
            else:
                if rec["refN"] != n_ref + X.shape[0]:
                    fail("without drift the batch is appended: reference_n must grow by the batch size "
                         "(after a drift: new reference = the drifting batch)", "reference_n", i, expected=int(n_ref + X.shape[0]))
                ref = np.concatenate([ref, X])
                prev_dist, prev_fd = (rd if rd is not None else dist), fd
        if stop:
            break
    return oracles


def check_axioms(ctx, case):
    """identity and symmetry twins on the real class (fresh detectors)"""
    setrefs = [np.array(d, dtype=float) for k, d in case["ops"] if k == "setref"]
    batches = [np.array(d, dtype=float) for k, d in case["ops"] if k == "batch"]
    R = setrefs[0]
    B = next((b for b in batches if b.shape[0] >= R.shape[0]), None)
    out = {}
    try:
        det, _ = make_detector(case)
        np.random.seed(1); det.set_reference(R.copy())
        np.random.seed(2); det.update(R.copy())
        d0 = float(det.current_distance)
        if not abs(d0) <= 1e-12:
            ctx.fail(signature={"class": "identity"}, what="distance of a batch identical to the reference is not 0",
                     case=case, got=d0)
        out["identity"] = d0
        if B is not None and case["div"] != "shift":
            B = B[:R.shape[0]]
            a, _ = make_detector(case); b, _ = make_detector(case)
            np.random.seed(1); a.set_reference(R.copy()); np.random.seed(2); a.update(B.copy())
            np.random.seed(1); b.set_reference(B.copy()); np.random.seed(2); b.update(R.copy())
            da, dbb = float(a.current_distance), float(b.current_distance)
            if not core.close(da, dbb):
                ctx.fail(signature={"class": "symmetry"}, what="distance(reference, batch) != distance(batch, reference) for equal sizes",
                         case=case, reference=R.tolist(), batch=B.tolist(), got=[da, dbb])
            out["symmetry"] = [da, dbb]
            ctx.count("symmetry-twins")
    except Exception as ex:
        ctx.fail(signature={"class": "exception"}, what=f"identity/symmetry twin raised {type(ex).__name__}: {ex}", case=case)
    return out


# ------------------------------------------------------------------ layer 1: model lines and comparison
def f2b(x):
    return core.f2b(x)


def case_lines(case, oracles):
    lines = [f"new hdm {case['div']} {case['db']} {'t' if case['stat'] == 'tstat' else 's'} "
             f"{f2b(case['signif'])} {1 if case['cls'] == 'CDBD' else 0}"]
    for (kind, data), orc in zip(case["ops"], oracles):
        a = np.array(data, dtype=float)
        e0, tc, df = orc
        lines.append(f"{kind} {a.shape[0]} {a.shape[1]} {f2b(e0)} {f2b(tc)} {'_' if df is None else df} "
                     + " ".join(f2b(v) for v in a.ravel()))
    return lines


def parse_model(line):
    if line == "reject":
        return {"exc": "reject"}
    sec = [s.strip() for s in line.split("|")]
    if len(sec) != 11 or not sec[0].startswith("ok "):
        raise core.Infra("unparsable driver line: " + line[:200])
    h = sec[0].split()
    def opt(s):
        return None if s == "_" else core.b2f(s)
    def entries(s):
        return [] if s == "_" else [(int(k), core.b2f(v)) for k, v in (e.split(":") for e in s.split(","))]
    def lst(s):
        return [] if s == "" else [core.b2f(x) for x in s.split(",")]
    fi = None
    if sec[7] != "_":
        a, e, d = sec[7].split(";")
        fi = {"argmax": int(a), "eps": lst(e), "fd": lst(d)}
    hists = None
    if sec[10] != "_":
        hists = []
        for tok in sec[10].split():
            r, t = tok.split(";")
            hists.append(([int(x) for x in r.split(",")] if r else [], [int(x) for x in t.split(",")] if t else []))
    return {"drift": h[1], "total": int(h[2]), "since": int(h[3]), "refN": int(h[4]), "bins": int(h[5]),
            "dist": opt(sec[1]), "distances": entries(sec[2]), "eps": entries(sec[3]), "thr": entries(sec[4]),
            "beta": opt(sec[5]), "featEps": None if sec[6] == "_" else lst(sec[6]), "featInfo": fi,
            "margin": opt(sec[8]), "dfc": sec[9], "hists": hists}


def num_eq(a, b):
    if a is None or b is None:
        return a is None and b is None
    return core.close(a, b, abs_=1e-11)


def list_eq(a, b):
    if a is None or b is None:
        return a is None and b is None
    return len(a) == len(b) and all(num_eq(x, y) for x, y in zip(a, b))


def ent_eq(a, b):
    return len(a) == len(b) and all(k1 == k2 and num_eq(v1, v2) for (k1, v1), (k2, v2) in zip(a, b))


def compare(ctx, case, ci, recs, outs):
    """step-by-step comparison of implementation and model observables; returns number of steps compared"""
    for i, (rec, out) in enumerate(zip(recs, outs)):
        m = parse_model(out)
        kind = case["ops"][i][0]
        def mm(field, a, b):
            ctx.mismatch(component="HDM", case=ci, step=i, op=kind, field=field, impl=a, model=b,
                         config={k: case[k] for k in ("cls", "div", "db", "stat", "signif", "subsets", "dim", "kind")})
        if ("exc" in rec) != ("exc" in m):
            mm("accepted/rejected", rec.get("exc", "accepted"), m.get("exc", "accepted"))
            return i
        if "exc" in rec:
            ctx.count("rejected-calls-agree")
            return i
        if m["dfc"] == "bad":
            mm("oracle-df", "df handed to the model", "differs from model refN + test_n - 2")
            return i
        if rec["drift"] != m["drift"]:
            if m["margin"] is not None and m["margin"] < 1e-9:
                ctx.thin += 1
                return i
            mm("drift_state", rec["drift"], m["drift"])
            return i
        for fld in ("total", "since", "refN"):
            if rec[fld] != m[fld]:
                mm(fld, rec[fld], m[fld]); return i
        for fld, eq in (("dist", num_eq), ("beta", num_eq), ("distances", ent_eq), ("eps", ent_eq), ("thr", ent_eq),
                        ("featEps", list_eq)):
            if not eq(rec[fld], m[fld]):
                mm(fld, rec[fld], m[fld]); return i
        a, b = rec["featInfo"], m["featInfo"]
        if (a is not None and b is not None and a["argmax"] != b["argmax"] and list_eq(a["eps"], b["eps"])
                and max(a["argmax"], b["argmax"]) < len(a["eps"])
                and abs(a["eps"][a["argmax"]] - a["eps"][b["argmax"]]) <= 1e-9 * max(1.0, abs(a["eps"][a["argmax"]]))):
            ctx.thin += 1      # arg-max between two epsilons that agree to rounding: a thin-margin decision
            return i
        if (a is None) != (b is None) or (a is not None and not (
                a["argmax"] == b["argmax"] and list_eq(a["eps"], b["eps"]) and list_eq(a["fd"], b["fd"]))):
            mm("feature_info", a, b); return i
        if "calls" in rec and kind == "batch" and m["hists"] is not None:
            dim = case["dim"]
            # the last dim calls before the bootstrap calls: proxy calls (if any) come first
            n_main = len(rec["calls"])
            proxy_calls = dim if (case["db"] == 1 and i > 0 and recs[i - 1].get("drift") == "D") else 0
            got = rec["calls"][proxy_calls:proxy_calls + dim]
            if got != m["hists"]:
                mm("histograms handed to the user divergence", got, m["hists"]); return i
            ctx.count("histogram-pairs-compared", dim)
    return len(recs)


# ------------------------------------------------------------------ pure ops: np.histogram and distances
def pure_cases(rng, n):
    lines, expect = [], []
    for k in range(n):
        bins = int(rng.integers(1, 13))
        mode = k % 5
        if mode == 0:      # dyadic grid, many values exactly on edges
            lo = float(rng.integers(-8, 8)) / 4; hi = lo + float(rng.integers(0, 33)) / 4
            xs = lo + rng.integers(0, 33, size=int(rng.integers(1, 40))) / 4 * (1 if hi > lo else 0)
            xs = np.concatenate([xs, [lo, hi]])
        elif mode == 1:    # values on / one ulp around the linspace edges
            lo = float(rng.normal()); hi = lo + float(abs(rng.normal()) + 1e-3) * float(rng.choice([1e-3, 1, 1e3]))
            e = np.linspace(lo, hi, bins + 1)
            xs = np.concatenate([e, np.nextafter(e, np.inf), np.nextafter(e, -np.inf), rng.uniform(lo, hi, 5)])
        elif mode == 2:    # continuous, some values outside the range
            lo = float(rng.normal()); hi = lo + float(abs(rng.normal())) + 0.01
            xs = rng.uniform(lo - 0.5, hi + 0.5, size=int(rng.integers(1, 60)))
        elif mode == 3:    # degenerate range (widened by +-0.5)
            lo = hi = float(rng.integers(-5, 6)) / 2
            xs = np.array([lo] * int(rng.integers(1, 6)) + [lo + 0.25, lo - 0.5, lo + 0.5, lo + 0.75])
        else:              # edges at fractions i/bins of an awkward range
            lo = float(rng.uniform(-10, 10)); hi = lo + float(rng.uniform(0.1, 7))
            fr = rng.integers(0, bins + 1, size=20) / bins
            xs = lo + fr * (hi - lo)
            xs = np.concatenate([xs, np.nextafter(xs, np.inf), np.nextafter(xs, -np.inf)])
        try:
            h = [int(v) for v in np.histogram(xs, bins=bins, range=(lo, hi))[0]]
        except ValueError:
            continue
        lines.append(f"hist {bins} {f2b(lo)} {f2b(hi)} " + " ".join(f2b(v) for v in xs))
        expect.append(("hist", {"bins": bins, "lo": lo, "hi": hi, "xs": [float(v) for v in xs]}, h))
    from menelaus.data_drift import HDDDM
    from scipy.spatial.distance import jensenshannon
    for k in range(n):
        b = int(rng.integers(1, 14))
        r = rng.integers(0, 30, size=b); t = rng.integers(0, 30, size=b)
        if k % 3 == 0:
            r = r * (rng.random(b) < 0.6); t = t * (rng.random(b) < 0.6)
        if k % 7 == 0:
            t = r * int(rng.integers(1, 4))
        if r.sum() == 0 or t.sum() == 0:
            continue
        for div in ("H", "KL", "tv", "shift"):
            lines.append(f"dist {div} {b} " + " ".join(str(int(v)) for v in r) + " " + " ".join(str(int(v)) for v in t))
            try:
                if div == "H":
                    # the public `distance_function` of a detector whose reference has b*b rows (so that it uses b bins)
                    d = HDDDM(detect_batch=3)
                    d.set_reference(np.arange(max(2, b * b), dtype=float).reshape(-1, 1))
                    v = float(d.distance_function(r, t))
                elif div == "KL":
                    v = float(jensenshannon(r, t))
                else:
                    v = float(USER[div](r, t))
            except Exception as ex:
                v = "EXC:" + type(ex).__name__
            expect.append(("dist", {"div": div, "r": [int(x) for x in r], "t": [int(x) for x in t]}, v))
    return lines, expect


# ------------------------------------------------------------------ entry points
def evaluate_case(ctx, case, ci):
    recs = run_impl(case)
    oracles = check_records(ctx, case, recs)
    return recs, oracles


def run(ctx):
    rng = np.random.default_rng(ctx.seed)
    ncases = 500 if ctx.quick else 5000
    ctx.rule = ("one case = one detector history (reference, 6-30 batches, level/scale shifts, optional set_reference); "
                "non-trivial when it has at least one drift and one tested non-drift batch; distinct = distinct inputs")
    all_lines, spans, cases = ["new hdm.pure"], [], []
    plines, pexpect = pure_cases(rng, 300 if ctx.quick else 3000)
    all_lines += plines
    stats = {"drifts": 0, "ties": 0}
    corpus = []
    cdir = os.path.join(core.ROOT, "corpus", "C07")
    if os.path.isdir(cdir):
        for fn in sorted(os.listdir(cdir)):
            if fn.endswith(".json"):
                corpus.append(json.load(open(os.path.join(cdir, fn))))
    ctx.extra["corpus_cases"] = len(corpus)
    for ci in range(-len(corpus), ncases):
        case = corpus[ci + len(corpus)] if ci < 0 else gen_case(rng, ci, ctx.quick)
        recs, oracles = evaluate_case(ctx, case, ci)
        if ci >= 0 and ci % 4 == 0:
            check_axioms(ctx, case)
        nd = sum(1 for r in recs if r.get("drift") == "D")
        tested_nd = sum(1 for r in recs if r.get("drift") == "N" and r.get("thr"))
        ctx.case(("case", ci, ctx.seed), nd >= 1 and tested_nd >= 1)
        ctx.count(f"div={case['div']}"); ctx.count(f"detect_batch={case['db']}"); ctx.count(f"stat={case['stat']}")
        ctx.count(f"dim={case['dim']}"); ctx.count(f"kind={case['kind']}"); ctx.count(f"class={case['cls']}")
        ctx.count("drifts=" + ("0" if nd == 0 else "1" if nd == 1 else "2-3" if nd <= 3 else "4+"))
        ctx.count("updates", sum(1 for r in recs if "exc" not in r))
        ties = sum(1 for r in recs if r.get("thr") and r.get("eps") and r["thr"][-1][1] == r["eps"][-1][1])
        ctx.count("ties eps==beta", ties)
        stats["ties"] += ties
        ctx.count("set_reference mid-history", sum(1 for k, _ in case["ops"][1:] if k == "setref"))
        stats["drifts"] += nd
        if 0 <= ci < 3:
            ctx.sample({"config": {k: case[k] for k in ("cls", "div", "db", "stat", "signif", "subsets", "dim", "kind")},
                        "n_ops": len(case["ops"]), "drift_at": [i for i, r in enumerate(recs) if r.get("drift") == "D"],
                        "distances": [r.get("dist") for r in recs][:8]})
        lines = case_lines(case, oracles[:len(recs)])
        spans.append((len(all_lines), len(lines), ci))
        all_lines += lines
        cases.append((case, recs))
    if (stats["drifts"] < ncases // 4 or stats["ties"] < 10) and not ctx.failing:
        raise core.Infra(f"input distribution degenerated: {stats['drifts']} drifts, {stats['ties']} exact ties "
                         f"eps == beta in {ncases} histories")
    out = core.run_driver(all_lines, timeout=1500)
    # pure ops
    for line, o, (kind, inp, exp) in zip(plines, out[1:1 + len(plines)], pexpect):
        ctx.count("pure-" + kind)
        if kind == "hist":
            got = [int(x) for x in o.split()] if o not in ("bad-op",) else o
            if got != exp:
                ctx.mismatch(component="np.histogram", input=inp, impl=exp, model=got)
        else:
            if isinstance(exp, str) or o == "bad-op":
                ctx.mismatch(component="distance", input=inp, impl=exp, model=o)
            else:
                got = core.b2f(o)
                if not core.close(got, exp, abs_=1e-11):
                    ctx.mismatch(component="distance", input=inp, impl=exp, model=got)
                if inp["div"] in ("H", "KL"):
                    bound = SQRT2 if inp["div"] == "H" else SQRTLN2
                    if not (0 <= exp <= bound + 1e-12) or (inp["r"] == inp["t"] and exp != 0):
                        ctx.fail(signature={"class": "distance-axioms"}, what="distance function violates identity / bound",
                                 input=inp, got=exp)
    for (start, n, ci), (case, recs) in zip(spans, cases):
        if out[start] != "ok":
            raise core.Infra("driver rejected: " + all_lines[start])
        compare(ctx, case, ci, recs, out[start + 1:start + n])
        ctx.traces += 1


def search(ctx, mismatches):
    # every generated history already went through the property clauses (check_records); a mismatch
    # that none of them flags concerns an observable outside their reach — no failing input
    return []


def replay(ctx, path):
    r = json.load(open(path))
    case = r.get("case")
    if case is None:
        print(json.dumps(r, indent=1)[:4000]); return 0
    recs = run_impl(case)
    check_records(ctx, case, recs)
    print(json.dumps({"config": {k: case[k] for k in ("cls", "div", "db", "stat", "signif", "subsets", "dim", "kind")},
                      "records": recs[:r.get("step", 0) + 1][-2:],
                      "failures": [{k: f[k] for k in ("what", "step", "signature") if k in f} for f in ctx.failing]}, indent=1, default=str))
    return 1 if ctx.failing else 0
