"""
C15 — detectors and injectors never modify or keep live references to caller data.

The Lean side (Model/Store.lean, Props/C15.lean) proves that the ownership discipline
— validation copies, detector operations touch only detector-owned objects, injectors
work on a fresh copy — implies noninterference and unchanged inputs.  Python object
identity cannot be modelled; that menelaus FOLLOWS the discipline is established here,
by differential runs on the real classes only (no mdriver session):

  1. snapshots: every object passed to update / set_reference / give_oracle_label / an
     injector (arrays, frames, Series, dicts) is fingerprinted bit-for-bit (dtype, shape,
     strides, index, columns, bytes) before and after the call;
  2. twins: run A hands over the caller's own objects and overwrites them in place with
     garbage after the call(s); run B hands over private deep copies and never writes.
     The traces (counters, drift_state, public statistics, digests of stored data) must be
     identical.  Layouts: ndarray C order / Fortran order / strided view of a larger
     array, DataFrame single dtype (one block: `.values` is a view) / mixed dtype; for
     univariate data also 1-D ndarray, 1-D strided view, Series (batch: a column; stream: a
     row), Python scalar, 0-d array and ONE 1-D buffer the caller refills before every
     update (also for multi-feature streaming rows);
     overwrite after every call, and after one call only, for every call position
     (reference batches, test batches, single observations, labels);
  3. injectors: input (and dict arguments) unchanged, result is a new object sharing no
     memory with the input, same container type; overwriting the input afterwards does
     not change the result and vice versa.
"""
import copy, json, warnings, zlib
import numpy as np
import core
from checks import c14

TRUST = [
    "PARTIAL: the theorems are about the ownership discipline of Model/Store.lean; the implementation's adherence is established only by these "
    "differential runs (Python object identity / memory aliasing is outside any Lean model); there is no model-vs-implementation correspondence",
    "the in-place overwrite used by the twins is self-tested on every run: a DataFrame is overwritten cell by cell and a view taken before must "
    "show the new values; a canary detector that keeps `X.values` / the passed ndarray must be caught, else the run is infrastructure trouble",
    "observables: counters, drift_state, public statistics and digests of (partly private) stored data, compared between the two twins only",
    "np.random re-seeded before every call on each side; MD3 with a linear SVC and KFold(random_state=42) is deterministic",
]
GARBAGE = 987654.25
LAYOUTS_ARR = ("C", "F", "strided", "ro-view")
LAYOUTS_DF = ("df-single", "df-mixed", "df-zerocopy")


# ------------------------------------------------------------------ fingerprints
def snap(o):
    import pandas as pd
    if isinstance(o, np.ndarray):
        return ("nd", o.dtype.str, o.shape, o.strides, bool(o.flags.writeable), zlib.crc32(o.tobytes()), o.tobytes()[:64])
    if isinstance(o, pd.DataFrame):
        return ("df", tuple(str(t) for t in o.dtypes), snap(o.index.to_numpy()), tuple(map(repr, o.columns)), type(o.index).__name__,
                tuple(snap(o.iloc[:, j].to_numpy()) for j in range(o.shape[1])))
    if isinstance(o, pd.Series):
        return ("se", str(o.dtype), snap(o.index.to_numpy()), repr(o.name), snap(o.to_numpy()))
    if isinstance(o, dict):
        return ("dict", tuple((repr(k), snap(v)) for k, v in o.items()))
    if isinstance(o, (list, tuple)):
        return (type(o).__name__, tuple(snap(v) for v in o))
    return ("val", type(o).__name__, repr(o))


def make(layout, M, names=None, ints=False):
    """the caller's object holding matrix M in the given memory layout; returns (object passed, base to overwrite)"""
    import pandas as pd
    M = np.asarray(M, dtype=int if ints else float)
    r, c = M.shape
    if layout == "C":
        a = np.ascontiguousarray(M).copy()
        return a, a
    if layout == "F":
        a = np.asfortranarray(M).copy(order="F")
        return a, a
    if layout == "strided":
        base = np.full((2 * r + 1, 2 * c + 1), -3, dtype=M.dtype)
        base[1::2, 1::2][:r, :c] = M
        v = base[1::2, 1::2][:r, :c]
        return v, base
    if layout == "ro-view":
        # a read-only view (sliding_window_view, a frozen view, DataFrame.values under pandas 3) of a buffer its owner can still write
        base = np.ascontiguousarray(M).copy()
        v = base.view()
        v.flags.writeable = False
        return v, base
    names = list(names) if names is not None else c14.NAMES[:c]
    if layout == "df-zerocopy":
        # a frame that wraps the caller's buffer without copying it; the caller re-uses the buffer (writes through numpy, which
        # pandas' copy-on-write bookkeeping cannot see)
        base = np.ascontiguousarray(M).copy()
        return pd.DataFrame(base, columns=names, copy=False), base
    if layout == "df-single":
        d = pd.DataFrame(M.copy(), columns=names)
        return d, d
    if layout == "df-mixed":
        d = pd.DataFrame({n: M[:, j].copy() for j, n in enumerate(names)})
        if c >= 2 and not ints:
            d[names[-1]] = d[names[-1]].astype(np.float32)      # two blocks: `.values` must build a new array
        elif not ints:
            d.index = pd.Index(np.arange(r) * 2 + 5)            # one column: at least a non-default index
        else:
            d[names[-1]] = d[names[-1]].astype(np.int32)
        return d, d
    if layout == "1d":
        a = M.ravel().copy()
        return a, a
    if layout == "1d-strided":
        base = np.full(2 * M.size + 1, -3, dtype=M.dtype)
        base[1::2][:M.size] = M.ravel()
        v = base[1::2][:M.size]
        return v, base
    if layout == "scalar":
        return (int(M[0, 0]) if ints else float(M[0, 0])), None      # immutable: nothing to overwrite
    if layout == "0d":
        a = np.array(M[0, 0])
        return a, a
    if layout == "series":
        s = pd.Series(M.ravel().copy())
        return s, s
    raise core.Infra("layout " + layout)


def scribble(base):
    """overwrite the caller's object in place"""
    import pandas as pd
    if isinstance(base, np.ndarray):
        base[...] = GARBAGE if base.dtype.kind == "f" else 77
    elif isinstance(base, pd.DataFrame):
        for i in range(base.shape[0]):
            for j in range(base.shape[1]):
                base.iat[i, j] = GARBAGE if base.dtypes.iloc[j].kind == "f" else 77
    elif isinstance(base, pd.Series):
        for i in range(len(base)):
            base.iat[i] = GARBAGE if base.dtype.kind == "f" else 77
    elif isinstance(base, dict):
        for k in list(base):
            base[k] = 0.123
        base["__scribble__"] = 1


def self_test():
    import pandas as pd
    d, _ = make("df-single", np.arange(6.0).reshape(3, 2))
    v = d.values
    scribble(d)
    if not (np.asarray(v) == GARBAGE).all():
        raise core.Infra("in-place overwrite of a DataFrame is not visible through a view taken before: the twin runs would be blind")
    a, base = make("strided", np.arange(6.0).reshape(3, 2))
    scribble(base)
    if not (a == GARBAGE).all():
        raise core.Infra("strided view not overwritten")
    for lay in ("ro-view", "df-zerocopy"):
        a, base = make(lay, np.arange(6.0).reshape(3, 2))
        scribble(base)
        if not (np.asarray(a) == GARBAGE).all():
            raise core.Infra(lay + ": writing the caller's buffer is not visible through the object passed: the twin runs would be blind")


# ------------------------------------------------------------------ detectors
def canary_specs():
    from menelaus.detector import StreamingDetector

    class Keeps(StreamingDetector):
        """keeps what it is given: must be caught by the twins"""
        def __init__(self):
            super().__init__()
            self.kept = []

        def update(self, X, y_true=None, y_pred=None):
            self.kept.append(X.values if hasattr(X, "values") else X)
            super().update(X, None, None)
            self.stat = float(sum(np.asarray(k, dtype=float).sum() for k in self.kept))

        def reset(self):
            super().reset()

    return dict(name="canary", mode="stream", kind="stream", w=2, L=4, make=Keeps, shifts=(), aux=("stat",), budget=((1, 0, 0), (1, 0, 0)))


def layouts_for(spec):
    """`buffer` = ONE 1-D array owned by the caller, refilled with the new values before every call (so every call overwrites
    what the previous one passed); 1-D layouts exist for univariate batches (a column) and for streaming rows"""
    if spec["kind"] in c14.LAB:
        return ("1d", "C", "series", "df-single", "ro-view")
    if spec.get("only_1d"):          # univariate twin of a multi-feature spec: the 2-D layouts are exercised there
        return (("1d", "1d-strided", "series", "df-single") if spec["mode"] == "batch"
                else ("scalar", "0d", "1d", "buffer", "series", "df-single"))
    extra = ()
    if spec["mode"] == "batch" and spec["w"] == 1:
        extra = ("1d", "1d-strided", "series")
    elif spec["mode"] == "stream":
        extra = ("scalar", "0d", "1d", "buffer", "series") if spec["w"] == 1 else ("1d", "buffer")
    return LAYOUTS_ARR + LAYOUTS_DF + extra


def univariate_specs(S):
    """1-feature versions of the multivariate detectors that accept univariate data"""
    out = []
    for spec in S:
        if spec["name"] in ("NNDVI", "KdqTreeBatch", "HDDDM(detect_batch=1)", "HDDDM(detect_batch=3)", "KdqTreeStreaming"):
            u = dict(spec)
            u.update(name=spec["name"] + "[1 feature]", w=1, only_1d=True)
            out.append(u)
    return out


def history(spec, hrng):
    L, mode = spec["L"], spec["mode"]
    if spec["kind"] in c14.LAB:
        pat = [(1, 1)] * 6 + [(1, 0)] * 6 + [(1, 1)] * 4
        return [("update", [np.array([[a]]), np.array([[b]])]) for a, b in pat[:L]]
    mats = c14.piecewise(hrng, L, spec["w"], spec["shifts"], rows=spec.get("rows", 1))
    return [("set_reference" if (mode == "batch" and i == 0) else "update", [mats[i]]) for i in range(L)]


def run_twin(ctx, spec, hist, layout, case_seed, overwrite, private):
    """overwrite: None | 'all' | call index.  private: hand over deep copies and never write."""
    det = spec["make"]()
    ints = spec["kind"] in c14.LAB
    trace, mutated = [], None
    buffers = {}
    for i, (method, mats) in enumerate(hist):
        if layout == "buffer":
            objs = []
            for j, M in enumerate(mats):
                flat = np.asarray(M, dtype=int if ints else float).ravel()
                if j not in buffers:
                    buffers[j] = np.empty(flat.size, dtype=flat.dtype)
                buffers[j][...] = flat          # the caller refills its one buffer: this overwrites what it passed last time
                objs.append((buffers[j], buffers[j]))
        else:
            objs = [make(layout, M, ["y"] if ints else None, ints) for M in mats]
        args = [copy.deepcopy(o[0]) for o in objs] if private else [o[0] for o in objs]
        before = [snap(a) for a in args]
        e = c14.do_call(det, method, args, c14.seed_of(case_seed, i))
        after = [snap(a) for a in args]
        if before != after and mutated is None:
            mutated = (i, method)
        if not private and (overwrite == "all" or overwrite == i):
            for o in objs:
                scribble(o[1])
        trace.append((c14.exc_class(e), c14.observe(det, spec)))
    return trace, mutated


def detector_part(ctx):
    S, Y = c14.detectors(ctx)
    rng = np.random.default_rng(ctx.seed)
    # the twins must be able to see an alias: canary
    can = canary_specs()
    hist = history(can, rng)
    for layout in LAYOUTS_ARR + ("df-single",):
        a, _ = run_twin(ctx, can, hist, layout, 1, "all", False)
        b, _ = run_twin(ctx, can, hist, layout, 1, None, True)
        if a == b:
            raise core.Infra("canary detector that keeps its input was not caught for layout " + layout)
    ctx.count("canary-caught", 4)
    nh = 2 if ctx.quick else 6
    for spec in S + univariate_specs(S) + Y:
        name, L = spec["name"], spec["L"]
        for h in range(1 if (ctx.quick and spec.get("only_1d")) else nh):
            for attempt in range(12):
                case_seed = int(rng.integers(1 << 30))
                hist = history(spec, np.random.default_rng(case_seed))
                ref, _ = run_twin(ctx, spec, hist, "C" if spec["kind"] not in c14.LAB else "1d", case_seed, None, True)
                if any(t[1][2:3] == ["D"] for t in ref[:-1]):
                    break
            bad = next((t[0] for t in ref if t[0] != "none"), None)
            if bad:
                raise core.Infra("valid history raised %s for %s" % (bad, name))
            ctx.count("drifts:" + name, sum(1 for t in ref if t[1][2:3] == ["D"]))
            cheap = spec["budget"][0][1] >= 6
            for layout in layouts_for(spec):
                twin, _ = run_twin(ctx, spec, hist, layout, case_seed, None, True)
                ctx.traces += 1
                positions = ["all"] + list(range(L))
                if ctx.quick and not cheap and spec["mode"] == "stream":
                    positions = ["all"] + list(range(h % 2, L, 2))
                if layout == "buffer":
                    positions = [None, "all"]      # None: the refill before the next call is the only overwrite
                elif layout == "scalar":
                    positions = ["all"]
                for ow in positions:
                    main, mutated = run_twin(ctx, spec, hist, layout, case_seed, ow, False)
                    ctx.traces += 1
                    ctx.case((name, h, layout, ow), True)
                    ctx.count("twin:%s" % layout)
                    desc = {"detector": name, "layout": layout, "overwrite_after": ow, "case_seed": case_seed,
                            "history": [{"method": m, "values": [np.asarray(x).tolist() for x in mats]} for m, mats in hist]}
                    if mutated is not None:
                        c14.report(ctx, signature={"class": "input-mutated", "component": name},
                                   what="%s changed the object passed to it (call %d)" % (mutated[1], mutated[0]), **desc)
                    if main != twin:
                        i = next(i for i in range(len(twin)) if main[i] != twin[i])
                        c14.report(ctx, signature={"class": "live-reference", "component": name},
                                   what="after the caller overwrote what it had passed, the detector's trace differs from the run on private copies",
                                   first_differing_call=i, overwritten=main[i], private_copies=twin[i], **desc)
        ctx.sample({"detector": name, "layouts": list(layouts_for(spec)), "calls": L}, limit=3)


def md3_part(ctx):
    import pandas as pd
    from sklearn.svm import SVC
    from menelaus.concept_drift import MD3
    for attempt in range(10):
        if _md3_attempt(ctx, attempt):
            return
    raise core.Infra("no MD3 history asked for oracle labels in 10 attempts")


def _md3_attempt(ctx, attempt):
    import pandas as pd
    from sklearn.svm import SVC
    from menelaus.concept_drift import MD3
    rng = np.random.default_rng(ctx.seed + 15 + 1000 * attempt)
    n = 40
    X = rng.normal(size=(n, 2))
    yv = (X[:, 0] + 0.3 * rng.normal(size=n) > 0).astype(int)
    ref = pd.DataFrame({"a": X[:, 0], "b": X[:, 1], "y": yv.astype(float)})
    stream = [pd.DataFrame({"a": [rng.normal() * 0.05], "b": [rng.normal()]}) for _ in range(20)]      # inside the margin
    labelled = [pd.DataFrame({"a": [rng.normal() - 1.0], "b": [rng.normal()], "y": [float(rng.integers(2))]}) for _ in range(80)]

    def run(overwrite, private):
        """overwrite: the set of methods after which the caller overwrites what it passed"""
        clf = SVC(kernel="linear").fit(ref[["a", "b"]].values, ref["y"].values)
        d = MD3(clf=clf, k=4, sensitivity=0.5, oracle_data_length_required=8)
        out, mutated, li = [], None, 0

        def call(method, obj, **kw):
            nonlocal mutated
            o = copy.deepcopy(obj)           # the caller's own object for this call
            arg = copy.deepcopy(o) if private else o
            b = snap(arg)
            np.random.seed(7)
            try:
                getattr(d, method)(arg, **kw); e = None
            except Exception as ex:
                e = ex
            if snap(arg) != b and mutated is None:
                mutated = method
            if method in overwrite and not private:
                scribble(o)
            out.append((method, c14.exc_class(e), d.total_updates, d.updates_since_reset, d.drift_state, bool(d.waiting_for_oracle),
                        c14.digest(getattr(d, "curr_margin_density", None)), c14.digest(getattr(d, "reference_batch_features", None)),
                        c14.digest(getattr(d, "reference_batch_target", None))))
        call("set_reference", ref, target_name="y")
        for s in stream:
            while d.waiting_for_oracle and li < len(labelled):
                call("give_oracle_label", labelled[li]); li += 1
            call("update", s)
        return out, mutated, li
    with warnings.catch_warnings():
        warnings.simplefilter("ignore")
        twin, _, used = run((), True)
        main_a, mutated, _ = run(("set_reference", "update"), False)
        main_b, mutated_b, _ = run(("give_oracle_label",), False)
    ctx.traces += 3
    ctx.count("md3:oracle-labels-used", used)
    if used < 2:
        ctx.count("md3:history-redrawn")
        return False
    ctx.case(("MD3", "reference+samples"), True)
    ctx.case(("MD3", "labelled samples"), True)
    if mutated or mutated_b:
        c14.report(ctx, signature={"class": "input-mutated", "component": "MD3"}, what="MD3.%s changed its argument" % (mutated or mutated_b))
    for main, sig, what in ((main_a, {"class": "live-reference", "component": "MD3"}, "reference batch / unlabelled samples"),
                            (main_b, {"class": "live-reference", "component": "MD3", "call": "give_oracle_label"}, "labelled samples given to give_oracle_label")):
        if main != twin:
            i = next((i for i in range(min(len(main), len(twin))) if main[i] != twin[i]), min(len(main), len(twin)))
            c14.report(ctx, signature=sig, what="MD3 trace differs after the caller overwrote what it had passed (%s)" % what,
                       first_differing_call=i, overwritten=main[i] if i < len(main) else None, private_copies=twin[i] if i < len(twin) else None)
    return True


# ------------------------------------------------------------------ injectors
def injector_part(ctx):
    import pandas as pd
    from menelaus import injection as inj
    rng = np.random.default_rng(ctx.seed + 3)
    ncalls = 200 if ctx.quick else 2000
    kinds = ["FeatureShiftInjector", "FeatureSwapInjector", "FeatureCoverInjector", "BrownianNoiseInjector",
             "LabelSwapInjector", "LabelJoinInjector", "LabelProbabilityInjector", "LabelDirichletInjector"]
    for kind in kinds:
        shared = getattr(inj, kind)()      # one long-lived injector object serves two calls out of three (containers alternate)
        for k in range(ncalls):
            layout = (LAYOUTS_ARR + LAYOUTS_DF)[k % len(LAYOUTS_ARR + LAYOUTS_DF)]
            n, c = int(rng.integers(6, 14)), 3
            M = np.round(rng.normal(size=(n, c)) * 4) / 4
            M[:, 2] = rng.integers(0, 3, size=n)                 # label / concept column
            M[: 3, 2] = [0, 1, 2]
            obj, base = make(layout, M, ["f0", "f1", "lab"])
            isdf = isinstance(obj, pd.DataFrame)
            col = (lambda j: ["f0", "f1", "lab"][j]) if isdf else (lambda j: j)
            lo = int(rng.integers(0, n)); hi = int(rng.integers(lo, n + 1))
            dicts = []
            expect_reject = False
            if kind == "FeatureShiftInjector":
                args, kw = (obj, lo, hi, col(int(rng.integers(2))), float(rng.integers(1, 4)) / 2), {}
            elif kind == "FeatureSwapInjector":
                args, kw = (obj, lo, hi, col(0), col(1)), {}
            elif kind == "FeatureCoverInjector":
                per = int(rng.integers(1, int(min(np.sum(M[:, 2] == v) for v in (0, 1, 2))) + 1))
                args, kw = (obj, col(2), 3 * per + int(rng.integers(3))), {"random_state": int(rng.integers(100))}
            elif kind == "BrownianNoiseInjector":
                args, kw = (obj, lo, hi, col(int(rng.integers(2))), float(rng.integers(0, 3))), {"random_state": int(rng.integers(100))}
            elif kind == "LabelSwapInjector":
                args, kw = (obj, lo, hi, col(2), 0, 1), {}
            elif kind == "LabelJoinInjector":
                args, kw = (obj, lo, hi, col(2), 0, 1, 5), {}
            elif kind == "LabelProbabilityInjector":
                cp = [{0: 0.5}, {0: 0.25, 1: 0.5}, {2: 1.0}, {0: 0.25, 1: 0.25, 2: 0.5}, {0: 0.75, 1: 0.75}, {0: 0.0, 1: 0.5}][k % 6]
                expect_reject = k % 6 == 4            # probabilities above 1 in total: refused, and refused calls change nothing either
                dicts = [cp]
                args, kw = (obj, lo, hi, col(2), cp), {}
            else:
                al = [{0: 4, 1: 1, 2: 1}, {0: 1, 1: 1, 2: 1}, {0: 4, 1: 0, 2: 1}, {0: 0, 1: 0, 2: 0}, {0: 2.5, 1: 0.5}][k % 5]
                expect_reject = k % 5 in (2, 3)       # a zero weight: numpy's dirichlet refuses it
                dicts = [al]
                args, kw = (obj, lo, hi, col(2), al), {}
            before, dbefore = snap(obj), [snap(d) for d in dicts]
            base_before = snap(base)
            np.random.seed(c14.seed_of(ctx.seed, k))
            try:
                out = (shared if k % 3 else getattr(inj, kind)())(*args, **kw)
            except Exception as ex:
                # the mixed-dtype frame is coerced by np.copy; an injector may legitimately refuse nothing here except the
                # argument dictionaries marked expect_reject -- and a refused call must leave what it was given untouched as well
                if not expect_reject:
                    c14.report(ctx, signature={"class": "injector-raised", "component": kind},
                               what="%s raised %s: %s" % (kind, type(ex).__name__, str(ex)[:100]), layout=layout, window=[lo, hi], values=M.tolist())
                else:
                    ctx.count("inj:refused-call:" + kind)
                    ctx.case((kind, k, "refused"), True)
                if snap(obj) != before or snap(base) != base_before or [snap(d) for d in dicts] != dbefore:
                    c14.report(ctx, signature={"class": "input-mutated", "component": kind}, what=kind + " changed its input / dict argument in a call that raised",
                               injector=kind, layout=layout, window=[lo, hi], values=M.tolist(), dict_args=[repr(d) for d in dicts], raised=type(ex).__name__)
                continue
            ctx.case((kind, k), True)
            ctx.count("inj:%s:%s" % (kind, layout))
            desc = {"injector": kind, "layout": layout, "window": [lo, hi], "values": M.tolist(), "dict_args": [repr(d) for d in dicts]}
            if snap(obj) != before or snap(base) != base_before or [snap(d) for d in dicts] != dbefore:
                c14.report(ctx, signature={"class": "input-mutated", "component": kind}, what=kind + " changed its input / dict argument", **desc)
                continue
            if type(out) is not type(obj):
                c14.report(ctx, signature={"class": "injector-container-changed", "component": kind},
                           what="%s returned %s for %s input" % (kind, type(out).__name__, type(obj).__name__), **desc)
                continue
            if isdf and kind != "FeatureCoverInjector" and list(out.columns) != list(obj.columns):
                c14.report(ctx, signature={"class": "injector-container-changed", "component": kind}, what="column names not preserved", **desc)
            oa = out.to_numpy() if isdf else out
            shares = out is obj or np.shares_memory(oa, base if isinstance(base, np.ndarray) else base.to_numpy()) or \
                (isdf and any(np.shares_memory(out.iloc[:, j].to_numpy(), obj.iloc[:, i].to_numpy())
                              for j in range(out.shape[1]) for i in range(obj.shape[1])))
            if shares:
                c14.report(ctx, signature={"class": "injector-returns-input-memory", "component": kind},
                           what="the result is / shares memory with the input", **desc)
                continue
            osnap = snap(out)
            scribble(base)
            for d in dicts:
                scribble(d)
            if snap(out) != osnap:
                c14.report(ctx, signature={"class": "live-reference", "component": kind},
                           what="the result changed when the caller overwrote the input afterwards", **desc)
                continue
            isnap = snap(obj)
            if isinstance(out, np.ndarray) and not out.flags.writeable:
                ctx.count("inj:result-is-read-only:" + kind)      # FeatureCover hands out `DataFrame.to_numpy()` of its private frame
                continue
            scribble(out)
            if snap(obj) != isnap:
                c14.report(ctx, signature={"class": "live-reference", "component": kind}, what="writing to the result changed the input", **desc)


# ------------------------------------------------------------------ entry points
def run(ctx):
    ctx.rule = ("twins: detector (+ 1-feature versions of NNDVI, KdqTreeBatch, HDDDM, KdqTreeStreaming) x history (with drifts) x layout (read-only view of a writable buffer / zero-copy DataFrame over a caller buffer / C / Fortran / "
                "strided ndarray, single- / mixed-dtype DataFrame; univariate: 1-D ndarray, 1-D strided view, Series, scalar, 0-d array, refilled 1-D buffer; labels: 1-D, "
                "2-D, Series, DataFrame) x overwrite position ('all' and every single call; quick tier: every second call for the expensive "
                "streaming detectors, alternating parity over the two histories); injectors: 200 / 2000 random calls each over the 7 layouts; every case is non-trivial: the overwrite "
                "changes every cell of the caller's object (self-tested), distinct = distinct (component, history, layout, position / call)")
    c14._reported.clear()
    self_test()
    with warnings.catch_warnings():
        warnings.simplefilter("ignore")
        old = np.seterr(all="ignore")
        try:
            detector_part(ctx)
            md3_part(ctx)
            injector_part(ctx)
        finally:
            np.seterr(**old)
    ctx.extra["model_correspondence"] = "none (ownership discipline: see TRUST); traces counted are implementation twin runs"


def search(ctx, mismatches):
    return []


def replay(ctx, path):
    r = json.load(open(path))
    print(json.dumps({k: v for k, v in r.items() if k not in ("history", "values")}, indent=1)[:3000])
    if "detector" in r and r.get("history"):
        ctx.tier = "quick"
        S, Y = c14.detectors(ctx)
        spec = next(s for s in S + univariate_specs(S) + Y if s["name"] == r["detector"])
        hist = [(h["method"], [np.array(v) for v in h["values"]]) for h in r["history"]]
        ow = r["overwrite_after"]
        with warnings.catch_warnings():
            warnings.simplefilter("ignore")
            twin, _ = run_twin(ctx, spec, hist, r["layout"], r["case_seed"], None, True)
            main, mut = run_twin(ctx, spec, hist, r["layout"], r["case_seed"], ow, False)
        print("input mutated at:", mut)
        for i, (a, b) in enumerate(zip(main, twin)):
            print(i, "overwritten", a, "private", b, "" if a == b else "   <-- differs")
    return 0
