"""
C14 — uniform input validation; rejected inputs do no harm; containers don't matter.

Part A (base classes): minimal concrete subclasses of StreamingDetector / BatchDetector are
  driven through EVERY sequence (length <= 3 / 4) over a menu of X inputs (all container kinds x
  shapes x column names), every y input and X+y combinations; each call is compared with
  (1) the property's declarative rule (widths / names established by ACCEPTED inputs only, row
  counts, ValueError) -> ctx.fail, (2) the Lean model `Model/Validate.lean` through mdriver:
  decision, validated array (shape + values) and validation state -> ctx.mismatch.
Part B (every public detector): valid histories (several drifts) under many container
  assignments, one malformed call injected at every position; observables: exception type of the
  rejected call, counters / drift_state right after it, and the full trace of all later calls
  against a twin that never saw the call (np.random re-seeded before every call on each side);
  the twin traces of all container assignments of the same values must be identical; the model
  (per-detector wrapper) must agree on every accept / reject decision and on the validation state.
"""
import itertools, json, warnings, zlib
import numpy as np
import core

TRUST = [
    "column names are strings; `Index.equals` is modelled as order-sensitive list equality (index dtype subtleties such as RangeIndex vs "
    "object are outside the model); nested lists have >= 1 row; no ragged / 3-D / NaN inputs",
    "Part A drives the base-class validation through minimal subclasses defined in the harness (the documented extension point); the "
    "validation state `_input_cols/_input_col_dim` is additionally read as a secondary observable (anchors.state of the property)",
    "a rejected call that arrives while a drift is pending performs the detector's pending reset early (ADWIN, CUSUM, PageHinkley, DDM, EDDM, "
    "STEPD, LFR, kdq-tree, HDDDM/CDBD, NNDVI reset before validating): right after such a call only `total_*` is compared strictly "
    "(since_reset / drift_state may already be reset; HDDDM/CDBD(detect_batch=1) count their internal proxy update); all later calls are compared exactly",
    "seed schedule: np.random is re-seeded before every call on each side; the rejected call gets the seed of the valid call that follows it, so a "
    "pending reset that draws random numbers (KdqTreeBatch.set_reference) consumes the same draws on both sides",
    "MD3 validates on its own (DataFrame-only API, no base-class validation): only its one-record rule is exercised",
    "BatchDetector._validate_y (dead code for all public detectors) and _validate_input(X, y, y) with X and labels together (no public "
    "detector passes both) are tied to the model by correspondence only",
]

KNOWN_GAP = {"class": "batch-dataframe-after-array-width"}
LAB = ("labels", "acc")
D1 = ("li", "a1", "se")
D2 = ("ne", "a2", "df")
NAMES = ["a", "b", "c", "d", "e"]


_reported = {}
_SE = [0]           # number of Series built so far (chooses the index style of the next one)
_DFC = [0]          # number of integer-labelled frames built so far
_A2 = [0]           # number of 2-D arrays built so far
_OBJ = [False]      # whether the detector under test takes object-dtype arrays of numbers (set per detector in part_b)
OBJECT_OK = ("ADWIN", "CUSUM", "PageHinkley", "KdqTreeStreaming", "KdqTreeBatch")


def report(ctx, signature=None, **kw):
    """ctx.fail, at most 3 payloads per signature (core keeps 50 failing inputs in all: a flood of one class must not crowd out another)"""
    k = json.dumps(signature, sort_keys=True)
    _reported[k] = _reported.get(k, 0) + 1
    ctx.count("reported:" + k)
    if _reported[k] <= 3:
        ctx.fail(signature=signature, **kw)


# ------------------------------------------------------------------ inputs
class Inp:
    """one argument value: container kind, shape, column names, row-major values"""
    __slots__ = ("cont", "r", "c", "names", "vals", "ints")

    def __init__(self, cont, vals, r=None, c=None, names=None, ints=False):
        self.ints = bool(ints)      # labels are integers (LinearFourRates indexes its confusion matrix with them)
        self.cont, self.vals, self.r, self.c, self.names = cont, [int(v) if ints else float(v) for v in vals], r, c, names
        if cont == "df":
            self.c = len(names)

    def build(self):
        import pandas as pd
        k, v, dt = self.cont, self.vals, (int if self.ints else float)
        if k == "sc":
            return v[0]
        if k == "li":
            return list(v)
        if k == "a1":
            return np.array(v, dtype=dt)
        if k == "se":
            # a Series arrives with whatever index its origin left on it: default RangeIndex, the row labels of a slice of a longer
            # series (changing from call to call), a DatetimeIndex, or the column names of a DataFrame row; only the values count
            _SE[0] += 1
            n, st = len(v), _SE[0] % 4
            idx = (None if st == 0 else list(range(100 + _SE[0], 100 + _SE[0] + n)) if st == 1
                   else pd.date_range("2020-01-01", periods=n, freq="D") + pd.Timedelta(days=_SE[0] % 20000) if st == 2
                   else ["f%d" % j for j in range(n)])
            return pd.Series(v, dtype=dt, index=idx)
        m = np.array(v, dtype=dt).reshape(self.r, self.c)
        if k == "ne":
            return m.tolist()
        if k == "a2":
            _A2[0] += 1
            if _OBJ[0] and _A2[0] % 4 == 0:
                return m.astype(object)      # numbers in an object-dtype array (a row cut from a frame that also has a string column)
            return m
        if k == "df":
            cols = list(self.names)
            if cols and all(str(n).isdigit() for n in cols):
                # integer column labels; the default labels 0..c-1 alternately as the RangeIndex pandas puts on `DataFrame(array)`
                # and as an explicit integer Index (the two are equal as indexes): default-labelled frames have names like any other
                ic = [int(n) for n in cols]
                _DFC[0] += 1
                if ic == list(range(len(ic))) and _DFC[0] % 2 == 0:
                    return pd.DataFrame(m)
                return pd.DataFrame(m, columns=ic)
            return pd.DataFrame(m, columns=cols)
        raise core.Infra("bad container " + k)

    def shape(self, mode):
        """(rows, cols) after np.array + the reshape of 0-/1-D data (the property's reading of the input)"""
        if self.cont == "sc":
            return (1, 1)
        if self.cont in D1:
            return (1, len(self.vals)) if mode == "stream" else (len(self.vals), 1)
        return (self.r, self.c)

    def size(self):
        return 1 if self.cont == "sc" else len(self.vals)

    def spec(self, vals=True):
        """driver tokens; values as naturals (they are small integers in Part A, dropped in Part B)"""
        v = [str(int(x)) for x in self.vals] if vals else ["0"] * (len(self.vals) if self.cont in D1 + ("sc",) else 0)
        k = self.cont
        if k in ("sc", "li", "a1", "se"):
            return " ".join([k] + v)
        if k in ("ne", "a2"):
            return " ".join([k, str(self.r), str(self.c)] + v)
        return " ".join(["df", ",".join(self.names) if self.names else "-", str(self.r)] + v)

    def desc(self):
        return {"container": self.cont, "rows": self.r, "cols": self.c, "names": self.names, "values": self.vals, "ints": self.ints}

    @staticmethod
    def of(d):
        return Inp(d["container"], d["values"], d["rows"], d["cols"], d["names"], d.get("ints", False))

    def key(self):
        return (self.cont, self.r, self.c, tuple(self.names) if self.names is not None else None, len(self.vals))


def from_matrix(mode, cont, M, names=None, ints=False):
    """the container `cont` holding the logical (rows x cols) matrix M"""
    M = np.asarray(M, dtype=float)
    r, c = M.shape
    if cont == "sc":
        assert (r, c) == (1, 1)
        return Inp("sc", [M[0, 0]], ints=ints)
    if cont in D1:
        assert (r == 1) if mode == "stream" else (c == 1)
        return Inp(cont, M.ravel(), ints=ints)
    return Inp(cont, M.ravel(), r, c, list(names if names is not None else NAMES[:c]) if cont == "df" else None, ints=ints)


def exc_class(e):
    return "none" if e is None else ("ValueError" if type(e) is ValueError else "other:" + type(e).__name__)


# ------------------------------------------------------------------ the property's rule
class Rule:
    """what the property says, independent of model and code: width / names are established by ACCEPTED inputs"""

    def __init__(self, mode, univariate=False):
        self.mode, self.uni, self.w, self.names, self.w_by_frame = mode, univariate, None, None, False

    def expect(self, x):
        """(should_reject, reasons)"""
        r, c = x.shape(self.mode)
        why = []
        if (self.mode == "stream" and r != 1) or (self.mode == "batch" and r < 2):
            why.append("rows")
        if self.w is not None and c != self.w:
            why.append("width")
        if x.cont == "df" and self.names is not None and list(x.names) != self.names:
            why.append("names")
        if self.uni and c != 1:
            why.append("univariate")
        return bool(why), why

    def is_known_gap(self, x, why):
        return (self.mode == "batch" and x.cont == "df" and self.names is None and self.w is not None
                and why == ["width"])

    def accept(self, x):
        r, c = x.shape(self.mode)
        if self.w is None:
            self.w = c
        if x.cont == "df" and self.names is None:
            self.names = list(x.names)


# ------------------------------------------------------------------ Part A: base classes
def stubs():
    from menelaus.detector import StreamingDetector, BatchDetector

    class S(StreamingDetector):
        def update(self, X=None, y_true=None, y_pred=None):
            out = self._validate_input(X, y_true, y_pred)
            super().update(X, y_true, y_pred)
            return out

        def reset(self):
            super().reset()

    class B(BatchDetector):
        def update(self, X=None, y_true=None, y_pred=None):
            out = self._validate_input(X, y_true, y_pred)
            super().update(X, y_true, y_pred)
            return out

        def set_reference(self, X=None, y_true=None, y_pred=None):
            return self._validate_input(X, y_true, y_pred)

        def reset(self):
            super().reset()

    return {"stream": S, "batch": B}


def x_menu(full, medium=False):
    cnt = itertools.count(1)
    if medium:
        full = False

    def vals(n):
        return [next(cnt) % 90 + 1 for _ in range(n)]
    m = [Inp("sc", vals(1))]
    for n in ((1, 2, 3) if full else (1, 2)):
        m.append(Inp("li", vals(n)))
    for n in ((0, 1, 2, 3) if full else (1, 2)):
        m.append(Inp("a1", vals(n)))
    for n in (1, 2):
        m.append(Inp("se", vals(n)))
    for (r, c) in (((1, 1), (1, 2), (2, 1), (2, 2), (3, 2), (1, 3)) if full else ((1, 2), (2, 1), (2, 2))):
        m.append(Inp("ne", vals(r * c), r, c))
    for (r, c) in (((0, 2), (1, 1), (1, 2), (2, 1), (2, 2), (3, 2), (3, 1), (1, 3), (2, 3)) if full else
                   ((0, 2), (1, 1), (1, 2), (2, 1), (2, 2), (2, 3), (1, 3)) if medium else ((1, 2), (2, 1), (2, 2), (2, 3))):
        m.append(Inp("a2", vals(r * c), r, c))
    for names in ((["a"], ["a", "b"], ["b", "a"], ["a", "c"], ["a", "b", "c"], []) if full else
                  (["a"], ["a", "b"], ["b", "a"], ["a", "b", "c"]) if medium else (["a", "b"], ["b", "a"], ["a", "b", "c"])):
        for r in ((0, 1, 2, 3) if full else (1, 2)):
            if r == 0 and len(names) != 2:
                continue
            m.append(Inp("df", vals(r * len(names)), r, None, names))
    return m


def y_menu():
    m = [Inp("sc", [1]), Inp("li", []), Inp("li", [1]), Inp("li", [1, 0]), Inp("a1", [1]), Inp("a1", [1, 0, 1]),
         Inp("se", [0]), Inp("se", [0, 1]), Inp("ne", [1], 1, 1), Inp("ne", [1, 0], 2, 1), Inp("ne", [1, 0], 1, 2),
         Inp("a2", [1], 1, 1), Inp("a2", [1, 0], 2, 1), Inp("a2", [1, 0, 1], 3, 1), Inp("a2", [1, 0], 1, 2),
         Inp("a2", [1, 0, 1, 1], 2, 2), Inp("a2", [], 0, 1), Inp("df", [1], 1, None, ["y"]), Inp("df", [1, 0], 2, None, ["y"]),
         Inp("df", [1, 0], 1, None, ["y", "z"])]
    return m


def arr_str(a):
    if a is None:
        return "none"
    a = np.asarray(a)
    if a.ndim == 1:      # streaming _validate_y returns shape (1,)
        a = a.reshape(1, -1)
    if a.ndim != 2:
        return "ndim%d" % a.ndim
    return "%dx%d:%s" % (a.shape[0], a.shape[1], ",".join(str(int(v)) for v in a.ravel()) if a.size else "-")


def state_str(det):
    cols = getattr(det, "_input_cols", "?")
    dim = getattr(det, "_input_col_dim", "?")
    if cols is None:
        cs = "_"
    elif isinstance(cols, str):
        cs = "?"
    else:
        cs = ",".join(str(x) for x in list(cols)) if len(cols) else "-"
    return cs + " | " + ("_" if dim is None else str(dim))


def part_a(ctx, drv):
    cls = stubs()
    menu_full = x_menu(True)
    menu_medium = x_menu(False, True)
    menu_small = x_menu(False)
    plans = [(menu_medium, 3)] if ctx.quick else [(menu_full, 3), (menu_small, 4)]
    ctx.extra["partA_plans"] = [{"menu_size": len(m), "sequence_length": L} for m, L in plans]
    seqs = 0
    for mode in ("stream", "batch"):
        for menu, L in plans:
            for seq in itertools.product(range(len(menu)), repeat=L):
                det = cls[mode]()
                rule = Rule(mode)
                lines = ["new validate " + mode]
                exp = [None]
                seqs += 1
                accepted = 0
                for pos, ix in enumerate(seq):
                    x = menu[ix]
                    before = state_str(det)
                    try:
                        out = det.update(x.build())
                        e, got = None, "ok " + arr_str(out[0])
                    except Exception as ex:
                        e, got = ex, "rej"
                    after = state_str(det)
                    lines.append("X " + x.spec())
                    exp.append((got + " | " + after, (mode, "X", tuple(menu[i].key() for i in seq[:pos + 1]))))
                    bad, why = rule.expect(x)
                    case = {"base": mode, "history": [menu[i].desc() for i in seq[:pos]], "call": x.desc()}
                    if bad:
                        ctx.count("A:%s:reject-expected:%s" % (mode, "+".join(why)))
                        if e is None:
                            if rule.is_known_gap(x, why):
                                report(ctx, signature=KNOWN_GAP, what="BatchDetector accepted a DataFrame whose width differs from the "
                                         "dimension established by earlier array/list input", expected_reject=why, **case)
                                ctx.count("A:known-gap")
                                break    # the established width is no longer well defined
                            report(ctx, signature={"class": "malformed-accepted", "component": "base-" + mode, "why": why},
                                     what="an input the property requires to be rejected was accepted", **case)
                            break
                        if exc_class(e) != "ValueError":
                            report(ctx, signature={"class": "wrong-exception", "component": "base-" + mode},
                                     what="rejected with %s instead of ValueError" % exc_class(e), **case)
                        if after != before:
                            report(ctx, signature={"class": "rejected-call-changed-state", "component": "base-" + mode},
                                     what="a rejected input changed the recorded names / dimension", before=before, after=after, **case)
                    else:
                        if e is not None:
                            report(ctx, signature={"class": "valid-rejected", "component": "base-" + mode},
                                     what="a valid input was rejected (%s: %s)" % (type(e).__name__, str(e)[:80]), **case)
                            break
                        accepted += 1
                        rule.accept(x)
                    tot = det.total_samples if mode == "stream" else det.total_batches
                    if tot != accepted:
                        report(ctx, signature={"class": "rejected-call-counted", "component": "base-" + mode},
                                 what="update counter differs from the number of accepted calls", counter=tot, accepted=accepted, **case)
                        break
                ctx.case((mode, L, seq), any(True for _ in seq))
                drv.add(lines, exp)
    ctx.count("A:sequences", seqs)
    # _validate_y, both bases, every y input (stateless), and X+y combinations through _validate_input
    ys = y_menu()
    for mode in ("stream", "batch"):
        lines, exp = ["new validate " + mode], [None]
        for y in ys:
            det = cls[mode]()
            try:
                out = det.update(None, y.build(), None)
                e, got = None, "ok " + arr_str(out[1])
            except Exception as ex:
                e, got = ex, ("rej" if exc_class(ex) == "ValueError" else "rej-with-" + exc_class(ex))   # the contract is ValueError
            lines.append("Y " + y.spec())
            exp.append((got, (mode, "Y", y.key())))
            ctx.case((mode, "Y", y.key()), True)
            if mode == "stream":
                bad = y.size() != 1
                case = {"base": mode, "y": y.desc()}
                if bad and e is None:
                    report(ctx, signature={"class": "malformed-accepted", "component": "base-stream-y"},
                             what="y with %d observations accepted by a streaming detector" % y.size(), **case)
                elif bad and exc_class(e) != "ValueError":
                    report(ctx, signature={"class": "wrong-exception", "component": "base-stream-y"},
                             what="y rejected with %s instead of ValueError" % exc_class(e), **case)
                elif not bad and e is not None:
                    report(ctx, signature={"class": "valid-rejected", "component": "base-stream-y"},
                             what="a single label was rejected", **case)
        drv.add(lines, exp)
        xs = [x for x in menu_small if x.cont in ("a1", "a2", "df")][:8]
        for x1, x2 in itertools.product(xs, repeat=2):
            for yt, yp in itertools.product([None] + ys[:6] + ys[11:14], repeat=2):
                if yt is None and yp is None:
                    continue
                det = cls[mode]()
                lines, exp = ["new validate " + mode], [None]
                for x, a, b in ((x1, yt, yp), (x2, None, None)):
                    try:
                        out = det.update(x.build(), None if a is None else a.build(), None if b is None else b.build())
                        got = "ok X=%s yt=%s yp=%s" % tuple(arr_str(o) for o in out)
                    except Exception as ex:
                        got = "rej" if exc_class(ex) == "ValueError" else "rej-with-" + exc_class(ex)
                    lines.append("I %s ; %s ; %s" % (x.spec(), "none" if a is None else a.spec(), "none" if b is None else b.spec()))
                    exp.append((got + " | " + state_str(det), (mode, "I", x1.key(), x2.key())))
                ctx.case((mode, "I", x1.key(), x2.key(), None if yt is None else yt.key(), None if yp is None else yp.key()), True)
                drv.add(lines, exp)


class Drv:
    """collects driver sessions (deduplicated), runs mdriver once, compares"""

    def __init__(self):
        self.sessions = {}

    def add(self, lines, exp):
        k = tuple(lines)
        if k not in self.sessions:
            self.sessions[k] = exp

    def run(self, ctx):
        lines = []
        for k in self.sessions:
            lines.extend(k)
        out = core.run_driver(lines)
        at = 0
        for k, exps in self.sessions.items():
            outs = out[at:at + len(k)]
            at += len(k)
            for j, (line, o, exp) in enumerate(zip(k, outs, exps)):
                if exp is None:
                    if o != "ok":
                        raise core.Infra(f"driver rejected `{line}`: {o}")
                    continue
                if o == "bad-op":
                    raise core.Infra(f"driver could not parse `{line}`")
                impl = exp[0] if isinstance(exp, tuple) else exp
                ctx.traces += 1
                mo = o
                if mo.startswith("rej:"):      # the reason is informative only
                    mo = "rej" + (mo[mo.index(" |"):] if " |" in mo else "")
                if impl.startswith("dec* "):   # validation state only: the decision token is not compared (known-gap calls, see check_injection)
                    mo = "*" + mo[mo.index(" |"):]
                    impl = "*" + impl[impl.index(" |"):]
                elif impl.startswith("dec "):    # decision + validation state only (Part B)
                    mo = ("ok" if mo.startswith("ok") else "rej") + mo[mo.index(" |"):]
                    impl = impl[4:]
                if mo != impl:
                    ctx.mismatch(component="validate", session=list(k[:j + 1]), step=j, impl=impl, model=o)
                    break
        ctx.extra["driver_lines"] = len(lines)
        ctx.extra["driver_sessions"] = len(self.sessions)


# ------------------------------------------------------------------ Part B: the public detectors
def seed_of(case_seed, i):
    return zlib.crc32(("%d:%d" % (case_seed, i)).encode()) & 0x7FFFFFFF


def piecewise(rng, L, w, shifts, scale=6.0, rows=1):
    out = []
    for i in range(L):
        lvl = scale * sum(1 for s in shifts if i >= s) % (2 * scale)
        out.append(np.round(rng.normal(size=(rows, w)) * 8) / 8 + lvl)
    return out


def detectors(ctx):
    from menelaus.change_detection import ADWIN, CUSUM, PageHinkley
    from menelaus.concept_drift import DDM, EDDM, STEPD, LinearFourRates, ADWINAccuracy
    from menelaus.data_drift import KdqTreeStreaming, KdqTreeBatch, HDDDM, CDBD, NNDVI, PCACD
    aw = dict(new_sample_thresh=1, window_size_thresh=2, subwindow_size_thresh=1)
    hx = lambda d: (repr(getattr(d, "current_distance", None)), repr(getattr(d, "beta", None)), digest(getattr(d, "distances", None)),
                    digest(getattr(d, "epsilon_values", None)), digest(getattr(d, "thresholds", None)), digest(getattr(d, "reference", None)))
    # budget: (histories, ordered container pairs, malformed variants per kind and (assignment, position)) for quick / thorough
    CH, EX = ((1, 8, 2), (2, 12, 5)), ((1, 2, 1), (2, 5, 2))
    S = [
        dict(name="ADWIN", mode="stream", kind="uni", w=1, L=10, make=lambda: ADWIN(delta=0.5, **aw), shifts=(5,),
             extra=lambda d: (repr(d.retraining_recs), repr(d.mean()), repr(d.variance())), budget=CH),
        dict(name="CUSUM", aux=("_upper_bound", "_lower_bound", "target", "sd_hat"), mode="stream", kind="uni", w=1, L=10, make=lambda: CUSUM(burn_in=3, threshold=2, delta=0.005), shifts=(5,), budget=CH),
        dict(name="PageHinkley", aux=("_sum", "_min", "_max", "_mean", "_page_hinkley_values"), mode="stream", kind="uni", w=1, L=10, make=lambda: PageHinkley(burn_in=3, threshold=1, delta=0.01), shifts=(4, 8), budget=CH),
        dict(name="KdqTreeStreaming", aux=("_test_dist", "_critical_dist", "_drift_counter", "_test_data_size"), mode="stream", kind="stream", w=2, L=16,
             make=lambda: KdqTreeStreaming(window_size=4, bootstrap_samples=3, persistence=0.2, count_ubound=1, alpha=0.34), shifts=(8,), budget=EX),
        dict(name="PCACD", aux=("_change_score", "_drift_detection_monitor._sum", "_reference_window", "_test_window"), mode="stream", kind="stream", w=3, L=18,
             make=lambda: PCACD(window_size=5, sample_period=0.2, divergence_metric="intersection", delta=0.05), shifts=(11,), budget=EX),
        dict(name="KdqTreeBatch", aux=("_test_dist", "_critical_dist"), mode="batch", kind="batch", w=2, L=6, rows=12,
             make=lambda: KdqTreeBatch(bootstrap_samples=3, count_ubound=2, alpha=0.34), shifts=(3, 5), budget=EX),
        dict(name="HDDDM(detect_batch=1)", mode="batch", kind="hdm1", w=2, L=6, rows=8, make=lambda: HDDDM(detect_batch=1, subsets=3), shifts=(3, 5),
             extra=hx, early_count=True, budget=EX),
        dict(name="HDDDM(detect_batch=3)", mode="batch", kind="batch", w=2, L=6, rows=8, make=lambda: HDDDM(detect_batch=3, subsets=3), shifts=(3, 5),
             extra=hx, budget=EX),
        dict(name="CDBD(detect_batch=1)", mode="batch", kind="cdbd1", w=1, L=6, rows=8, make=lambda: CDBD(detect_batch=1, subsets=3), shifts=(3, 5),
             extra=hx, early_count=True, budget=EX),
        dict(name="CDBD(detect_batch=2)", mode="batch", kind="cdbd", w=1, L=6, rows=8, make=lambda: CDBD(detect_batch=2, subsets=3), shifts=(3, 5),
             extra=hx, budget=EX),
        dict(name="NNDVI", aux=("reference_batch",), mode="batch", kind="batch", w=2, L=6, rows=8, make=lambda: NNDVI(k_nn=2, sampling_times=10, alpha=0.2), shifts=(3, 5), budget=EX),
    ]
    rr = lambda d: (repr(d.retraining_recs),)
    Y = [
        dict(name="DDM", aux=("_error_rate", "_error_std", "_error_rate_min"), make=lambda: DDM(n_threshold=3, warning_scale=1, drift_scale=1.5), extra=rr),
        dict(name="EDDM", aux=("_dist_mean", "_dist_std", "_test_statistic", "_n_errors"), make=lambda: EDDM(n_threshold=3, warning_thresh=0.99, drift_thresh=0.95), extra=rr),
        dict(name="STEPD", aux=("_test_statistic", "_s", "_r", "_window"), make=lambda: STEPD(window_size=3, alpha_warning=0.3, alpha_drift=0.2), extra=rr),
        dict(name="LinearFourRates", aux=("_confusion",), make=lambda: LinearFourRates(burn_in=3, num_mc=20, time_decay_factor=0.5, warning_level=0.45, detect_level=0.4), extra=rr),
        dict(name="ADWINAccuracy", aux=("mean", "variance"), make=lambda: ADWINAccuracy(delta=1.0, **aw), extra=rr),
    ]
    for y in Y:
        y.update(mode="stream", kind="acc" if y["name"] == "ADWINAccuracy" else "labels", L=16,
                 budget=((1, 2, 1), (2, 8, 3)) if y["name"] == "LinearFourRates" else ((1, 6, 3), (2, 12, 6)))
    return S, Y


def valid_conts(spec):
    if spec["mode"] == "stream":
        return (["sc"] if spec["w"] == 1 else []) + ["li", "ne", "a1", "a2", "se", "df"]
    return (["li", "a1", "se"] if spec["w"] == 1 else []) + ["ne", "a2", "df"]


def assignments(conts, L, npairs, rng):
    """container per call: homogeneous runs, and for `npairs` ordered pairs (a, b) of container kinds an alternating
    run a,b,a,b… and a late switch a,…,a,b,…,b (the frame / the array arrives late); array->frame and frame->array always included"""
    out = [[c] * L for c in conts]
    pairs = [(a, b) for a in conts for b in conts if a != b]
    must = [p for p in pairs if p in (("a2", "df"), ("df", "a2"))]
    rest = [p for p in pairs if p not in must]
    ix = rng.permutation(len(rest))[:max(0, npairs - len(must))]
    for a, b in must + [rest[i] for i in sorted(ix)]:
        out.append([a if i % 2 == 0 else b for i in range(L)])
        out.append([a if i < max(1, L // 3) else b for i in range(L)])
    return out


def bad_inputs(spec, rng):
    """malformed calls: (kind, Inp, method).  Whether one is malformed at a given position is decided by the Rule."""
    mode, w = spec["mode"], spec["w"]
    v = lambda r, c: np.round(rng.normal(size=(r, c)) * 8) / 8
    out = []
    if mode == "stream":
        for cont in D2:
            out.append(("rows", from_matrix(mode, cont, v(2, w))))
        out.append(("rows", from_matrix(mode, "a2", v(0, w))))
        out.append(("rows", from_matrix(mode, "df", v(3, w))))
        for cont in ("li", "a1", "se", "ne", "a2", "df"):
            out.append(("width", from_matrix(mode, cont, v(1, w + 1))))
        if w > 1:
            out.append(("width", from_matrix(mode, "a2", v(1, w - 1))))
            out.append(("width", from_matrix(mode, "df", v(1, w - 1))))
            out.append(("names", from_matrix(mode, "df", v(1, w), NAMES[1:w] + NAMES[:1])))    # permuted
        out.append(("names", from_matrix(mode, "df", v(1, w), NAMES[:w - 1] + ["z"])))
        out.append(("names", from_matrix(mode, "df", v(1, w), [str(i) for i in range(w)])))     # pandas' default labels 0..w-1
        out.append(("names", from_matrix(mode, "df", v(1, w), NAMES[:w])))
        out.append(("names", from_matrix(mode, "df", v(1, w), [str(i + 1) for i in range(w)])))  # labels 1..w
        if spec["kind"] == "uni":
            for cont in ("li", "a2", "df"):
                out.append(("univariate", from_matrix(mode, cont, v(1, 3))))
    else:
        for cont in D2:
            out.append(("rows", from_matrix(mode, cont, v(1, w))))
        out.append(("rows", from_matrix(mode, "a2", v(0, w))))
        if w == 1:
            out.append(("rows", Inp("sc", [1.5])))
            out.append(("rows", Inp("li", [1.5])))
            out.append(("rows", Inp("se", [1.5])))
        for cont in D2:
            out.append(("width", from_matrix(mode, cont, v(spec["rows"], w + 1))))
        out.append(("width", from_matrix(mode, "df", v(2, w + 2))))
        if w > 1:
            out.append(("width", from_matrix(mode, "a2", v(spec["rows"], w - 1))))
            out.append(("width", from_matrix(mode, "df", v(spec["rows"], w - 1))))
            out.append(("width", from_matrix(mode, "a1", v(spec["rows"], 1))))
            out.append(("names", from_matrix(mode, "df", v(spec["rows"], w), NAMES[1:w] + NAMES[:1])))
        out.append(("names", from_matrix(mode, "df", v(spec["rows"], w), NAMES[:w - 1] + ["z"])))
        out.append(("names", from_matrix(mode, "df", v(spec["rows"], w), [str(i) for i in range(w)])))
        out.append(("names", from_matrix(mode, "df", v(spec["rows"], w), NAMES[:w])))
        out.append(("names", from_matrix(mode, "df", v(spec["rows"], w), [str(i + 1) for i in range(w)])))
        if spec["kind"] in ("cdbd", "cdbd1"):
            for cont in D2:
                out.append(("univariate", from_matrix(mode, cont, v(spec["rows"], 3))))
    res = []
    for kind, x in out:
        if mode == "batch":
            res.append((kind, x, "update"))
            res.append((kind, x, "set_reference"))
        else:
            res.append((kind, x, "update"))
    return res


def digest(v):
    """short, exact fingerprint of an attribute value (main run and twin are compared for equality only)"""
    try:
        import pandas as pd
        if v is None or isinstance(v, (str, bool)):
            return repr(v)
        if isinstance(v, (int, float, np.number)):
            return repr(float(v))
        if isinstance(v, (list, tuple)):
            return "%d:%s" % (len(v), digest(v[-1]) if len(v) else "")
        if isinstance(v, dict):
            return "{" + ",".join("%s=%s" % (k, digest(x)) for k, x in sorted(v.items(), key=lambda kv: repr(kv[0]))) + "}"
        if isinstance(v, (pd.DataFrame, pd.Series)):
            v = v.values
        if isinstance(v, np.ndarray):
            if v.dtype == object:            # numbers kept in an object array: fingerprint the values, not the pointers
                try:
                    v = v.astype(float)
                except Exception:
                    return "%s#obj:%s" % (v.shape, repr(v.tolist())[:200])
            return "%s#%08x" % (v.shape, zlib.crc32(np.ascontiguousarray(v).tobytes()))
        return type(v).__name__
    except Exception as ex:
        return "DIGEST-EXC:" + type(ex).__name__


def attr_path(det, path):
    for part in path.split("."):
        det = getattr(det, part, None)
        if callable(det):
            det = det()
    return det


def observe(det, spec):
    try:
        tot = det.total_samples if spec["mode"] == "stream" else det.total_batches
        since = det.samples_since_reset if spec["mode"] == "stream" else det.batches_since_reset
        o = [int(tot), int(since), core.dstr(det.drift_state)]
    except Exception as ex:
        return ["OBS-EXC:" + type(ex).__name__]
    if spec.get("extra"):
        try:
            o += list(spec["extra"](det))
        except Exception as ex:
            o.append("EXTRA-EXC:" + type(ex).__name__)
    # auxiliary attributes (some private): absent ones read as None on both sides, so a renaming cannot raise an alarm
    for path in spec.get("aux", ()):
        try:
            o.append(path + "=" + digest(attr_path(det, path)))
        except Exception as ex:
            o.append(path + "=AUX-EXC:" + type(ex).__name__)
    return o


def do_call(det, method, args, seed):
    np.random.seed(seed)
    try:
        getattr(det, method)(*args)
        return None
    except Exception as ex:
        return ex


def run_history(spec, calls, case_seed, bad=None, pos=None):
    """calls: [(method, [Inp…])]; bad: (method, [Inp…]) injected before valid call `pos`.
    Returns per valid call (exc_class, observables, state) and, for the bad call, the same plus the observables before it."""
    det = spec["make"]()
    trace, badrec = [], None
    L = len(calls)
    for i in range(L + 1):
        if bad is not None and i == pos:
            before, st_before = observe(det, spec), state_str(det)
            e = do_call(det, bad[0], [a.build() for a in bad[1]], seed_of(case_seed, min(i, L - 1)))
            badrec = (exc_class(e), before, observe(det, spec), state_str(det), None if e is None else str(e)[:100], st_before)
        if i == L:
            break
        m, args = calls[i]
        e = do_call(det, m, [a.build() for a in args], seed_of(case_seed, i))
        trace.append((exc_class(e), observe(det, spec), state_str(det)))
    return trace, badrec


def model_lines(spec, seq):
    """seq: [(method, args [Inp…])] -> driver lines"""
    lines = ["new validate " + spec["kind"]]
    for method, args in seq:
        if spec["kind"] in LAB:
            lines.append("L %s ; %s" % (args[0].spec(False), args[1].spec(False)))
        else:
            lines.append(("R " if method == "set_reference" else "X ") + args[0].spec(False))
    return lines


def case_desc(spec, calls, bad, pos, case_seed):
    return {"detector": spec["name"], "case_seed": case_seed,
            "history": [{"method": m, "args": [a.desc() for a in args]} for m, args in calls],
            "bad_call": None if bad is None else {"method": bad[0], "args": [a.desc() for a in bad[1]]},
            "position": pos}


def check_injection(ctx, drv, spec, calls, twin, bad_kind, bad, pos, case_seed, rule_before):
    """one malformed call `bad` injected before valid call `pos` of the valid history `calls`"""
    name = spec["name"]
    main, rec = run_history(spec, calls, case_seed, bad, pos)
    ec, before, after, st_after, msg, st_before = rec
    desc = case_desc(spec, calls, bad, pos, case_seed)
    seq = list(calls[:pos]) + [bad] + list(calls[pos:])
    impl_dec = [("dec ok | " + t[2]) if t[0] == "none" else ("dec rej | " + t[2]) for t in main]
    impl_dec.insert(pos, ("dec ok | " if ec == "none" else "dec rej | ") + st_after)
    if (spec["kind"] not in LAB and rule_before.is_known_gap(bad[1][0], rule_before.expect(bad[1][0])[1])
            and (ec != "ValueError" or st_after != st_before)):
        # validation let the frame through: the call was accepted, or counted / recorded and then numpy raised from inside the detector
        report(ctx, signature=KNOWN_GAP, what=name + " did not reject a DataFrame whose width differs from the dimension established by "
                 "earlier array/list input (outcome: %s)" % ec, **desc)
        ctx.count("B:known-gap:" + name)
        # (the frame got past validation; HDDDM/CDBD(detect_batch=1) may still refuse it afterwards -- a 2-row reference cannot be
        # split, known finding of C07 -- with the width / names already recorded: the model says the same)
        # is raised by a later layer than validation, which the validation model does not see (`update`), or is the model's own
        # row rule (`set_reference` of a 2-row frame): only the recorded width / names are compared for this call
        drv.add(model_lines(spec, seq[:pos + 1]), [None] + impl_dec[:pos] + ["dec* x | " + st_after])
        return
    if ec == "none":
        report(ctx, signature={"class": "malformed-accepted", "detector": name, "kind": bad_kind},
                 what="a malformed call (%s) was accepted" % bad_kind, **desc)
        return
    drv.add(model_lines(spec, seq), [None] + impl_dec)
    if ec != "ValueError":
        report(ctx, signature={"class": "wrong-exception", "detector": name, "kind": bad_kind},
                 what="malformed call (%s) raised %s (%s) instead of ValueError" % (bad_kind, ec, msg), **desc)
    pending = before[2] != "N"
    tot_ok = after[0] == before[0] or (pending and spec.get("early_count") and after[0] == before[0] + 1)
    rest_ok = after[1:] == before[1:] or (pending and after[2] == "N")
    if pending:
        ctx.count("B:rejected-while-reset-pending")
    if not tot_ok or not rest_ok:
        report(ctx, signature={"class": "rejected-call-left-traces", "detector": name, "kind": bad_kind},
                 what="counters / drift_state right after the rejected call differ from before it", before=before, after=after, **desc)
        return
    for i in range(pos, len(calls)):
        if main[i][:2] != twin[i][:2]:
            report(ctx, signature={"class": "rejected-call-harms-later-updates", "detector": name, "kind": bad_kind},
                     what="trace after the rejected call differs from the twin that never saw it", first_differing_call=i,
                     with_rejected_call=main[i][:2], twin=twin[i][:2], **desc)
            return


def check_probe(ctx, spec, calls, twin, probe_kind, probe, pos, case_seed):
    """A call whose acceptance the property leaves open (an observation holding NaN / inf, a single-column observation as the very
    first input of a multivariate detector) is injected before valid call `pos`.  If the detector accepts it nothing is claimed
    (the history is a different one).  If it REJECTS it -- whatever the reason -- the second sentence of the property applies: the
    rejected call is not counted and every later accepted update reports what the twin that never saw it reports."""
    name = spec["name"]
    main, rec = run_history(spec, calls, case_seed, probe, pos)
    ec, before, after, st_after, msg, st_before = rec
    if ec == "none":
        ctx.count("B:probe-accepted:" + probe_kind)
        return
    ctx.count("B:probe-rejected:" + probe_kind)
    ctx.case((name, "probe", probe_kind, pos, case_seed), True)
    name = name.split("(")[0].split("[")[0]                      # the class, whatever the configuration
    probe_kind = "nonfinite" if probe_kind in ("nan", "inf") else probe_kind
    desc = case_desc(spec, calls, probe, pos, case_seed)
    pending = before[2] != "N"
    tot_ok = after[0] == before[0] or (pending and spec.get("early_count") and after[0] == before[0] + 1)
    rest_ok = after[1:] == before[1:] or (pending and after[2] == "N")
    if not tot_ok or not rest_ok:
        report(ctx, signature={"class": "rejected-call-left-traces", "detector": name, "kind": probe_kind},
               what="a call the detector rejected (%s: %s) was counted / changed drift_state" % (ec, probe_kind), before=before, after=after, **desc)
        return
    for i in range(pos, len(calls)):
        if main[i][:2] != twin[i][:2]:
            report(ctx, signature={"class": "rejected-call-harms-later-updates", "detector": name, "kind": probe_kind},
                   what="trace after a call the detector rejected (%s: %s) differs from the twin that never saw it" % (ec, probe_kind),
                   first_differing_call=i, with_rejected_call=main[i][:2], twin=twin[i][:2], **desc)
            return


def probe_inputs(spec, rng):
    mode, w = spec["mode"], spec["w"]
    rows = 1 if mode == "stream" else spec["rows"]
    v = lambda r, c: np.round(rng.normal(size=(r, c)) * 8) / 8
    out = []
    for tag, val in (("nan", float("nan")), ("inf", float("inf"))):
        M = v(rows, w); M[0, 0] = val
        for cont in (("a2", "df") + (("sc",) if (mode == "stream" and w == 1) else ())):
            x = Inp(cont, M.ravel(), rows, w, NAMES[:w] if cont == "df" else None) if cont != "sc" else Inp("sc", [val])
            out.append((tag, ("update", [x])))
    if w > 1:
        out.append(("one-column-first", ("update" if mode == "stream" else "set_reference", [from_matrix(mode, "a2", v(rows, 1))])))
    return out


def part_b(ctx, drv, only=None):
    S, Y = detectors(ctx)
    rng = np.random.default_rng(ctx.seed)
    drifts = {}
    for spec in S + Y:
        name, mode, L = spec["name"], spec["mode"], spec["L"]
        _OBJ[0] = spec["name"].split("(")[0].split("[")[0] in OBJECT_OK
        nhist, npairs, per_kind = spec["budget"][0 if ctx.quick else 1]
        for h in range(nhist):
            # candidate histories are drawn until the canonical run has a drift (pending-reset positions are what matters)
            for attempt in range(12):
                case_seed = int(rng.integers(1 << 30))
                hrng = np.random.default_rng(case_seed)
                if spec["kind"] in LAB:
                    conts = ["sc", "li", "a1", "a2", "se", "df"]
                    pat = [(1, 1)] * 6 + [(1, 0)] * 6 + [(1, 1)] * 4 if h % 2 == 0 else \
                          [(int(a), int(a) if k in (0, 1, 2, 3, 4, 5, 12, 13) else 1 - int(a)) for k, a in enumerate(hrng.integers(2, size=L))]
                    mats = [(np.array([[float(a)]]), np.array([[float(b)]])) for a, b in pat[:L]]
                    probe = [("update", [from_matrix("stream", "a1", m[0], None, True), from_matrix("stream", "a1", m[1], None, True)]) for m in mats]
                else:
                    conts = valid_conts(spec)
                    mats = piecewise(hrng, L, spec["w"], spec["shifts"], rows=spec.get("rows", 1))
                    probe = [("set_reference" if (mode == "batch" and i == 0) else "update", [from_matrix(mode, "a2", mats[i])]) for i in range(L)]
                asg = assignments(conts, L, npairs, hrng)
                tw, _ = run_history(spec, probe, case_seed)
                if any(t[1][2:3] == ["D"] for t in tw[:-1]):
                    break
                ctx.count("B:history-redrawn(no drift)")
            bads = bad_inputs(spec, hrng) if spec["kind"] not in LAB else label_bads()
            canon = None
            for ai, A in enumerate(asg):
                if spec["kind"] in LAB:
                    calls = [("update", [from_matrix("stream", A[i], mats[i][0], ["y"], True), from_matrix("stream", A[(i + 1) % L], mats[i][1], ["y"], True)])
                             for i in range(L)]
                else:
                    # every other history labels its frames with pandas' default labels 0..w-1 instead of names
                    dfn = [str(j) for j in range(spec["w"])] if h % 2 == 1 else None
                    calls = [("set_reference" if (mode == "batch" and i == 0) else "update", [from_matrix(mode, A[i], mats[i], dfn)]) for i in range(L)]
                twin, _ = run_history(spec, calls, case_seed)
                ctx.traces += 1
                nd = sum(1 for t in twin if t[1][2:3] == ["D"])
                drifts[name] = drifts.get(name, 0) + nd
                ctx.count("B:%s:histories" % name)
                desc = case_desc(spec, calls, None, None, case_seed)
                # every valid call must be accepted; all container assignments give the same trace
                firstbad = next((i for i, t in enumerate(twin) if t[0] != "none"), None)
                if firstbad is not None:
                    report(ctx, signature={"class": "valid-rejected", "detector": name},
                             what="a valid call raised " + twin[firstbad][0], call_index=firstbad, **desc)
                    continue
                if canon is None:
                    canon = (twin, A)
                    ctx.sample({"detector": name, "containers": A, "trace": [t[1][:3] for t in twin]}, limit=6)
                elif [t[:2] for t in twin] != [t[:2] for t in canon[0]]:
                    i = next(i for i in range(L) if twin[i][:2] != canon[0][i][:2])
                    report(ctx, signature={"class": "container-dependent-output", "detector": name},
                             what="the same values in other containers give a different trace", first_differing_call=i,
                             containers=A, reference_containers=canon[1], trace=twin[i][:2], reference_trace=canon[0][i][:2], **desc)
                    continue
                drv.add(model_lines(spec, calls), [None] + ["dec ok | " + t[2] for t in twin])
                # injections: every position x every malformed call that is malformed there
                rules = []
                rule = Rule(mode, spec["kind"] in ("uni", "cdbd", "cdbd1"))
                for i in range(L + 1):
                    snap = Rule(mode, rule.uni)
                    snap.w, snap.names = rule.w, rule.names
                    rules.append(snap)
                    if i < L and spec["kind"] not in LAB:
                        rule.accept(calls[i][1][0])
                # per (assignment, position): `per_kind` variants of every kind of malformed call, rotating over the variants
                for pos in range(L + 1):
                    groups = {}
                    for bi, b in enumerate(bads):
                        if spec["kind"] in LAB:
                            is_bad = True
                        else:
                            is_bad, why = rules[pos].expect(b[1])
                        if is_bad:
                            groups.setdefault(b[0], []).append(bi)
                        else:
                            ctx.count("B:not-malformed-at-this-position")
                    for kind, members in groups.items():
                        k0 = (ai * 7 + pos * 3 + h) % len(members)
                        for bi in [members[(k0 + j) % len(members)] for j in range(min(per_kind, len(members)))]:
                            b = bads[bi]
                            x, method = b[1], b[2]
                            if spec["kind"] in LAB:
                                good = calls[min(pos, L - 1)][1]
                                args = [x, good[1]] if b[3] == 0 else [good[0], x]
                            else:
                                args = [x]
                            ctx.count("B:%s:%s" % (name, kind))
                            ctx.count("B:injected-at:%s" % ("start" if pos == 0 else "end" if pos == L else "middle"))
                            ctx.case((name, h, ai, pos, bi), True)
                            check_injection(ctx, drv, spec, calls, twin, kind, (method, args), pos, case_seed, rules[pos])
                # probes: calls whose acceptance the property leaves open; when the detector rejects one, "no harm" applies
                if ai == 0 and spec["kind"] not in LAB:
                    for pk, probe in probe_inputs(spec, hrng):
                        for pos in ((0,) if pk == "one-column-first" else (0, L // 2, L)):
                            check_probe(ctx, spec, calls, twin, pk, probe, pos, case_seed)
    ctx.extra["drifts_in_valid_histories"] = drifts
    nodrift = [n for n, d in drifts.items() if d == 0]
    if nodrift:
        raise core.Infra("no drift in any valid history of " + ", ".join(nodrift) + " (pending-reset positions not exercised)")
    md3_part(ctx)


def label_bads():
    out = []
    for which in (0, 1):
        for x in (Inp("li", [1, 0], ints=True), Inp("li", [], ints=True), Inp("a1", [1, 0], ints=True), Inp("se", [1, 0, 1], ints=True),
                  Inp("ne", [1, 0], 2, 1, ints=True), Inp("a2", [1, 0], 2, 1, ints=True), Inp("a2", [1, 0], 1, 2, ints=True),
                  Inp("df", [1, 0], 2, None, ["y"], ints=True), Inp("df", [1, 0], 1, None, ["y", "z"], ints=True)):
            out.append(("y-several", x, "update", which))
    return out


def md3_part(ctx):
    """MD3 has its own validation (one-record DataFrames): rejected multi-record updates leave no trace"""
    import pandas as pd
    from sklearn.svm import SVC
    from menelaus.concept_drift import MD3
    rng = np.random.default_rng(ctx.seed + 5)
    n = 40
    X = rng.normal(size=(n, 2))
    yv = (X[:, 0] + 0.3 * rng.normal(size=n) > 0).astype(int)
    df = pd.DataFrame({"a": X[:, 0], "b": X[:, 1], "y": yv})
    stream = pd.DataFrame({"a": rng.normal(size=12) + 0.2, "b": rng.normal(size=12)})

    def mk():
        clf = SVC(kernel="linear").fit(df[["a", "b"]].values, df["y"].values)
        d = MD3(clf=clf, k=4, sensitivity=1.5)
        np.random.seed(1)
        d.set_reference(df.copy(), target_name="y")
        return d

    def tr(pos, bad):
        d, out, rec = mk(), [], None
        for i in range(len(stream) + 1):
            if bad is not None and i == pos:
                b0 = (d.total_updates, d.updates_since_reset, d.drift_state)
                try:
                    d.update(bad.copy()); e = None
                except Exception as ex:
                    e = ex
                rec = (exc_class(e), b0, (d.total_updates, d.updates_since_reset, d.drift_state))
            if i == len(stream) or d.waiting_for_oracle:
                break
            try:
                d.update(stream.iloc[[i]].copy()); e = None
            except Exception as ex:
                e = ex
            out.append((exc_class(e), d.total_updates, d.updates_since_reset, d.drift_state, repr(d.curr_margin_density)))
        return out, rec
    with warnings.catch_warnings():
        warnings.simplefilter("ignore")
        twin, _ = tr(None, None)
        for pos in range(len(twin) + 1):
            for bad in (stream.iloc[[0, 1]], stream.iloc[[]], stream.iloc[[1, 2, 3]]):
                main, rec = tr(pos, bad)
                ctx.case(("MD3", pos, len(bad)), True)
                ctx.count("B:MD3:rows")
                desc = {"detector": "MD3", "position": pos, "bad_rows": len(bad)}
                if rec is None:
                    continue
                if rec[0] != "ValueError":
                    report(ctx, signature={"class": "wrong-exception" if rec[0] != "none" else "malformed-accepted", "detector": "MD3", "kind": "rows"},
                             what="multi-record update: " + rec[0], **desc)
                elif rec[1] != rec[2] and not (rec[1][2] == "drift" and rec[1][0] == rec[2][0]):
                    report(ctx, signature={"class": "rejected-call-left-traces", "detector": "MD3", "kind": "rows"},
                             what="counters changed by a rejected update", before=rec[1], after=rec[2], **desc)
                elif main[pos:] != twin[pos:len(main)] or len(main) != len(twin):
                    report(ctx, signature={"class": "rejected-call-harms-later-updates", "detector": "MD3", "kind": "rows"},
                             what="trace after the rejected call differs from the twin", main=main[pos:pos + 2], twin=twin[pos:pos + 2], **desc)


# ------------------------------------------------------------------ entry points
def run(ctx):
    ctx.rule = ("Part A: every sequence of length 3 (thorough: and 4 over a reduced menu) over the X-input menu (7 container kinds x shapes x "
                "names) on both base classes, every y input, X+y combinations; Part B: per detector, valid histories with drifts x container "
                "assignments (homogeneous + ordered pairs, alternating and late-switch) x every injection position x every malformed variant "
                "that the property's rule calls malformed at that position; every case is non-trivial (it contains at least one call); "
                "distinct = distinct (component, sequence) / (detector, history, assignment, position, variant)")
    drv = Drv()
    _reported.clear()
    with warnings.catch_warnings():
        warnings.simplefilter("ignore")
        old = np.seterr(all="ignore")
        try:
            part_a(ctx, drv)
            ctx.extra["partA_wall_s"] = round(ctx.elapsed(), 1)
            part_b(ctx, drv)
        finally:
            np.seterr(**old)
    drv.run(ctx)
    if not any(k.startswith("A:known-gap") for k in ctx.stats):
        ctx.extra["note"] = "the known batch DataFrame-after-array gap was not reproduced"


def search(ctx, mismatches):
    # every case was also judged by the property's own rule and by the twin relation on the implementation;
    # a mismatch without a failing input concerns the model only
    return []


def replay(ctx, path):
    r = json.load(open(path))
    print(json.dumps({k: r[k] for k in r if k not in ("history",)}, indent=1)[:3000])
    if "detector" in r and r.get("history") and r["detector"] != "MD3":
        ctx.tier = "quick"
        S, Y = detectors(ctx)
        spec = next(s for s in S + Y if s["name"] == r["detector"])
        calls = [(c["method"], [Inp.of(a) for a in c["args"]]) for c in r["history"]]
        bad = r.get("bad_call")
        bad = None if bad is None else (bad["method"], [Inp.of(a) for a in bad["args"]])
        with warnings.catch_warnings():
            warnings.simplefilter("ignore")
            twin, _ = run_history(spec, calls, r["case_seed"])
            main, rec = run_history(spec, calls, r["case_seed"], bad, r.get("position"))
        print("rejected call:", rec)
        differs = False
        for i, (a, b) in enumerate(zip(main, twin)):
            d = a[:2] != b[:2] and (r.get("position") is None or i >= r["position"])
            differs = differs or d
            print(i, "with-bad-call", a[:2], "twin", b[:2], "   <-- differs" if d else "")
        cls = (r.get("signature") or {}).get("class")
        if rec is not None:
            ec, before, after = rec[0], rec[1], rec[2]
            pending = before[2] != "N"
            moved = not ((after[0] == before[0] or (pending and spec.get("early_count") and after[0] == before[0] + 1))
                         and (after[1:] == before[1:] or (pending and after[2] == "N")))
            if cls == "malformed-accepted":
                again = ec == "none"
            elif cls == "wrong-exception":
                again = ec not in ("none", "ValueError")
            elif ec == "none":
                again = False          # the call was accepted: nothing is claimed about it (probe calls), or the finding is gone
            else:
                again = moved or differs
            print("replay: the failing input %s" % ("still fails" if again else "no longer fails"))
            return 1 if again else 0
        print("replay: traces %s" % ("differ" if differs else "agree"))
        return 1 if differs else 0
    elif "base" in r:
        det = stubs()[r["base"]]()
        for d in r.get("history", []) + [r["call"]]:
            try:
                det.update(Inp.of(d).build()); out = "accepted"
            except Exception as ex:
                out = type(ex).__name__ + ": " + str(ex)
            print(d["container"], d["rows"], d["cols"], d["names"], "->", out, "| state", state_str(det))
    return 0
