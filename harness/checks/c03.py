"""
C03 — ADWIN keeps exact statistics of its adaptive window and cuts it by its rule; ADWINAccuracy.

Three layers, all on the real classes through public API only:

 1. correspondence: every update of menelaus ADWIN / ADWINAccuracy is compared with the Lean model
    (Model/Adwin.lean, run by mdriver at Float, same operation order) on drift_state, retraining_recs,
    total_samples (exact) and mean(), variance() (numeric).  Props/C03.lean proves that the model's cut
    decisions are the declarative rule of the property, so a differing decision that is not a thin-margin
    tie is reported as a failing input of the cut rule.
 2. exactness against the raw stream, independent of the model: the window width W is reconstructed from
    public data only (W grows by one per update; at a drift W = recs[1]-recs[0]+1) and mean()/variance()
    are compared with numpy's mean / population variance of the last W raw inputs; W bookkeeping, recs
    and the schedule guard are checked declaratively.
 3. ADWINAccuracy(params) against ADWIN(params) fed with the indicators 1{y_true == y_pred}, for several
    label encodings (twin run on the real classes).
"""
import itertools, json, math, warnings
import numpy as np
import core

TRUST = [
    "numpy mean / var (population) of the last W raw inputs as the oracle of the exactness clause",
    "np.log (ADWIN) vs libm log (Lean Float model) may differ in the last ulp: a differing cut decision whose "
    "relative margin |abs(diff)-eps_cut| is below 1e-9 truncates the case (thin_margin_truncations), it is never reported",
    "configurations outside the property's domain are not exercised: max_buckets = 0, new_sample_thresh = 0, "
    "subwindow_size_thresh = 0, delta = 0, non-integer thresholds, NaN/inf data",
    "streams are dyadic (multiples of 1/8, |x| <= 24) so that window sums are exact in binary64",
]

DELTAS = [0.002, 0.1, 0.5, 0.9, 1.0, 0.0]      # 0 is legal (0 <= delta <= 1): infinite or NaN bounds, never exceeded
MAXB = [1, 2, 3, 5]
NST = [1, 2, 3, 32]
WTH = [0, 1, 2, 3, 4, 5, 6]
STH = [1, 2, 3, 4, 5, 6]


def cfg_tuple(cfg):
    return (cfg["delta"], cfg["max_buckets"], cfg["new_sample_thresh"], cfg["window_size_thresh"],
            cfg["subwindow_size_thresh"], cfg["conservative_bound"])


def new_line(kind, cfg):
    d, m, n, w, k, cb = cfg_tuple(cfg)
    return f"new {kind} {core.f2b(d)} {m} {n} {w} {k} {1 if cb else 0}"


# ------------------------------------------------------------------ implementation side
def obs(det):
    """public observables after an update"""
    r = det.retraining_recs
    return {"drift": core.dstr(det.drift_state), "recs": core.recs_str(r), "total": int(det.total_samples),
            "mean": float(det.mean()), "var": float(det.variance())}


def impl_trace(make, feed, items):
    """run the real class; an exception becomes the observable of that step and ends the trace"""
    out = []
    with warnings.catch_warnings():
        warnings.simplefilter("ignore")
        try:
            det = make()
        except Exception as ex:
            return [{"exc": "EXC:" + type(ex).__name__}]
        for it in items:
            try:
                feed(det, it)
                out.append(obs(det))
            except Exception as ex:
                out.append({"exc": "EXC:" + type(ex).__name__})
                break
    return out


_FORM = [0]


def as_value(x, form):
    """the observation as a caller may hand it over: Python float, numpy float32 (exact for the small dyadic values), Python int /
    numpy integer / bool when the value is integral, a 1-element list / array / 1x1 array — equal values, equal statistics"""
    if form == 1 and abs(x) < 2 ** 16:
        return np.float32(x)       # exact for the small dyadic values (before repo fix 4ec4f35 ADWIN then computed in single precision)
    if form == 2 and x == int(x) and abs(x) < 2 ** 53:
        return int(x)
    if form == 3 and x == int(x) and abs(x) < 2 ** 31:
        return np.int32(int(x))
    if form == 4 and x in (0.0, 1.0):
        return bool(x)
    if form == 5:
        return [x]
    if form == 6:
        return np.array([[x]], dtype=np.float64)
    return x


def adwin_trace(mod, cfg, xs):
    _FORM[0] += 1
    form = _FORM[0] % 11        # 0, 7..10: plain Python floats
    return impl_trace(lambda: mod.ADWIN(**cfg), lambda d, x: d.update(as_value(x, form)), xs)


# ------------------------------------------------------------------ property clauses on an implementation trace
def tol(scale):
    return 1e-9 * max(1.0, scale * scale)


EPS = 2.0 ** -52


def tols(xs):
    """
    (tolerance for mean(), tolerance for variance()) for a stream: 1e-9 relative to the *spread* of the data, plus the
    first-order rounding bound of any algorithm that works with deviations from a running mean (the mean carries an error of
    ~ scale*eps, a squared deviation therefore ~ 2*spread*scale*eps).  For the ordinary dyadic streams (|x| <= 24) this is the
    former 1e-9*scale^2; for the offset streams (level ~ 2^27, spread of a few units) it stays near 1e-5, so that a variance
    computed through raw sums of squares (error ~ scale^2*eps, i.e. of the order of the variance itself) is not excused.
    """
    scale = max([abs(x) for x in xs] + [1.0])
    med = float(np.median(np.asarray(xs, dtype=float))) if len(xs) else 0.0
    spread = max([abs(x - med) for x in xs] + [1.0])
    t_mean = max(1e-9 * max(1.0, spread), 64 * EPS * scale)
    t_var = max(1e-9 * max(1.0, spread * spread), 1024 * EPS * scale * (spread + 1.0))
    return t_mean, t_var


def check_trace(cfg, xs, tr):
    """the model-independent clauses; returns None or (class, step, detail)"""
    W = 0
    t_mean, t_var = tols(xs)
    for i, o in enumerate(tr):
        if "exc" in o:
            return ("adwin-update-raises", i, {"exception": o["exc"]})
        W += 1
        total = i + 1
        if o["total"] != total:
            return ("adwin-total-samples", i, {"impl_total": o["total"], "expected": total})
        if o["drift"] == "D":
            a, _, b = o["recs"].partition(",")
            if a == "_" or b == "_":
                return ("adwin-recs", i, {"recs": o["recs"], "why": "drift without retraining_recs"})
            a, b = int(a), int(b)
            Wn = b - a + 1
            if b != total - 1 or not (1 <= Wn <= W - 1):
                return ("adwin-recs", i, {"recs": o["recs"], "width_before": W, "total": total,
                                          "why": "recs must be [total-W', total-1] with 1 <= W' < W+1 (at least one bucket dropped)"})
            if not (total % cfg["new_sample_thresh"] == 0 and W > cfg["window_size_thresh"]):
                return ("adwin-schedule", i, {"width": W, "total": total, "why": "drift reported although the schedule guard is false"})
            if Wn < cfg["subwindow_size_thresh"]:
                return ("adwin-recs", i, {"recs": o["recs"], "why": "retained window smaller than the admissible newer part"})
            W = Wn
        elif o["drift"] == "N":
            if o["recs"] != "_,_":
                return ("adwin-recs", i, {"recs": o["recs"], "why": "retraining_recs not cleared on an update without drift"})
        else:
            return ("adwin-drift-state", i, {"drift": o["drift"]})
        win = np.asarray(xs[total - W: total], dtype=float)
        m, v = float(np.mean(win)), float(np.var(win))
        if not core.close(o["mean"], m, rel=1e-12, abs_=t_mean):
            return ("adwin-mean-exactness", i, {"impl_mean": o["mean"], "window_mean": m, "W": W})
        if not core.close(o["var"], v, abs_=t_var):
            return ("adwin-variance-exactness", i, {"impl_variance": o["var"], "window_variance": v, "W": W})
    return None


# ------------------------------------------------------------------ comparison with the model
def parse_model(line):
    t = line.split()
    if len(t) != 8:
        raise core.Infra("unexpected driver output: " + line)
    return {"drift": t[0], "recs": t[1], "total": int(t[2]), "W": int(t[3]), "mean": core.b2f(t[4]),
            "var": core.b2f(t[5]), "margin": core.b2f(t[6]), "buckets": int(t[7])}


def compare(ctx, kind, cfg, items, tr, mo, scale, payload):
    """step-by-step comparison; returns statistics of the model trace"""
    drifts = multi = 0
    Wprev = 0
    for i, o in enumerate(tr):
        m = mo[i]
        if "exc" in o:
            ctx.mismatch(component=kind, config=cfg, case=payload, step=i, impl=o["exc"], model=m)
            ctx.fail(signature={"class": "adwin-update-raises"}, what="update raises on an input the model accepts",
                     detector=kind, config=cfg, step=i, impl=o["exc"], **payload)
            return drifts, multi
        disc_i = (o["drift"], o["recs"], o["total"])
        disc_m = (m["drift"], m["recs"], m["total"])
        if disc_i != disc_m:
            if m["margin"] < 1e-9:
                ctx.thin += 1
                return drifts, multi
            ctx.mismatch(component=kind, config=cfg, case=payload, step=i, impl=o, model=m)
            ctx.fail(signature={"class": "adwin-cut-rule"},
                     what="drift_state / retraining_recs / total_samples differ from the cut rule (Lean model, Props/C03 hit_iff, step_drift_iff)",
                     detector=kind, config=cfg, step=i, impl=o, model=m, **payload)
            return drifts, multi
        t_mean, t_var = scale if isinstance(scale, tuple) else (tol(scale), tol(scale))
        if not (core.close(o["mean"], m["mean"], rel=1e-12, abs_=t_mean) and core.close(o["var"], m["var"], abs_=t_var)):
            ctx.mismatch(component=kind, config=cfg, case=payload, step=i, impl=o, model=m)
            return drifts, multi
        if m["drift"] == "D":
            drifts += 1
            # a single dropped bucket has power-of-two size: any other width loss means >= 2 buckets dropped
            d = Wprev + 1 - m["W"]
            if d > 0 and (d & (d - 1)) != 0:
                multi += 1
        Wprev = m["W"]
    return drifts, multi


# ------------------------------------------------------------------ generators
def dy(rng, lo, hi):
    """dyadic value: multiple of 1/8 in [lo, hi]"""
    return float(rng.integers(int(lo * 8), int(hi * 8) + 1)) / 8.0


def gen_stream(rng, n, offset=0.0):
    """piecewise stationary dyadic stream with level shifts (optionally riding on a large exactly representable offset)"""
    if offset:
        return [offset + x for x in gen_stream(rng, n)]
    xs = []
    level = dy(rng, -4, 4)
    while len(xs) < n:
        seg = int(rng.choice([3, 8, 17, 40, 90, 200, 600]))
        amp = float(rng.choice([0.0, 0.125, 0.5, 2.0]))
        for _ in range(min(seg, n - len(xs))):
            xs.append(level + (dy(rng, -amp, amp) if amp else 0.0))
        shift = float(rng.choice([0.25, 1.0, 4.0, 16.0])) * (1 if rng.random() < 0.5 else -1)
        level = max(-8.0, min(8.0, level + shift))
    return xs


def gen_cfg(rng):
    return {"delta": float(rng.choice(DELTAS)), "max_buckets": int(rng.choice(MAXB)),
            "new_sample_thresh": int(rng.choice(NST)), "window_size_thresh": int(rng.choice(WTH)),
            "subwindow_size_thresh": int(rng.choice(STH)), "conservative_bound": bool(rng.integers(0, 2))}


ENCODINGS = {
    "int": lambda a: int(a),
    "bool": lambda a: bool(a % 2) if a < 2 else int(a),
    "np.int64": lambda a: np.int64(a),
    "float": lambda a: float(a),
    "str": lambda a: "c%d" % a,
    "list1": lambda a: [int(a)],
    "array1": lambda a: np.array([a]),
    "array11": lambda a: np.array([[a]]),
    "uint64big": lambda a: np.uint64(2**63 + int(a)),      # ids beyond 2**53: distinct integers, equal as float64
}


# ------------------------------------------------------------------ run
def run(ctx):
    # detector objects are independent of one another (a consequence of "the outputs are a function of the detector's own
    # parameters and history"): solo trace = trace when a second object of the class is updated alternately (impl/zoo.py)
    from impl import zoo as _zoo
    for _f in _zoo.isolation_failures(ctx, ['ADWIN', 'ADWINAccuracy']):
        ctx.fail(signature={"clause": "detector-objects-independent"}, **_f)
    from menelaus.change_detection import adwin as adwin_mod
    from menelaus.concept_drift import adwin_accuracy as acc_mod
    rng = np.random.default_rng(ctx.seed)
    ctx.rule = ("a case = (configuration, stream); non-trivial when the implementation reports at least one drift; "
                "distinct = distinct (configuration, stream)")
    cases = []     # (kind, cfg, items for the impl, driver op lines, raw numeric stream, payload)

    # (a) exhaustive short streams over a 3-letter dyadic alphabet, smallest thresholds (W <= 2 checks, NaN paths, max_buckets = 1)
    n_small = 7 if ctx.quick else 9
    for mb, delta, cb in itertools.product([1, 2], [0.9, 1.0], [False, True]):
        if ctx.quick and cb and delta == 0.9:
            continue
        cfg = {"delta": delta, "max_buckets": mb, "new_sample_thresh": 1, "window_size_thresh": 0,
               "subwindow_size_thresh": 1, "conservative_bound": cb}
        for xs in itertools.product([0.0, 1.0, 16.0], repeat=n_small):
            cases.append(("adwin", cfg, list(xs), {"stream": list(xs)}))
            ctx.count("exhaustive-short")
    # (b) random configurations x piecewise stationary dyadic streams
    n_rand = 640 if ctx.quick else 1000
    max_len = 400 if ctx.quick else 3000
    for k in range(n_rand):
        r = np.random.default_rng([ctx.seed, 1, k])
        cfg = gen_cfg(r)
        if k % 8 == 0:   # force the corner max_buckets = 1 with a frequent check
            cfg.update(max_buckets=1, new_sample_thresh=int(r.choice([1, 2])))
        if k % 16 == 1:
            cfg = {"delta": 0.002, "max_buckets": 5, "new_sample_thresh": 32, "window_size_thresh": 10,
                   "subwindow_size_thresh": 5, "conservative_bound": False}
        n = int(r.integers(20, max_len + 1)) if k % 5 else max_len
        if ctx.quick and k % 3:
            n = min(n, 150)
        # every 6th stream rides on a level of +-2^27 (exactly representable with the 1/8 grid): the statistics must be those of
        # the window whatever the level — a variance obtained by cancelling large raw sums of squares is then off by O(1)
        off = 0.0 if k % 6 != 4 else float(r.choice([-1.0, 1.0])) * 2.0 ** 27
        xs = gen_stream(r, n, off)
        cases.append(("adwin", cfg, xs, {"stream": xs}))
        ctx.count("random")
        ctx.count("random-offset-2^27", int(off != 0))
    # (c) ADWINAccuracy with non-default parameters, several label encodings
    n_acc = 120 if ctx.quick else 300
    acc_cases = []
    for k in range(n_acc):
        r = np.random.default_rng([ctx.seed, 2, k])
        cfg = gen_cfg(r)
        enc = list(ENCODINGS)[k % len(ENCODINGS)]
        n = int(r.integers(30, (200 if ctx.quick else 1500) + 1))
        ncls = 2 if enc == "bool" else int(r.choice([2, 3]))
        p_ok, ys = 0.9, []
        seg_left = 0
        for _ in range(n):
            if seg_left == 0:
                seg_left = int(r.choice([10, 30, 80, 200]))
                p_ok = float(r.choice([0.95, 0.7, 0.3, 0.05]))
            seg_left -= 1
            yt = int(r.integers(0, ncls))
            yp = yt if r.random() < p_ok else int((yt + 1 + r.integers(0, ncls - 1)) % ncls)
            ys.append((yt, yp))
        acc_cases.append((cfg, enc, ys))
        ctx.count("acc-" + enc)

    # ---- implementation traces + driver input
    lines, spans = [], []
    impl = []
    for kind, cfg, xs, payload in cases:
        tr = adwin_trace(adwin_mod, cfg, xs)
        impl.append(tr)
        lines.append(new_line("adwin", cfg))
        start = len(lines)
        lines.extend("u " + core.f2b(x) for x in xs)
        spans.append((start, len(lines)))
    acc_impl = []
    for cfg, enc, ys in acc_cases:
        f = ENCODINGS[enc]
        tr = impl_trace(lambda: acc_mod.ADWINAccuracy(**cfg), lambda d, y: d.update(f(y[0]), f(y[1])), ys)
        ind = [1.0 if a == b else 0.0 for a, b in ys]
        # twin on the real classes: plain ADWIN with the same parameters on the indicators
        tw = adwin_trace(adwin_mod, cfg, ind)
        acc_impl.append((tr, tw, ind))
        lines.append(new_line("adwinacc", cfg))
        start = len(lines)
        lines.extend(f"y {a} {b}" for a, b in ys)
        spans.append((start, len(lines)))
    # (d) manual reset() between updates (documented public API; `StreamingEnsemble.reset()` does it to every member): ADWIN keeps
    # its window, statistics and check schedule (the schedule runs on total_samples, which a reset does not touch); only
    # drift_state and retraining_recs are cleared -- Model/Adwin.lean `reset`.  Resets at positions not aligned with the period.
    reset_cases = []
    for k in range(80 if ctx.quick else 400):
        r = np.random.default_rng([ctx.seed, 4, k])
        cfg = gen_cfg(r)
        if k % 2 == 0:
            cfg["new_sample_thresh"] = int(r.choice([2, 3, 7, 32]))
        n = int(r.integers(60, 260))
        xs = gen_stream(r, n)
        items = list(xs)
        for _ in range(int(r.integers(1, 4))):
            items.insert(int(r.integers(1, len(items))), "R")
        tr = impl_trace(lambda: adwin_mod.ADWIN(**cfg), lambda d, it: d.reset() if isinstance(it, str) else d.update(it), items)
        lines.append(new_line("adwin", cfg))
        start = len(lines)
        lines.extend("reset" if isinstance(it, str) else "u " + core.f2b(it) for it in items)
        reset_cases.append((cfg, xs, items, tr, (start, len(lines))))
        spans.append((start, len(lines)))
    # (e) regression witnesses of repaired defects: observations of large magnitude handed over as np.int32 (the running total
    # wrapped around before repo fix 4ec4f35), float32 observations around a cut
    for wform, wxs in ((3, [-134217726.0] * 17 + [-134217720.0] * 6), (3, [2.0 ** 30 - 8.0] * 9 + [5.0] * 4), (1, [0.0] * 5 + [1.0, 16.0, 16.0])):
        cfg = {"delta": 1.0, "max_buckets": 1, "new_sample_thresh": 1, "window_size_thresh": 5, "subwindow_size_thresh": 4, "conservative_bound": False}
        tr = impl_trace(lambda: adwin_mod.ADWIN(**cfg), lambda d, it, f=wform: d.update(as_value(it, f)), wxs)
        lines.append(new_line("adwin", cfg))
        start = len(lines)
        lines.extend("u " + core.f2b(it) for it in wxs)
        reset_cases.append((cfg, wxs, list(wxs), tr, (start, len(lines))))
        spans.append((start, len(lines)))
        bad = check_trace(cfg, wxs, tr)
        if bad is not None:
            ctx.fail(signature={"class": bad[0]}, what="property clause fails on the implementation (independent of the model): observations in a narrow numeric dtype",
                     detector="adwin", config=cfg, step=bad[1], detail=bad[2], stream=wxs[: bad[1] + 1], value_form=wform)
        ctx.count("dtype-witness-cases")
    out = core.run_driver(lines)
    for (s, e) in spans:
        if out[s - 1] != "ok":
            raise core.Infra(f"driver rejected `{lines[s - 1]}`: {out[s - 1]}")

    # ---- evaluate ADWIN cases
    tot_drifts = tot_multi = with_drift = 0
    for idx, (kind, cfg, xs, payload) in enumerate(cases):
        tr = impl[idx]
        s, e = spans[idx]
        mo = [parse_model(l) for l in out[s:e]]
        scale = tols(xs)
        bad = check_trace(cfg, xs, tr)
        if bad is not None:
            cls, step, detail = bad
            ctx.fail(signature={"class": cls}, what="property clause fails on the implementation (independent of the model)",
                     detector="adwin", config=cfg, step=step, detail=detail, stream=xs[: step + 1])
        ctx.traces += 1
        d, mu = compare(ctx, "adwin", cfg, xs, tr, mo, scale, {"stream": xs})
        nd = sum(1 for o in tr if o.get("drift") == "D")
        ctx.case((cfg_tuple(cfg), tuple(xs)), nd > 0)
        tot_drifts += nd
        tot_multi += mu
        with_drift += nd > 0
        ctx.count("len<=10" if len(xs) <= 10 else "len<=150" if len(xs) <= 150 else "len<=400" if len(xs) <= 400 else "len>400")
        ctx.count(f"max_buckets={cfg['max_buckets']}")
        ctx.count("conservative" if cfg["conservative_bound"] else "normal-bound")
        ctx.count("drifts=0" if nd == 0 else "drifts=1" if nd == 1 else "drifts>=2")
        if cfg["max_buckets"] == 1 and nd > 0:
            ctx.count("max_buckets=1-with-cut")
        if len(xs) > 10:
            ctx.count("random-with-drift" if nd else "random-without-drift")
            if cfg["max_buckets"] == 1 and nd > 0:
                ctx.count("random-max_buckets=1-with-cut")
            if mu:
                ctx.count("random-several-buckets-dropped-in-one-update")
        if any(o.get("var", 0.0) < 0 for o in tr):
            ctx.count("negative-rounded-variance")
        if nd >= 2 and len(xs) > 50:
            ctx.sample({"config": cfg, "stream_head": xs[:12], "length": len(xs), "drift_steps": [i for i, o in enumerate(tr) if o.get("drift") == "D"][:8],
                        "recs_at_first": next(o["recs"] for o in tr if o.get("drift") == "D")})

    # ---- evaluate the manual-reset cases
    for cfg, xs, items, tr, (s, e) in reset_cases:
        mo = [parse_model(l) for l in out[s:e]]
        ctx.traces += 1
        nd, _ = compare(ctx, "adwin", cfg, items, tr, mo, tols(xs), {"items_with_manual_resets": items})
        ctx.case(("reset", cfg_tuple(cfg), tuple(map(str, items))), nd > 0)
        ctx.count("manual-reset-histories")
        ctx.count("manual-reset-histories-with-drift", int(nd > 0))

    # ---- evaluate ADWINAccuracy cases
    acc_drifts = 0
    for j, (cfg, enc, ys) in enumerate(acc_cases):
        tr, tw, ind = acc_impl[j]
        s, e = spans[len(cases) + j]
        mo = [parse_model(l) for l in out[s:e]]
        payload = {"encoding": enc, "labels": [list(y) for y in ys]}
        bad = check_trace(cfg, ind, tr)
        if bad is not None:
            cls, step, detail = bad
            ctx.fail(signature={"class": "acc-" + cls}, what="ADWINAccuracy: property clause fails on the implementation",
                     detector="adwinacc", config=cfg, step=step, detail=detail, encoding=enc, labels=[list(y) for y in ys[: step + 1]])
        if tr != tw:
            step = next((i for i, (a, b) in enumerate(zip(tr, tw)) if a != b), min(len(tr), len(tw)))
            ctx.fail(signature={"class": "acc-differs-from-adwin-on-indicators"},
                     what="ADWINAccuracy(params) differs from ADWIN(params) on the indicators 1{y_true == y_pred}",
                     detector="adwinacc", config=cfg, step=step, encoding=enc, labels=[list(y) for y in ys[: step + 1]],
                     accuracy=tr[step] if step < len(tr) else None, adwin=tw[step] if step < len(tw) else None)
        ctx.traces += 1
        compare(ctx, "adwinacc", cfg, ys, tr, mo, 1.0, payload)
        nd = sum(1 for o in tr if o.get("drift") == "D")
        acc_drifts += nd
        ctx.case(("acc", cfg_tuple(cfg), enc, tuple(ys)), nd > 0)
        if nd and j < 16:
            ctx.sample({"adwinacc_config": cfg, "encoding": enc, "length": len(ys), "drifts": nd}, limit=6)

    ctx.extra["drifts_total"] = tot_drifts
    ctx.extra["updates_with_several_buckets_dropped"] = tot_multi
    ctx.extra["adwinacc_drifts_total"] = acc_drifts
    ctx.extra["cases_with_drift"] = with_drift
    if not ctx.failing and not ctx.mismatches:
        g = ctx.stats.get
        if (g("random-with-drift", 0) * 4 < n_rand or g("random-several-buckets-dropped-in-one-update", 0) < 3 or acc_drifts < 5
                or g("random-max_buckets=1-with-cut", 0) < 3 or tot_drifts < 50):
            raise core.Infra(f"degenerate input distribution: random cases with drift={g('random-with-drift', 0)}/{n_rand} "
                             f"multi={g('random-several-buckets-dropped-in-one-update', 0)} acc_drifts={acc_drifts} "
                             f"random max_buckets=1 cuts={g('random-max_buckets=1-with-cut', 0)}")


def search(ctx, mismatches):
    """mismatches left without a failing input are numeric (mean/variance) differences between the model and the
    implementation while the implementation agrees with the raw stream: re-run the model-independent clauses on
    longer continuations of those streams."""
    from menelaus.change_detection import adwin as adwin_mod
    found = []
    for m in mismatches[:10]:
        case = m.get("case") or {}
        xs = case.get("stream")
        cfg = m.get("config")
        if not xs or not cfg:
            continue
        for rep in (2, 4):
            ys = list(xs) * rep
            bad = check_trace(cfg, ys, adwin_trace(adwin_mod, cfg, ys))
            if bad is not None:
                cls, step, detail = bad
                found.append({"signature": {"class": cls}, "config": cfg, "stream": ys[: step + 1], "step": step, "detail": detail})
                break
    return found


def replay(ctx, path):
    from menelaus.change_detection import adwin as adwin_mod
    from menelaus.concept_drift import adwin_accuracy as acc_mod
    r = json.load(open(path))
    cfg = r.get("config")
    if cfg is None:
        print(json.dumps(r, indent=1)[:4000]); return 0
    if r.get("detector") == "adwinacc":
        enc = r["encoding"]; f = ENCODINGS[enc]
        ys = [tuple(y) for y in r["labels"]]
        tr = impl_trace(lambda: acc_mod.ADWINAccuracy(**cfg), lambda d, y: d.update(f(y[0]), f(y[1])), ys)
        xs = [1.0 if a == b else 0.0 for a, b in ys]
        lines = [new_line("adwinacc", cfg)] + [f"y {a} {b}" for a, b in ys]
        tw = adwin_trace(adwin_mod, cfg, xs)
    else:
        xs = r["stream"]
        tr = adwin_trace(adwin_mod, cfg, xs)
        lines = [new_line("adwin", cfg)] + ["u " + core.f2b(x) for x in xs]
        tw = tr
    core.lake_build()
    mo = [parse_model(l) for l in core.run_driver(lines)[1:]]
    print("config:", cfg)
    bad = check_trace(cfg, xs, tr)
    still = bad is not None or tr != tw
    for i, o in enumerate(tr):
        m = mo[i]
        flag = ""
        if "exc" in o or (o["drift"], o["recs"], o["total"]) != (m["drift"], m["recs"], m["total"]):
            flag = "   <-- differs from the model"
            still = still or m["margin"] >= 1e-9
        if i >= len(tr) - 6 or flag:
            print(f"step {i} x={xs[i]}: impl={o}  model={ {k: m[k] for k in ('drift', 'recs', 'total', 'W', 'mean', 'var')} }{flag}")
    print("model-independent clauses:", "ok" if bad is None else bad)
    print("REPRODUCED" if still else "not reproduced")
    return 1 if still else 0
