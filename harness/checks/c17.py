"""
C17 — a stricter confidence setting never makes a detector alarm earlier; loosening only the
warning threshold never changes when drift is reported and never removes a warning.

Executed on the real classes: pairs of runs on the same history (and the same per-call numpy
seed schedule) under ordered threshold pairs; compared: index of the first drift (strict >=
loose), and for warning-only changes the complete drift trace (equal) and the warning set
(superset).  The Lean side (Props/C17.lean) proves the generic first-alarm monotonicity lemma
and instantiates it for the detector models.
"""
import numpy as np
import core
from impl import zoo

TRUST = ["critical values of scipy (norm, t) are antitone in alpha (oracle hypothesis of the STEPD / HDM-tstat / NNDVI instances)",
         "runs are aligned by re-seeding numpy's global state before every update on each side"]

# family -> (parameter, ordered menu from loose to strict)
DRIFT_PARAM = {
    "ADWIN": ("delta", [1.0, 0.9, 0.5, 0.1, 0.002, 1e-30, 0.0]),          # delta = 0 is legal (0 <= delta <= 1): the bound is infinite / NaN, never exceeded
    "ADWINAccuracy": ("delta", [1.0, 0.9, 0.5, 0.1, 0.002, 1e-30, 0.0]),
    "CUSUM": ("threshold", [0.0, 1.0, 5.0, 20.0, 50.0]),
    "PageHinkley": ("threshold", [0.0, 0.25, 1.0, 5.0, 20.0, 50.0]),
    "DDM": ("drift_scale", [1.0, 2.0, 3.0, 4.0, 6.0]),
    "EDDM": ("drift_thresh", [0.99, 0.9, 0.8, 0.5, 0.1]),
    "STEPD": ("alpha_drift", [0.5, 0.2, 0.05, 0.003, 0.0001]),
    "LinearFourRates": ("detect_level", [0.98, 0.8, 0.5, 0.2, 0.05, 0.01]),   # levels above 1/2: the bounds cross, every tested sample alarms
    "KdqTreeStreaming": ("alpha", [0.9, 0.5, 0.2, 0.05, 0.01]),
    "KdqTreeBatch": ("alpha", [0.9, 0.5, 0.2, 0.05, 0.01]),
    "NNDVI": ("alpha", [0.99, 0.9, 0.7, 0.5, 0.3, 0.1, 0.01, 0.001]),
    "HDDDM": None, "CDBD": None,   # handled per statistic below
}
WARN_PARAM = {   # (parameter, menu from strict warning to loose warning)
    "DDM": ("warning_scale", [3.0, 2.0, 1.0, 0.5, 0.0]),          # 0 is the loosest legal warning setting
    "EDDM": ("warning_thresh", [0.0, 0.8, 0.9, 0.95, 0.99, 1.0]),
    "STEPD": ("alpha_warning", [0.0, 0.01, 0.05, 0.2, 0.5, 1.0]),
    "LinearFourRates": ("warning_level", [0.01, 0.05, 0.2, 0.5, 0.8, 0.98]),
}


def trace(fam, cfg, hist, stop_after_first=False):
    det = fam.make(cfg)
    try:
        items = fam.start(det, cfg, hist) or hist
    except Exception as e:
        return None, f"start raised {type(e).__name__}: {e}", None
    states, aux = [], []
    for it in items:
        try:
            fam.feed(det, it)
        except Exception as e:
            return states, f"update {len(states)} raised {type(e).__name__}: {e}", aux
        states.append(det.drift_state)
        if fam.name == "PageHinkley":
            aux.append(float(np.ravel(det._means[-1])[0]) if getattr(det, "_means", None) else None)
        if stop_after_first and states[-1] == "drift":
            break
    return states, None, aux


def first(states, what="drift"):
    for i, s in enumerate(states):
        if s == what:
            return i
    return None


def ph_means(fam, cfg, hist, upto):
    """running means of PageHinkley from its public to_dataframe(), up to update index `upto`"""
    det = fam.make(cfg)
    m = None
    for it in hist[: upto + 1]:
        fam.feed(det, it)
    df = det.to_dataframe()
    return float(np.ravel(df["mean_values"].iloc[-1])[0]) if len(df) else None


def run(ctx):
    import warnings
    warnings.simplefilter("ignore", RuntimeWarning)     # delta = 0, empty epochs: inf / NaN bounds are legal and intended here
    per = 10 if ctx.quick else 80
    ctx.rule = ("for each detector family: histories x ordered pairs (loose, strict) of the detection threshold from menus that include the extremes and "
                "defaults, all other parameters equal, identical seed schedule; first-drift indices compared; for DDM/EDDM/STEPD/LFR also pairs of warning "
                "thresholds with full traces compared; non-trivial = the loose run reports a drift; distinct = (family, config, pair, history)")
    # corpus: the F12 witness (known finding) is replayed first
    fam = zoo.BY_NAME["PageHinkley"]
    base = dict(delta=0.01, burn_in=2, direction="positive")
    hist = [-1.0] * 12
    check_pair(ctx, fam, dict(base, threshold=0.0), dict(base, threshold=1.0), "threshold", hist, ("corpus", "F12"))
    # structured scalar histories x *all* ordered pairs of the menu for the two cheap threshold detectors: ramps and steps
    # with negative / positive / sign-changing running means, in both directions (the random zoo histories below rarely
    # keep a negative mean while the statistic keeps setting new extremes)
    srng = np.random.default_rng([ctx.seed, 171])
    shapes = []
    for start in (-1.0, 0.0, 2.0, -20.0):
        for slope in (-0.05, -0.5, -2.0, 0.05, 0.5):
            shapes.append([start + slope * t + float(srng.integers(-4, 5)) / 64.0 for t in range(80)])
    for lvl0, lvl1 in ((-3.0, -6.0), (-6.0, -3.0), (-1.0, 4.0), (2.0, -5.0)):
        shapes.append([lvl0 + float(srng.integers(-8, 9)) / 16.0 for _ in range(40)] + [lvl1 + float(srng.integers(-8, 9)) / 16.0 for _ in range(40)])
    for name in ("PageHinkley", "CUSUM"):
        fam = zoo.BY_NAME[name]
        par, menu = DRIFT_PARAM[name]
        for hi, hist in enumerate(shapes if not ctx.quick else shapes[::2]):
            cfg = fam.config(np.random.default_rng([ctx.seed, 172, hi]))
            if name == "PageHinkley":
                cfg["burn_in"] = int([0, 2, 5, 30][hi % 4])
            for i in range(len(menu)):
                for j in range(i + 1, len(menu)):
                    loose, strict = dict(cfg), dict(cfg)
                    loose[par], strict[par] = menu[i], menu[j]
                    check_pair(ctx, fam, loose, strict, par, hist, (name, "shape", hi, i, j))
                    ctx.count(f"{name}:structured-pairs")
    # CUSUM with user-supplied target / sd_hat (the statistic runs from the first sample, so it can cross a threshold inside the
    # burn-in) x a finer threshold menu x changes that start before the burn-in ends: whatever happens to the sums before the
    # first alarm must not depend on the threshold
    fam = zoo.BY_NAME["CUSUM"]
    fine = [0.0, 1.0, 3.0, 4.0, 5.0, 10.5, 15.0, 20.0, 25.0, 50.0]
    early = []
    for at in (3, 10, 20):
        for lvl in (1.0, -1.0, 0.5, 3.0):
            early.append([float(srng.integers(-8, 9)) / 16.0 for _ in range(at)] + [lvl + float(srng.integers(-8, 9)) / 16.0 for _ in range(70)])
    early += shapes[::3]
    for hi, hist in enumerate(early if not ctx.quick else early[(ctx.seed % 2)::2]):
        for bi, burn in enumerate((5, 30)):
            cfg = dict(target=0.0, sd_hat=1.0, burn_in=burn, delta=[0.005, 0.25][(hi + bi) % 2], direction=[None, "positive", "negative"][hi % 3])
            for i in range(len(fine)):
                for j in range(i + 1, len(fine)):
                    check_pair(ctx, fam, dict(cfg, threshold=fine[i]), dict(cfg, threshold=fine[j]), "threshold", hist, ("CUSUM", "known", hi, bi, i, j))
                    ctx.count("CUSUM:known-target-pairs")
    # ADWIN / ADWINAccuracy on streams with an exactly constant prefix (variance 0 at the first checks: the bound is 0, inf or NaN
    # depending on delta), then a change -- all ordered pairs of the menu incl. delta = 0
    for name in ("ADWIN", "ADWINAccuracy"):
        fam = zoo.BY_NAME[name]
        par, menu = DRIFT_PARAM[name]
        for hi in range(3 if ctx.quick else 12):
            hrng = np.random.default_rng([ctx.seed, 173, hi])
            cfg = fam.config(hrng)
            pre = int(hrng.integers(34, 90))
            if name == "ADWIN":
                c0 = float(hrng.integers(-2, 3))
                hist = [c0] * pre + [c0 + float(hrng.integers(1, 4)) + float(hrng.integers(-8, 9)) / 16.0 for _ in range(80)]
            else:
                hist = [(1, 1)] * pre + [(int(hrng.integers(0, 2)), int(hrng.integers(0, 2))) for _ in range(80)]
            for i in range(len(menu)):
                for j in range(i + 1, len(menu)):
                    loose, strict = dict(cfg), dict(cfg)
                    loose[par], strict[par] = menu[i], menu[j]
                    check_pair(ctx, fam, loose, strict, par, hist, (name, "constant-prefix", hi, i, j))
                    ctx.count(f"{name}:constant-prefix-pairs")
    # HDDDM / CDBD: all ordered pairs of the significance menu of each statistic on a few histories (a well-meant "normalisation"
    # of the parameter in one class only -- a quantile for values below 1, a multiplier above -- is not monotone across the menu)
    for name in ("HDDDM", "CDBD"):
        fam = zoo.BY_NAME[name]
        for hi in range(2 if ctx.quick else 8):
            for stat, menu in (("stdev", [0.0, 0.05, 0.2, 0.5, 1.0, 2.0, 4.0]), ("tstat", [0.9, 0.5, 0.2, 0.05, 0.01, 0.001, 0.0])):
                hrng = np.random.default_rng([ctx.seed, 174, core.shash(name), hi])
                cfg = fam.config(hrng)
                cfg["statistic"] = stat
                # borderline history: stationary batches whose level wanders a little, so that the distance to the reference
                # fluctuates around the adaptive threshold and the first alarm really depends on the multiplier / level
                d = 1 if name == "CDBD" else int(hrng.integers(1, 3))
                lvl, hist = np.zeros(d), []
                for b in range(26):
                    lvl = lvl + hrng.normal(0, 0.12, d) * (b > 3)
                    hist.append((hrng.normal(0, 1, (int(hrng.integers(60, 120)), d)) + lvl, int(hrng.integers(1 << 30))))
                cfg["detect_batch"] = 3 if hi % 2 == 0 else cfg["detect_batch"]
                for i in range(len(menu)):
                    for j in range(i + 1, len(menu)):
                        check_pair(ctx, fam, dict(cfg, significance=menu[i]), dict(cfg, significance=menu[j]), "significance", hist,
                                   (name, "all-pairs", stat, hi, i, j))
                        ctx.count(f"{name}:all-pairs")
    names = list(DRIFT_PARAM)
    for name in names:
        fam = zoo.BY_NAME[name]
        for k in range(per):
            crng = np.random.default_rng([ctx.seed, 17, core.shash(name), k])
            cfg = fam.config(crng)
            n = int(crng.choice([200, 500])) if fam.kind == "stream" else int(crng.choice([8, 14, 20]))
            if name == "LinearFourRates":
                n = 120
            hist = fam.history(crng, cfg, n)
            if name in ("HDDDM", "CDBD"):
                if cfg["statistic"] == "tstat":
                    par, menu = "significance", [0.9, 0.5, 0.2, 0.05, 0.01, 0.001, 0.0]
                else:
                    par, menu = "significance", [0.0, 0.05, 0.2, 0.5, 1.0, 2.0, 4.0]   # a multiplier of the deviation: values below 1 are multipliers too
            else:
                par, menu = DRIFT_PARAM[name]
            i = int(crng.integers(0, len(menu) - 1)); j = int(crng.integers(i + 1, len(menu)))
            loose, strict = dict(cfg), dict(cfg)
            loose[par], strict[par] = menu[i], menu[j]
            check_pair(ctx, fam, loose, strict, par, hist, (name, k))
            # and a pair with an end of the menu (the loosest or the strictest legal value: 0, 1, levels beyond 1/2), where
            # defaults-on-falsy, folded quantiles and clamped thresholds show
            e = 0 if k % 2 == 0 else len(menu) - 1
            o = int(crng.integers(1, len(menu))) if e == 0 else int(crng.integers(0, len(menu) - 1))
            i2, j2 = min(e, o), max(e, o)
            if (i2, j2) != (i, j):
                loose, strict = dict(cfg), dict(cfg)
                loose[par], strict[par] = menu[i2], menu[j2]
                check_pair(ctx, fam, loose, strict, par, hist, (name, k, "end"))
            if name in WARN_PARAM:
                wpar, wmenu = WARN_PARAM[name]
                i = int(crng.integers(0, len(wmenu) - 1)); j = int(crng.integers(i + 1, len(wmenu)))
                a, b = dict(cfg), dict(cfg)
                a[wpar], b[wpar] = wmenu[i], wmenu[j]     # a: stricter warning, b: looser warning
                check_warning_pair(ctx, fam, a, b, wpar, hist, (name, k))
    weak = [n for n in names if ctx.stats.get(f"{n}:loose-run-drifted", 0) == 0]
    ctx.extra["families_without_drift"] = weak
    if len(weak) > 3:
        raise core.Infra(f"degenerate input distribution: no drifting loose run for {weak}")


def check_pair(ctx, fam, loose, strict, par, hist, key):
    name = fam.name
    sl, el, _ = trace(fam, loose, hist, stop_after_first=True)
    ss, es, aux = trace(fam, strict, hist, stop_after_first=True)
    ctx.traces += 2
    fl = None if sl is None else first(sl)
    fs = None if ss is None else first(ss)
    ctx.case((name, repr(loose), repr(strict), key), fl is not None)
    ctx.count(f"{name}:pairs")
    ctx.count(f"{name}:loose-run-drifted", int(fl is not None))
    ctx.count(f"{name}:strict-run-drifted", int(fs is not None))
    if len(ctx.samples) < 3 and fl is not None:
        ctx.sample({"detector": name, "parameter": par, "loose": loose[par], "strict": strict[par],
                    "first_drift_loose": fl, "first_drift_strict": fs, "updates": len(hist)})
    if el or es:
        # an exception is only comparable when both sides raise identically before any alarm
        if (el or "") != (es or "") and not ("Standard deviation is 0" in (el or "") + (es or "")):
            ctx.count(f"{name}:asymmetric-exception")
        return
    bad = fs is not None and (fl is None or fs < fl)
    if not bad:
        return
    sig = {}
    if name == "PageHinkley":
        m = aux[fs] if aux and fs < len(aux) else None
        m_pub = ph_means(fam, strict, hist, fs)
        # F12 (known finding) is exactly: looser threshold <= 0 and a negative running mean at the stricter run's alarm; for a
        # positive looser threshold the documented test *is* monotone (Props/C17PH.lean ph_first_alarm_mono_partial)
        if m_pub is not None and m_pub < 0 and loose[par] <= 0:
            sig = {"class": "pagehinkley-negative-mean-threshold", "looser_threshold": "<=0"}
    ctx.fail(signature=sig, detector=name, parameter=par, loose=loose, strict=strict,
             first_drift_loose=fl, first_drift_strict=fs,
             what=f"stricter {par}={strict[par]} alarms at update {fs}, looser {par}={loose[par]} at {fl}",
             history=[_show(x) for x in hist[: (fs or 0) + 2]] if len(hist) < 4000 else None)


def check_warning_pair(ctx, fam, a, b, par, hist, key):
    name = fam.name
    sa, ea, _ = trace(fam, a, hist)
    sb, eb, _ = trace(fam, b, hist)
    ctx.traces += 2
    if ea or eb or sa is None or sb is None:
        return
    ctx.case((name, "warning", repr(a), repr(b), key), "warning" in sb)
    ctx.count(f"{name}:warning-pairs")
    for i, (x, y) in enumerate(zip(sa, sb)):
        if (x == "drift") != (y == "drift"):
            ctx.fail(detector=name, parameter=par, strict_warning=a, loose_warning=b, step=i,
                     what=f"changing only {par} changed the drift decision at update {i}: {x!r} vs {y!r}",
                     history=[_show(h) for h in hist[: i + 1]])
            return
        if x == "warning" and y != "warning":
            ctx.fail(detector=name, parameter=par, strict_warning=a, loose_warning=b, step=i,
                     what=f"loosening {par} removed the warning at update {i}: {x!r} vs {y!r}",
                     history=[_show(h) for h in hist[: i + 1]])
            return


def _show(it):
    if isinstance(it, tuple) and hasattr(it[0], "tolist"):
        return {"batch": np.asarray(it[0]).tolist(), "seed": it[1]}
    if isinstance(it, tuple):
        return [x.tolist() if hasattr(x, "tolist") else x for x in it]
    return it


def replay(ctx, path):
    return core.generic_replay(ctx, path, run)
