"""
C05 — DDM, EDDM and STEPD decide from the error sequence exactly as specified.

Correspondence of menelaus.concept_drift.{DDM,EDDM,STEPD} with the Lean models
(Model/DDM.lean, Model/EDDM.lean, Model/STEPD.lean — the executable specification
whose decision tables / retraining_recs semantics / counter and statistics
identities are proved in Props/C05.lean):

  * EXHAUSTIVE: every binary outcome sequence of length L (all shorter sequences are
    its prefixes; observables are compared after every update) x configuration menus
    (n_threshold / window_size in {1,2,3,5}; threshold menus containing the values
    at which `>=`/`>` resp. `<=`/`<` differ: scale 1 and all-equal streams for DDM,
    ratio 1.0 and *attained* ratios for EDDM, *attained* p-values for STEPD),
  * long random piecewise-stationary sequences with several drifts.

Observables after every update: drift_state, retraining_recs, total_samples,
samples_since_reset and (STEPD) recent/past/overall_accuracy().  Because the
property is "equal to the executable specification", a difference is a failing
input (ctx.fail with detector, configuration, sequence, first differing step).
Independently of the model, the declarative clauses (counters, retraining_recs
semantics, guards, STEPD accuracies recomputed from the raw sequence, alarm only
when accuracy decreased) are evaluated on every implementation trace.
"""
import itertools, json, math, struct, warnings
import numpy as np
import core

TRUST = [
    "scipy.stats.norm.cdf is monotone non-decreasing on floats: STEPD's decision `1 - norm.cdf(z,0,1) < alpha` is modelled as "
    "`z > z_alpha`; z_alpha = the largest float z for which the code's own expression is not < alpha, found by the harness by "
    "bisection on scipy.stats.norm.cdf (cross-checked against scipy.stats.norm.isf(alpha)); equivalent by (strict) monotonicity of the normal cdf",
    "np.sqrt / np.absolute on scalars are IEEE sqrt / fabs; Python int/int true division of small ints is the correctly rounded quotient",
    "excluded configurations: STEPD window_size = 0 (the code raises ZeroDivisionError), alpha outside [0, 1], NaN thresholds",
    "labels are fed as y_true = 1, y_pred in {0,1}; other encodings are property C16",
]

NS = [1, 2, 3, 5]
DDM_MENU = [(2.0, 3.0), (1.0, 1.0), (1.0, 2.0), (0.5, 1.0), (2.0, 2.0), (0.0, 1.0), (0.5, 0.75), (3.0, 2.0), (0.5, 0.0)]   # scale 0 is legal (p+s above the minimum at all)
EDDM_MENU = [(0.95, 0.9), (1.0, 1.0), (1.0, 0.5), (0.75, 0.5), (1.0, 0.9), (0.5, 0.25), (0.5, 0.0)]      # threshold 0 is legal (a positive ratio never reaches it)
# incl. warning level stricter than the drift level (legal: the drift test comes first, a warning is then impossible)
STEPD_MENU = [(0.05, 0.003), (0.5, 0.25), (0.25, 0.05), (1.0, 0.5), (0.05, 0.0), (0.0, 0.05), (0.003, 0.25), (0.25, 0.5),
              (0.6, 0.003), (0.7, 0.6), (0.95, 0.75), (0.0, 0.0)]     # both 0: legal, nothing is ever reported     # levels above 1/2 (legal; the suite itself uses 0.6 / 0.7): negative critical values


# ---------------------------------------------------------------- critical values for STEPD
_crit_cache = {}
Z_OF_ALPHA = {}      # alpha chosen as the p-value of an attained statistic z  ->  that z
FRAGILE = set()      # (kind, cfg) whose thresholds sit on an attained (irrational) statistic: ties there depend on rounding


def pvalue(z):
    import scipy.stats
    with warnings.catch_warnings():
        warnings.simplefilter("ignore")
        return 1 - scipy.stats.norm.cdf(z, 0, 1)      # the code's expression (stepd.py:116)


def crit_of(alpha):
    """largest float z with not (pvalue(z) < alpha); then `pvalue(z) < alpha  <=>  z > crit` for a monotone cdf"""
    alpha = float(alpha)
    if alpha in _crit_cache:
        return _crit_cache[alpha]
    if not (0.0 <= alpha <= 1.0):
        raise core.Infra(f"alpha {alpha} outside [0,1] is not modelled")
    lo, hi = -40.0, 40.0
    if pvalue(lo) < alpha:
        raise core.Infra("norm.cdf(-40) unexpected")
    if not (pvalue(hi) < alpha):
        c = math.inf                                   # alpha <= 0: never significant
    else:
        while True:
            mid = (lo + hi) / 2
            if mid == lo or mid == hi:
                break
            if pvalue(mid) < alpha:
                hi = mid
            else:
                lo = mid
        c = lo
        import scipy.stats
        ref = float(scipy.stats.norm.isf(alpha))
        if 1e-12 < alpha < 0.999 and not abs(c - ref) <= 1e-6 * max(1.0, abs(ref)):
            raise core.Infra(f"critical value by bisection {c} disagrees with norm.isf({alpha}) = {ref}")
    _crit_cache[alpha] = c
    return c


# ---------------------------------------------------------------- both sides
def make(kind, cfg):
    from menelaus.concept_drift import DDM, EDDM, STEPD
    if kind == "ddm":
        return DDM(n_threshold=cfg[0], warning_scale=cfg[1], drift_scale=cfg[2])
    if kind == "eddm":
        return EDDM(n_threshold=cfg[0], warning_thresh=cfg[1], drift_thresh=cfg[2])
    return STEPD(window_size=cfg[0], alpha_warning=cfg[1], alpha_drift=cfg[2])


def cfg_dict(kind, cfg):
    names = {"ddm": ("n_threshold", "warning_scale", "drift_scale"),
             "eddm": ("n_threshold", "warning_thresh", "drift_thresh"),
             "stepd": ("window_size", "alpha_warning", "alpha_drift")}[kind]
    return dict(zip(names, cfg))


def new_line(kind, cfg):
    if kind == "stepd":
        return f"new stepd {cfg[0]} {core.f2b(crit_of(cfg[1]))} {core.f2b(crit_of(cfg[2]))}"
    return f"new {kind} {cfg[0]} {core.f2b(cfg[1])} {core.f2b(cfg[2])}"


def impl_obs(d, kind):
    st = d.drift_state
    if st not in (None, "warning", "drift"):
        return ("X:" + repr(st),)
    o = (core.dstr(st), core.recs_str(d.retraining_recs), int(d.total_samples), int(d.samples_since_reset))
    if kind == "stepd":
        o += (float(d.recent_accuracy()), float(d.past_accuracy()), float(d.overall_accuracy()))
    return o


def impl_trace(kind, cfg, errs):
    """observables of the real detector after every update; an exception ends the trace"""
    out = []
    try:
        d = make(kind, cfg)
    except Exception as ex:
        return [("EXC:" + type(ex).__name__,)]
    for e in errs:
        try:
            d.update(1, 0 if e else 1)
            out.append(impl_obs(d, kind))
        except Exception as ex:
            out.append(("EXC:" + type(ex).__name__,))
            break
    return out


def parse_model(line, kind):
    t = line.split()
    o = (t[0], t[1], int(t[2]), int(t[3]))
    margin, stat = core.b2f(t[4]), core.b2f(t[5])
    if kind == "stepd":
        o += (core.b2f(t[6]), core.b2f(t[7]), core.b2f(t[8]))
    return o, margin, stat


def relgap(a, b):
    if a == b:
        return 0.0
    g = abs(a - b) / max(1.0, abs(a), abs(b))
    return 1.0 if g != g else g


def first_diff(kind, cfg, itr, mtr):
    """index of the first step where implementation and model differ, with a classification:
       ('thin', k) a decision flips inside a non-zero margin below 1e-9; ('diff', k, what); None"""
    for k, (mo, margin, stat) in enumerate(mtr):
        if k >= len(itr):
            return ("diff", k, "implementation trace ended")
        io = itr[k]
        if len(io) != len(mo):
            return ("diff", k, "exception / malformed state")
        if io[:4] != mo[:4]:
            m = margin
            if kind == "stepd" and stat == stat:
                p = float(pvalue(stat))
                m = min(m, relgap(p, cfg[1]), relgap(p, cfg[2]))
            # An exact tie (m == 0) is decisive when both sides of the comparison are the same float values however they are
            # computed (menu thresholds: ratio 1.0 = the maximum itself, p = 0.5 from a statistic that is exactly 0, equal
            # p+s on all-equal streams).  For thresholds placed ON an attained statistic (FRAGILE) the tie exists only under
            # the model's operation order -- a rewrite that changes the last bit of an intermediate square root moves the
            # implementation off the tie while the documented test still holds -- so there a tie is thin as well.
            if (io[2:4] == mo[2:4]) and (0.0 < m < 1e-9 or (m == 0.0 and (kind, tuple(cfg)) in FRAGILE)):
                return ("thin", k)
            what = ("drift_state" if io[0] != mo[0] else "retraining_recs" if io[1] != mo[1] else "counters")
            return ("diff", k, what)
        for a, b in zip(io[4:], mo[4:]):
            if not core.close(a, b):
                return ("diff", k, "accuracy")
    return None


# ---------------------------------------------------------------- declarative clauses on implementation traces
def clauses(kind, cfg, errs, tr):
    """property clauses evaluated on an implementation trace, independent of the Lean model.
       returns (step, text) of the first clause that fails, or None"""
    start = 0            # index of the first sample of the current epoch
    for k, o in enumerate(tr):
        if len(o) < 4:
            return (k, "update raised / reported a state outside {None, warning, drift}: " + str(o[0]))
        st, recs, total, since = o[:4]
        if k > 0 and tr[k - 1][0] == "D":
            start = k
        if total != k + 1:
            return (k, f"total_samples = {total}, expected {k + 1}")
        if since != k + 1 - start:
            return (k, f"samples_since_reset = {since}, expected {k + 1 - start} (epoch started at {start})")
        ep = [t[0] for t in tr[start:k + 1]]
        if kind in ("ddm", "eddm"):
            first = next((start + j for j, s in enumerate(ep) if s != "N"), None)
            exp = ("_" if first is None else str(first)) + "," + (str(k) if st == "D" else "_")
            if recs != exp:
                return (k, f"retraining_recs = {recs}, expected {exp} (first warning/drift index of the epoch, drift index)")
        else:
            if st == "N":
                exp = "_,_"
            else:
                a = k
                while a - 1 >= start and tr[a - 1][0] != "N":
                    a -= 1
                exp = f"{a},{k}"
            if recs != exp:
                return (k, f"retraining_recs = {recs}, expected {exp} (start of the uninterrupted warning/drift run, current index)")
        n_err = sum(errs[start:k + 1])
        if kind == "ddm" and since < cfg[0] and st != "N":
            return (k, "state set before n_threshold samples of the epoch")
        if kind == "eddm" and n_err < cfg[0] and st != "N":
            return (k, "state set before n_threshold errors of the epoch")
        if kind == "stepd":
            w = cfg[0]
            if since < 2 * w and st != "N":
                return (k, "state set before 2*window_size samples of the epoch")
            ok = [1 - e for e in errs[start:k + 1]]
            win, past = ok[-w:], ok[:-w] if len(ok) > w else []
            exp_acc = (sum(win) / len(win), (sum(past) / len(past)) if past else 0.0, sum(ok) / len(ok))
            for name, a, b in zip(("recent", "past", "overall"), o[4:], exp_acc):
                if not core.close(a, b):
                    return (k, f"{name}_accuracy() = {a}, expected {b} from the raw sequence")
            if st != "N" and not (exp_acc[1] > exp_acc[0]):
                return (k, "warning/drift although accuracy did not decrease")
    return None


# ---------------------------------------------------------------- running a batch of cases
class Batch:
    """cases of one (kind, cfg): implementation traces + one driver call + comparison + clauses"""

    def __init__(self, ctx, fails):
        self.ctx, self.fails = ctx, fails

    def run(self, kind, cfg, seqs, tag):
        ctx = self.ctx
        lines = []
        nl = new_line(kind, cfg)
        for errs in seqs:
            lines.append(nl)
            lines.extend("u 1" if e else "u 0" for e in errs)
        with warnings.catch_warnings():
            warnings.simplefilter("ignore")
            itrs = [impl_trace(kind, cfg, errs) for errs in seqs]
        out = core.run_driver(lines)
        pos = 0
        summary = {"drifts": 0, "warnings": 0, "boundary": 0, "stats": {}}
        for errs, itr in zip(seqs, itrs):
            if out[pos] != "ok":
                raise core.Infra(f"driver rejected `{lines[pos]}`: {out[pos]}")
            mtr = []
            for l in out[pos + 1: pos + 1 + len(errs)]:
                if l == "bad-op":
                    raise core.Infra("driver: bad-op")
                mtr.append(parse_model(l, kind))
            pos += 1 + len(errs)
            ctx.traces += 1
            nd = sum(1 for m in mtr if m[0][0] == "D")
            nw = sum(1 for m in mtr if m[0][0] == "W")
            summary["drifts"] += nd
            summary["warnings"] += nw
            if kind == "stepd":   # the p-value test sits exactly on alpha (`<` vs `<=` observable)
                zs = {Z_OF_ALPHA.get(cfg[1]), Z_OF_ALPHA.get(cfg[2])} - {None}
                summary["boundary"] += sum(1 for m in mtr if m[2] in zs)
            else:
                summary["boundary"] += sum(1 for m in mtr if m[1] == 0.0)
            ctx.case((kind, cfg, tuple(errs)), nd + nw > 0)
            if tag == "long":
                ctx.count(f"{kind}:long:drifts=" + ("0" if nd == 0 else "1" if nd == 1 else "2-4" if nd <= 4 else "5+"))
            d = first_diff(kind, cfg, itr, mtr)
            if d is not None and d[0] == "thin":
                ctx.thin += 1
            elif d is not None:
                k = d[1]
                self.fails.append((k + 1, {
                    "signature": {"class": f"c05-{kind}-differs-from-specification", "observable": d[2]},
                    "what": f"{kind.upper()} differs from its executable specification on {d[2]} at update {k}",
                    "detector": kind, "config": cfg_dict(kind, cfg), "errors": [int(e) for e in errs[:k + 1]],
                    "step": k, "impl": list(itr[k]) if k < len(itr) else None, "model": list(mtr[k][0]),
                    "model_margin": mtr[k][1]}))
            c = clauses(kind, cfg, errs, itr)
            if c is not None:
                k = c[0]
                self.fails.append((k + 1, {
                    "signature": {"class": f"c05-{kind}-clause"},
                    "what": f"{kind.upper()}: {c[1]}",
                    "detector": kind, "config": cfg_dict(kind, cfg), "errors": [int(e) for e in errs[:k + 1]],
                    "step": k, "impl": list(itr[k]) if k < len(itr) else None}))
            if tag == "collect":
                for m in mtr:
                    s = m[2]
                    if s == s and abs(s) != math.inf:
                        summary["stats"][s] = summary["stats"].get(s, 0) + 1
        return summary


def attained(kind, n, L, rng):
    """statistic values the specification attains on the sequences of length L (model only), by frequency"""
    cfg = (n,) + ((0.95, 0.9) if kind == "eddm" else (0.05, 0.003))
    lines, nl = [], new_line(kind, cfg)
    for errs in itertools.product((0, 1), repeat=L):
        lines.append(nl)
        lines.extend("u 1" if e else "u 0" for e in errs)
    freq = {}
    for l in core.run_driver(lines):
        t = l.split()
        if len(t) >= 6:
            s = core.b2f(t[5])
            if s == s and abs(s) != math.inf:
                freq[s] = freq.get(s, 0) + 1
    return freq


def run(ctx):
    # detector objects are independent of one another (a consequence of "the outputs are a function of the detector's own
    # parameters and history"): solo trace = trace when a second object of the class is updated alternately (impl/zoo.py)
    from impl import zoo as _zoo
    for _f in _zoo.isolation_failures(ctx, ['DDM', 'EDDM', 'STEPD']):
        ctx.fail(signature={"clause": "detector-objects-independent"}, **_f)
    rng = np.random.default_rng(ctx.seed)
    L = 10 if ctx.quick else 12
    ctx.exhaustive = True
    ctx.rule = (f"exhaustive part: every binary error sequence of length {L} (hence every sequence of length <= {L}: observables are "
                "compared after every update) x every configuration of the menus; random part: piecewise-stationary sequences of "
                "length 1500-5000.  A case = (detector, configuration, sequence); non-trivial when the specification's trace "
                "contains at least one warning or drift; distinct = distinct (detector, configuration, sequence)")
    fails = []
    B = Batch(ctx, fails)
    seqs = list(itertools.product((0, 1), repeat=L))
    # before the first update (and right after an explicit reset) the three accuracies are 0 by definition
    # (Model/STEPD.lean recentAcc / pastAcc / overallAcc on an empty epoch) and the state is None with empty recommendations
    for w in (1, 3, 30):
        try:
            d0 = make("stepd", (w, 0.05, 0.003))
            first = (impl_obs(d0, "stepd"),)
            for e in (1, 0, 1, 1):
                d0.update(1, 0 if e else 1)
            d0.reset()
            first += (impl_obs(d0, "stepd"),)
        except Exception as ex:
            first = (("EXC:" + type(ex).__name__,),)
        want = ("N", "_,_", 0, 0, 0.0, 0.0, 0.0)
        for j, o in enumerate(first):
            exp = want if j == 0 else want[:2] + (4,) + want[3:]
            ctx.case(("stepd-empty-epoch", w, j), True)
            if o != exp:
                ctx.fail(signature={"detector": "stepd", "clause": "empty-epoch-observables"},
                         what="STEPD with no sample in the current epoch: state / recs / counters / accuracies differ from the specification",
                         detector="stepd", config={"window_size": w}, after=["construction", "4 updates + reset()"][j],
                         impl=list(o), spec=list(exp))
    configs = {"ddm": [(n, w, d) for n in NS for (w, d) in DDM_MENU],
               "eddm": [(n, w, d) for n in NS for (w, d) in EDDM_MENU],
               "stepd": [(n, w, d) for n in NS for (w, d) in STEPD_MENU if 2 * n <= L]}

    # thresholds on attained values: `<=` vs `<` (EDDM ratio), `<` vs `<=` (STEPD p-value) become observable
    att_L = min(L, 10)
    for n in NS:
        fr = attained("eddm", n, att_L, rng)
        vals = sorted((v for v in fr if 0.0 < v < 1.0), key=lambda v: -fr[v])[:12]
        if len(vals) >= 2:
            pick = sorted(rng.choice(len(vals), size=2, replace=False))
            a, b = vals[pick[0]], vals[pick[1]]
            configs["eddm"].append((n, max(a, b), min(a, b)))
            configs["eddm"].append((n, 1.0, max(a, b)))
            FRAGILE.update({("eddm", (n, max(a, b), min(a, b))), ("eddm", (n, 1.0, max(a, b)))})
        if 2 * n <= att_L:
            fr = attained("stepd", n, att_L, rng)
            vals = sorted((v for v in fr if 0.3 < v < 3.5), key=lambda v: -fr[v])[:12]
            if len(vals) >= 2:
                pick = sorted(rng.choice(len(vals), size=2, replace=False))
                za, zb = vals[pick[0]], vals[pick[1]]
                pa, pb = float(pvalue(min(za, zb))), float(pvalue(max(za, zb)))
                Z_OF_ALPHA[pa], Z_OF_ALPHA[pb] = min(za, zb), max(za, zb)
                configs["stepd"].append((n, pa, pb))
                configs["stepd"].append((n, pa, pa))
                configs["stepd"].append((n, pb, pa))      # warning stricter than drift
                FRAGILE.update({("stepd", (n, pa, pb)), ("stepd", (n, pa, pa)), ("stepd", (n, pb, pa))})
    ctx.extra["configurations"] = {k: len(v) for k, v in configs.items()}

    boundary = {}
    for kind in ("ddm", "eddm", "stepd"):
        for cfg in configs[kind]:
            s = B.run(kind, cfg, seqs, "exh")
            ctx.count(f"{kind}:exhaustive:configs")
            ctx.count(f"{kind}:exhaustive:drift-steps", s["drifts"])
            ctx.count(f"{kind}:exhaustive:warning-steps", s["warnings"])
            boundary[kind] = boundary.get(kind, 0) + s["boundary"]
            if len(ctx.samples) < 3 and s["drifts"]:
                errs = seqs[int(rng.integers(len(seqs)))]
                ctx.sample({"detector": kind, "config": cfg_dict(kind, cfg), "errors": list(errs),
                            "impl": [list(o) for o in impl_trace(kind, cfg, errs)]})
    ctx.extra["comparisons_with_equal_sides"] = boundary
    for kind in ("ddm", "eddm", "stepd"):
        if ctx.stats.get(f"{kind}:exhaustive:drift-steps", 0) == 0 or ctx.stats.get(f"{kind}:exhaustive:warning-steps", 0) == 0 \
                or boundary.get(kind, 0) == 0:
            raise core.Infra(f"{kind}: degenerate exhaustive distribution (no drift / warning / boundary comparison)")

    # long random piecewise-stationary sequences
    n_long = 8 if ctx.quick else 40
    long_cfgs = {"ddm": [(30, 2.0, 3.0), (10, 1.5, 2.5), (50, 2.0, 3.0)],
                 "eddm": [(30, 0.95, 0.9), (10, 0.9, 0.8), (15, 0.98, 0.95)],
                 "stepd": [(30, 0.05, 0.003), (10, 0.1, 0.01), (20, 0.05, 0.0), (20, 0.0, 0.01), (30, 0.7, 0.6), (50, 0.05, 0.003)]}
    total_d = {}
    for i in range(n_long):
        n = int(rng.integers(1500, 5001))
        errs, level = [], float(rng.choice([0.05, 0.1, 0.2]))
        while len(errs) < n:
            seg = int(rng.integers(150, 900))
            errs.extend((rng.random(seg) < level).astype(int).tolist())
            level = float(rng.choice([0.02, 0.05, 0.1, 0.2, 0.35, 0.5, 0.7]))
        errs = tuple(errs[:n])
        for kind in ("ddm", "eddm", "stepd"):
            cfg = long_cfgs[kind][i % len(long_cfgs[kind])]
            s = B.run(kind, cfg, [errs], "long")
            total_d[kind] = total_d.get(kind, 0) + s["drifts"]
    ctx.extra["long_sequences"] = {"per_detector": n_long, "drift_steps": total_d}
    for kind in ("ddm", "eddm", "stepd"):
        if total_d.get(kind, 0) < n_long:
            raise core.Infra(f"{kind}: long sequences produced too few drifts ({total_d.get(kind, 0)})")

    # report the shortest failing inputs first, one per (class, detector, configuration)
    fails.sort(key=lambda f: (f[0], json.dumps(f[1]["config"], sort_keys=True)))
    seen = set()
    for _, f in fails:
        key = (json.dumps(f["signature"], sort_keys=True), f["detector"], json.dumps(f["config"], sort_keys=True))
        if key in seen:
            ctx.count("further-failing-sequences")
            continue
        seen.add(key)
        sig = f.pop("signature")
        ctx.fail(signature=sig, **f)


def search(ctx, mismatches):
    # every difference on the property's observables is already reported as a failing input by `run`
    return []


def replay(ctx, path):
    r = json.load(open(path))
    kind, cfgd, errs = r["detector"], r["config"], r["errors"]
    cfg = tuple(cfgd.values())
    core.lake_build()
    with warnings.catch_warnings():
        warnings.simplefilter("ignore")
        itr = impl_trace(kind, cfg, errs)
    out = core.run_driver([new_line(kind, cfg)] + ["u 1" if e else "u 0" for e in errs])
    mtr = [parse_model(l, kind) for l in out[1:]]
    for k, e in enumerate(errs):
        print(f"update {k} error={e}  impl={itr[k] if k < len(itr) else None}  spec={mtr[k][0]}")
    d = first_diff(kind, cfg, itr, mtr)
    c = clauses(kind, cfg, errs, itr)
    if (d is not None and d[0] == "diff") or c is not None:
        print(f"VIOLATION property=C05 replay={path}  ({'differs at update %d: %s' % (d[1], d[2]) if d and d[0] == 'diff' else c[1]})")
        return 1
    print("replay: implementation and specification agree, all clauses hold")
    return 0
