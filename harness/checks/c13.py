"""
C13 — elections.  Exhaustive correspondence between menelaus.ensemble.election and
the Lean model (Model/Election.lean) over all state vectors and parameters, and
breadth-first exploration of every reachable ConfirmedElection counter state.
The declarative voting rules (proved equal to the model in Props/C13.lean) are
also evaluated directly on the implementation to produce failing inputs.
"""
import itertools
import core

TRUST = ["detectors are represented by objects exposing only `drift_state` (all an Election reads)"]
STATES = [None, "warning", "drift"]


class D:
    def __init__(self, s):
        self.drift_state = s


def impl_call(e, vec):
    try:
        r = e([D(s) for s in vec])
        return core.dstr(r) if r in (None, "warning", "drift") else "X:" + repr(r)
    except Exception as ex:  # a mutated tree may raise
        return "EXC:" + type(ex).__name__


def rule_simple(vec):
    return "D" if 2 * sum(s == "drift" for s in vec) > len(vec) else "N"


def rule_min(a, vec):
    return "D" if sum(s == "drift" for s in vec) >= a else "N"


def run(ctx):
    from menelaus.ensemble import election as el
    nmax = 5 if ctx.quick else 6
    ctx.rule = (f"exhaustive: every vector in {{None,warning,drift}}^n for n<=%d x every parameter value 0..n+1 "
                "(SimpleMajority, MinimumApproval, OrderedApproval); ConfirmedElection: BFS over every reachable counter "
                "state x every vector x sensitivity 0..n+1, wait_time 0..3, n<=%d; a case is non-trivial when the vector "
                "contains at least one drift or warning; distinct = distinct (election, params, state, vector)") % (nmax, 4 if ctx.quick else 5)
    ctx.exhaustive = True
    lines, expect = [], []   # expect[i] = (impl_output, case) or None for `new` lines

    def new(spec):
        lines.append("new " + spec); expect.append(None)

    def vote(vec, impl_out, case):
        lines.append("vote " + " ".join(core.dstr(s) for s in vec)); expect.append((impl_out, case))

    for n in range(0, nmax + 1):
        vecs = list(itertools.product(STATES, repeat=n))
        new("el.majority")
        e = el.SimpleMajorityElection()
        for v in vecs:
            out = impl_call(e, v)
            case = ("majority", n, v)
            vote(v, out, case)
            ctx.case(case, any(v))
            if out != rule_simple(v):
                ctx.fail(election="SimpleMajorityElection", vector=list(v), impl=out, rule=rule_simple(v),
                         what="verdict differs from 'drift iff strictly more than half report drift'")
        for a in range(0, n + 2):
            new(f"el.min {a}")
            e = el.MinimumApprovalElection(a)
            for v in vecs:
                out = impl_call(e, v)
                case = ("min", a, v)
                vote(v, out, case)
                ctx.case(case, any(v))
                if a >= 1 and out != rule_min(a, v):
                    ctx.fail(election="MinimumApprovalElection", approvals_needed=a, vector=list(v), impl=out,
                             rule=rule_min(a, v), what="verdict differs from 'drift iff at least a report drift'")
        for a in range(0, n + 2):
            for c in range(0, n + 2):
                new(f"el.ordered {a} {c}")
                e = el.OrderedApprovalElection(a, c)
                for v in vecs:
                    out = impl_call(e, v)
                    case = ("ordered", a, c, v)
                    vote(v, out, case)
                    ctx.case(case, any(v))
                    if a + c >= 1 and out != rule_min(a + c, v):
                        ctx.fail(election="OrderedApprovalElection", approvals_needed=a, confirmations_needed=c,
                                 vector=list(v), impl=out, rule=rule_min(a + c, v),
                                 what="verdict differs from 'drift iff at least a+c report drift'")
    # one election object re-used across calls with member lists of different lengths (an election shared by two ensembles,
    # members added or removed): the three memoryless rules must depend on the current list only
    rng = __import__("numpy").random.default_rng(ctx.seed)
    shared = [("majority", "el.majority", el.SimpleMajorityElection(), lambda v: rule_simple(v))]
    for a in (1, 2, 3):
        shared.append((f"min {a}", f"el.min {a}", el.MinimumApprovalElection(a), lambda v, a=a: rule_min(a, v)))
    for a, c in ((1, 1), (2, 1), (1, 2)):
        shared.append((f"ordered {a} {c}", f"el.ordered {a} {c}", el.OrderedApprovalElection(a, c), lambda v, k=a + c: rule_min(k, v)))
    for name, spec, e, rule in shared:
        new(spec)
        sizes = list(range(1, nmax + 1)) + list(range(nmax, 0, -1)) + [int(x) for x in rng.integers(1, nmax + 1, 30)]
        hist = []
        for n in sizes:
            allv = list(itertools.product(STATES, repeat=n))
            for v in [allv[int(i)] for i in rng.integers(0, len(allv), 12)] + [tuple(["drift"] * (n // 2 + 1) + [None] * (n - n // 2 - 1))]:
                out = impl_call(e, v)
                hist.append(list(v))
                case = ("shared", name, len(hist))
                vote(v, out, case)
                ctx.case(case, any(v))
                ctx.count("shared-instance-calls")
                if out != rule(v):
                    ctx.fail(election=name, vector=list(v), impl=out, rule=rule(v), earlier_calls=hist[-12:-1],
                             what="a re-used election object answers a call from something else than the current member list "
                                  "(verdict differs from the counting rule after calls with lists of other lengths)")
    ctx.sample({"election": "OrderedApprovalElection(1,1)", "vector": ["drift", "warning", "drift"],
                "impl": impl_call(el.OrderedApprovalElection(1, 1), ("drift", "warning", "drift"))})

    # ConfirmedElection: explicit-state exploration (successors taken from the implementation)
    states_seen = transitions = 0
    cn = 4 if ctx.quick else 5
    for n in range(1, cn + 1):
        vecs = list(itertools.product(STATES, repeat=n))
        for w in range(0, 4):
            seen = {None}
            frontier = [None]
            while frontier:
                nxt = []
                for st in frontier:
                    for v in vecs:
                        for sens in range(0, n + 2):
                            e = el.ConfirmedElection(sens, w)
                            e.wait_period_counters = None if st is None else list(st)
                            out = impl_call(e, v)
                            cs = e.wait_period_counters
                            cs_s = "_" if cs is None else " ".join(str(int(x)) for x in cs)
                            lines.append(f"new el.confirmed {sens} {w}"); expect.append(None)
                            if st is not None:
                                lines.append("set " + " ".join(map(str, st))); expect.append(None)
                            case = ("confirmed", sens, w, st, v)
                            vote(v, out + " | " + cs_s, case)
                            ctx.case(case, any(v))
                            transitions += 1
                            # property clauses directly on the implementation
                            if cs is not None and any(x > w for x in cs):
                                ctx.fail(election="ConfirmedElection", sensitivity=sens, wait_time=w,
                                         counters_before=st, vector=list(v), counters_after=list(cs),
                                         what="a wait counter exceeds wait_time after the call")
                            spec = confirmed_spec(sens, w, st, v)
                            if (out, None if cs is None else tuple(cs)) != spec:
                                ctx.fail(election="ConfirmedElection", sensitivity=sens, wait_time=w,
                                         counters_before=st, vector=list(v), impl=[out, cs], spec=list(spec),
                                         what="verdict / counters differ from the documented voter automaton")
                            if sens == 0 and cs is not None:
                                t = tuple(int(x) for x in cs)
                                if t not in seen and len(t) == n and all(0 <= x <= w + 1 for x in t):
                                    seen.add(t); nxt.append(t)
                frontier = nxt
            states_seen += len(seen)
    # whole call histories on ONE election object (the exploration above sets the counters of a fresh object for every
    # transition, so it cannot see state kept anywhere else): every sequence of vectors up to a length beyond wait_time + 2,
    # and random long histories with sticky member states (a member that keeps reporting drift call after call)
    def follow(sens, w, seq, tag):
        e = el.ConfirmedElection(sens, w)
        st = None
        for t, v in enumerate(seq):
            out = impl_call(e, v)
            cs = e.wait_period_counters
            spec = confirmed_spec(sens, w, st, v)
            if (out, None if cs is None else tuple(int(x) for x in cs)) != spec:
                ctx.fail(election="ConfirmedElection", sensitivity=sens, wait_time=w, calls=[list(x) for x in seq[:t + 1]],
                         impl=[out, None if cs is None else [int(x) for x in cs]], spec=[spec[0], list(spec[1])],
                         what="verdict / counters differ from the documented voter automaton in call %d of a history on one election object" % (t + 1))
                return
            st = spec[1]
        ctx.count(tag)
    for n, L in ((1, 6), (2, 4 if ctx.quick else 5)):
        vecs = list(itertools.product(STATES, repeat=n))
        for w in (0, 1, 2):
            for sens in range(1, n + 1):
                for seq in itertools.product(vecs, repeat=L):
                    follow(sens, w, seq, "confirmed-history-exhaustive")
                ctx.case(("confirmed-histories", n, L, w, sens), True)
    hrng = __import__("numpy").random.default_rng(ctx.seed + 131)
    for k in range(300 if ctx.quick else 3000):
        n = int(hrng.integers(1, 5)); w = int(hrng.choice([0, 1, 2, 3, 5])); sens = int(hrng.integers(1, n + 2))
        cur, seq = [None] * n, []
        for t in range(40):
            for i in range(n):
                if hrng.random() < 0.25:                      # sticky: a member changes its state only now and then
                    cur[i] = STATES[int(hrng.integers(0, 3))]
            seq.append(tuple(cur))
        follow(sens, w, seq, "confirmed-history-sticky")
        ctx.case(("confirmed-sticky", k), True)
    # long waiting periods: the rule holds for every wait_time, in particular beyond the range of small integer types
    lrng = __import__("numpy").random.default_rng(ctx.seed + 13)
    for w in ((254, 255, 256, 257, 300) if ctx.quick else (254, 255, 256, 257, 300, 65535, 65536, 66000)):
        for sens in (1, 2):
            e = el.ConfirmedElection(sens, w)
            lines.append(f"new el.confirmed {sens} {w}"); expect.append(None)
            st = None
            calls = w + 40
            alarm_at = {0: 0, 1: int(lrng.integers(1, 30))}
            for t in range(calls):
                v = tuple("drift" if alarm_at[i] == t else ("warning" if (i == 1 and t % 97 == 5) else None) for i in range(2))
                out = impl_call(e, v)
                cs = e.wait_period_counters
                spec = confirmed_spec(sens, w, st, v)
                case = ("confirmed-long", sens, w, t)
                vote(v, out + " | " + ("_" if cs is None else " ".join(str(int(x)) for x in cs)), case)
                ctx.case(case, any(v) or (st is not None and any(st)))
                if (out, None if cs is None else tuple(int(x) for x in cs)) != spec:
                    ctx.fail(election="ConfirmedElection", sensitivity=sens, wait_time=w, call_index=t, vector=list(v),
                             impl=[out, None if cs is None else [int(x) for x in cs]], spec=[spec[0], list(spec[1])],
                             what="verdict / counters differ from the documented voter automaton during a long waiting period")
                    break
                st = spec[1]
            ctx.count("confirmed-long-histories")
    ctx.extra["states"] = states_seen
    ctx.extra["transitions"] = transitions
    ctx.sample({"election": "ConfirmedElection(2,2)", "calls": [["drift", None], [None, "drift"]],
                "impl": trace_confirmed(el, 2, 2, [("drift", None), (None, "drift")])})

    out = core.run_driver(lines)
    for line, o, exp in zip(lines, out, expect):
        if exp is None:
            if o not in ("ok",):
                raise core.Infra(f"driver rejected `{line}`: {o}")
            continue
        impl_out, case = exp
        ctx.traces += 1
        if o != impl_out:
            ctx.mismatch(component="election", case=repr(case), op=line, impl=impl_out, model=o)


def confirmed_spec(sens, w, st, vec):
    """the documented automaton (Props/C13.lean `Mem.step`, `verdictOf`), in counter form"""
    cs = [0] * len(vec) if st is None else list(st)
    voters = warns = 0
    new = []
    for c, s in zip(cs, vec):
        waiting = c != 0
        if s == "warning":
            warns += 1
            new.append(c)
        elif waiting or s == "drift":
            voters += 1
            c2 = c + 1
            new.append(0 if c2 > w else c2)
        else:
            new.append(c)
    new += cs[len(vec):]
    v = "D" if voters >= sens else ("W" if voters + warns >= sens else "N")
    return v, tuple(new)


def trace_confirmed(el, sens, w, calls):
    e = el.ConfirmedElection(sens, w)
    return [[impl_call(e, v), list(e.wait_period_counters)] for v in calls]


def search(ctx, mismatches):
    # every case is also checked against the declarative rule in `run`; a mismatch that is not
    # a rule violation concerns only the degenerate parameters (a = 0 / a = c = 0) outside the property
    return []


def replay(ctx, path):
    return core.generic_replay(ctx, path, run)
