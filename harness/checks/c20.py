"""
C20 — drift injectors change only the window and columns they are asked to change.

* correspondence: the eight injectors of menelaus.injection against the Lean model
  (Model/Inject.lean, run at Float by mdriver).  Random draws of the implementation
  (np.random.choice / np.random.dirichlet / DataFrame.groupby.sample) are recorded by
  wrapping the numpy entry points inside this process and handed to the model as inputs;
  `_p_distribution` is private, so the probability vector is read from the `p` argument of
  the tapped np.random.choice.
* property clauses evaluated directly on the implementation (independent of the model):
  container type / shape / labels, rows outside the window, other columns, involutions,
  documented in-window effect, resampled rows come from the window, probability vector,
  cover sample per group, input object (and argument dictionaries) unchanged.
* space: ndarray / DataFrame containers (float64, int64, mixed, integer column labels), ALL
  windows 0 <= from <= to <= n for n <= 8, every column / column pair, class and probability
  menus; random larger tables.
"""
import itertools, json, math, os, traceback
import numpy as np
import core

TRUST = [
    "numpy RNG: that the drawn indices follow the weights handed to np.random.choice / that groupby.sample draws uniformly "
    "(the draws themselves are inputs of the model; a chi-square frequency TEST is run in the thorough tier, it is not a proof)",
    "pandas / numpy container plumbing: np.copy, DataFrame(...), slice and fancy-index assignment, groupby ordering",
    "Python's builtin sum and np.mean are modelled as a left fold; decisions that depend on their last ulp fall under the thin-margin rule "
    "(generators use dyadic probabilities where `sum > 1.0` is decided)",
    "excluded: negative indices, from > to, to > n, NaN cells, non-numeric cells, duplicate column labels, a row index other than the default one "
    "(the injectors return a default RangeIndex)",
]

KNOWN_CLASSES = ("int-dtype-truncation",)
CONTAINERS = ["nd-f", "nd-i", "df-f", "df-i", "df-m", "df-r"]
ARITH = ("shift", "brown")


# ----------------------------------------------------------------------------- RNG taps
class Tap:
    """records np.random.choice / np.random.dirichlet calls (arguments and results) while active"""

    def __enter__(self):
        self.choice, self.dirichlet = [], []
        self._c, self._d = np.random.choice, np.random.dirichlet

        def choice(*a, **k):
            r = self._c(*a, **k)
            self.choice.append((a, k, r))
            return r

        def dirichlet(*a, **k):
            r = self._d(*a, **k)
            self.dirichlet.append((a, k, r))
            return r

        np.random.choice, np.random.dirichlet = choice, dirichlet
        return self

    def __exit__(self, *exc):
        np.random.choice, np.random.dirichlet = self._c, self._d
        return False


class TapRS(np.random.RandomState):
    """a RandomState (accepted as `random_state` by pandas) that records its choice() calls"""

    def __init__(self, seed):
        super().__init__(seed)
        self.calls = []

    def choice(self, *a, **k):
        r = super().choice(*a, **k)
        self.calls.append((a, k, r))
        return r


# ----------------------------------------------------------------------------- containers
def pyval(tok):
    return int(tok[1:]) if tok[0] == "i" else tok[1:]


def tok_of(label):
    if isinstance(label, (int, np.integer)) and not isinstance(label, bool):
        return "i%d" % int(label)
    if isinstance(label, str):
        return "s" + label
    return "x" + repr(label)


def is_int(container):
    return container in ("nd-i", "df-i")


def build(case):
    import pandas as pd
    c, w = case["container"], case["width"]
    cells = case["cells"]
    n = len(cells)
    if c == "nd-f":
        return np.array(cells, dtype=np.float64).reshape(n, w)
    if c == "nd-i":
        return np.array(cells, dtype=np.int64).reshape(n, w)
    labels = [pyval(t) for t in case["labels"]]
    if c in ("df-f", "df-r"):
        return row_labelled(case, pd.DataFrame(np.array(cells, dtype=np.float64).reshape(n, w), columns=labels))
    if c == "df-i":
        return row_labelled(case, pd.DataFrame(np.array(cells, dtype=np.int64).reshape(n, w), columns=labels))
    if c == "df-m":   # float features, int64 last column
        arr = np.array(cells, dtype=np.float64).reshape(n, w)
        d = {labels[j]: (arr[:, j].astype(np.int64) if j == w - 1 else arr[:, j]) for j in range(w)}
        return row_labelled(case, pd.DataFrame(d, columns=labels))
    raise core.Infra("unknown container " + c)


def row_labelled(case, df):
    """DataFrames arrive with whatever row index the caller's pipeline left on them: the property is about positions
    (rows outside [from_index, to_index) by position), so the result's values must not depend on the row labels.  The style
    is a function of the case's seed: default RangeIndex (half of the cases), a slice of a longer frame (labels 100, 103, ...),
    a reversed range (a permutation of the default labels), strings, or repeated labels."""
    n = len(df)
    style = case.get("rowidx", int(case.get("seed", 0)) % 8)
    if n == 0 or style in (0, 1, 2, 3):
        return df
    if style == 4:
        df.index = [100 + 3 * i for i in range(n)]
    elif style == 5:
        df.index = list(range(n - 1, -1, -1))
    elif style == 6:
        df.index = ["r%d" % i for i in range(n)]
    else:
        df.index = [i // 2 for i in range(n)]
    return df


def observe(res):
    """canonical observable of what an injector returned"""
    import pandas as pd
    try:
        if type(res) is np.ndarray:
            if res.ndim != 2:
                return ("bad", "ndarray ndim=%d" % res.ndim)
            return ("ok", "A", res.shape[0], res.shape[1], None, np.asarray(res, dtype=np.float64))
        if isinstance(res, pd.DataFrame):
            return ("ok", "F", res.shape[0], res.shape[1], [tok_of(l) for l in res.columns],
                    res.to_numpy(dtype=np.float64).reshape(res.shape))
        return ("bad", "type " + type(res).__name__)
    except Exception as ex:
        return ("bad", "unreadable result: " + type(ex).__name__)


def same_object(a, b):
    import pandas as pd
    if isinstance(a, np.ndarray):
        return isinstance(b, np.ndarray) and a.dtype == b.dtype and a.shape == b.shape and np.array_equal(a, b)
    if not isinstance(b, pd.DataFrame) or a.shape != b.shape or list(a.columns) != list(b.columns):
        return False
    va, vb = a.to_numpy(), b.to_numpy()
    return va.dtype == vb.dtype and np.array_equal(va, vb) and (len(a) == 0 or a.index.equals(b.index)) \
        and (a.shape[1] == 0 or a.iloc[:, -1].dtype == b.iloc[:, -1].dtype)


def data_tokens(case):
    n, w = len(case["cells"]), case["width"]
    cells = [core.f2b(x) for r in case["cells"] for x in r]
    if case["container"].startswith("nd"):
        return ["A", str(n), str(w)] + cells
    return ["F", str(n), str(w)] + list(case["labels"]) + cells


def col_index(case, tok):
    """position of a column argument, or None (what get_loc / ndarray indexing would reject)"""
    w = case["width"]
    if case["container"].startswith("nd"):
        return int(tok[1:]) if tok[0] == "i" and int(tok[1:]) < w else None
    return case["labels"].index(tok) if tok in case["labels"] else None


# ----------------------------------------------------------------------------- one case
class Outcome:
    def __init__(self):
        self.fails = []       # (class, what, detail)
        self.line = None      # driver op
        self.obs = None       # impl observable
        self.p = None         # (grouped, p) read from the tapped np.random.choice
        self.info = {}
        self.changed = False
        self.skip_model = False
        self.margin = None    # smallest margin of a float decision taken by the code


def call(inj, data, args, kw, seed):
    """run the real injector; returns (result | None, exception name | None, tap)"""
    np.random.seed(seed)
    with Tap() as tap:
        try:
            return inj(data, *args, **kw), None, tap
        except Exception as ex:   # a mutated tree may raise anywhere
            return None, type(ex).__name__, tap


def class_of(kind, inj_mod):
    return {"shift": inj_mod.FeatureShiftInjector, "swap": inj_mod.FeatureSwapInjector,
            "lswap": inj_mod.LabelSwapInjector, "ljoin": inj_mod.LabelJoinInjector,
            "brown": inj_mod.BrownianNoiseInjector, "prob": inj_mod.LabelProbabilityInjector,
            "dir": inj_mod.LabelDirichletInjector, "cover": inj_mod.FeatureCoverInjector}[kind]


def tap_draws(calls):
    """every value drawn by the recorded calls, flattened (a call with size= yields that many draws)"""
    return [x for (_, _, r) in calls for x in np.asarray(r).ravel().tolist()]


def evaluate(case, inj_mod, instance=None):
    """runs one case on the implementation, evaluates the property clauses, builds the model op.
    `case["prior"]` (a list of cases) is first run on the SAME injector object: a long-lived instance
    must behave like a fresh one."""
    out = Outcome()
    kind, a = case["inj"], case["args"]
    if instance is None:
        instance = class_of(kind, inj_mod)()
        for pc in case.get("prior") or []:
            try:
                evaluate(pc, inj_mod, instance=instance)
            except Exception:
                pass    # the prior calls are evaluated as cases of their own
    data = build(case)
    keep = data.copy()
    X = np.asarray(data, dtype=np.float64).reshape(len(case["cells"]), case["width"])
    n, w = X.shape
    seed = case["seed"]
    integer = is_int(case["container"])
    num = (lambda v: int(v)) if integer else (lambda v: float(v))

    def fail(fclass, what, **detail):
        out.fails.append((fclass, what, detail))

    if kind == "cover":
        return evaluate_cover(case, inj_mod, out, data, keep, X, instance)

    f, t = a["from"], a["to"]
    col = pyval(a["col"])
    ci = col_index(case, a["col"])
    valid = ci is not None
    head = [kind] + data_tokens(case) + [str(f), str(t), a["col"]]
    targets = [ci]
    dict_arg = None
    if kind == "shift":
        args = (f, t, col, a["shift_factor"], a["alpha"])
        line = head + [core.f2b(a["shift_factor"]), core.f2b(a["alpha"])]
    elif kind == "swap":
        c2 = col_index(case, a["col2"])
        valid = valid and c2 is not None
        targets = [ci, c2]
        args = (f, t, col, pyval(a["col2"]))
        line = head + [a["col2"]]
    elif kind == "lswap":
        args = (f, t, col, num(a["c1"]), num(a["c2"]))
        line = head + [core.f2b(a["c1"]), core.f2b(a["c2"])]
    elif kind == "ljoin":
        args = (f, t, col, num(a["c1"]), num(a["c2"]), num(a["new"]))
        line = head + [core.f2b(a["c1"]), core.f2b(a["c2"]), core.f2b(a["new"])]
    elif kind == "brown":
        args = (f, t, col, a["x0"], a["random_state"])
        line = head + [core.f2b(a["x0"])]
    elif kind == "prob":
        dict_arg = {num(k): v for k, v in a["cp"]}
        args = (f, t, col, dict_arg)
        line = head + [str(len(a["cp"]))] + [x for k, v in a["cp"] for x in (core.f2b(k), core.f2b(v))]
    elif kind == "dir":
        dict_arg = {num(k): v for k, v in a["alpha"]}
        args = (f, t, col, dict_arg)
        line = head + [str(len(a["alpha"]))] + [core.f2b(k) for k, _ in a["alpha"]]
    dict_keep = None if dict_arg is None else dict(dict_arg)

    res, exc, tap = call(instance, data, args, {}, seed)
    # the caller's objects are never written
    if not same_object(keep, data):
        fail("input-mutated", "the caller's data object changed during the call")
    if dict_arg is not None and (dict_arg != dict_keep or list(dict_arg) != list(dict_keep)):
        fail("argument-dict-mutated", "the caller's dictionary changed during the call", after=repr(dict_arg))

    # ---- draws for the model
    if kind == "brown":
        ds = [int(x) for x in tap_draws(tap.choice)]
        line += [str(len(ds))] + ["1" if d == 1 else "0" for d in ds]
        if any(d not in (1, -1) for d in ds):
            fail("brown-draws", "a random-walk step is not +1/-1", draws=ds)
    sample = None
    if kind in ("prob", "dir"):
        if kind == "dir":
            dv = [float(x) for x in tap.dirichlet[0][2]] if tap.dirichlet else []
            line += [str(len(dv))] + [core.f2b(x) for x in dv]
            out.info["dirichlet"] = dv
        if tap.choice:
            (ca, ck, cr) = tap.choice[0]
            sample = [int(x) for x in np.asarray(cr).ravel()]
            full = dict(zip(("a", "size", "replace", "p"), ca))
            full.update(ck)
            if all(k_ in full and full[k_] is not None for k_ in ("a", "size", "replace", "p")):
                out.p = ([int(x) for x in full["a"]], [float(x) for x in full["p"]], full["size"], full["replace"])
            else:
                fail(kind + "-choice-call", "np.random.choice is not called as choice(a, size, True, p)", args=repr(ca)[:200])
        line += [str(len(sample or []))] + [str(s) for s in (sample or [])]
    out.line = " ".join(line)

    if exc is not None:
        out.obs = ("err", exc)
    else:
        out.obs = observe(res)

    # ---- validity of the call, decided by the harness from the documented domain
    pinfo = None
    if kind in ("prob", "dir") and valid:
        pinfo = prob_expectation(X, f, t, ci, a["cp"] if kind == "prob" else
                                 list(zip([k for k, _ in a["alpha"]], out.info.get("dirichlet", []))))
        out.margin = pinfo["margin"]
        valid = pinfo["valid"]
        if kind == "dir" and len(a["alpha"]) < len(set(X[:, ci].tolist())):
            valid = False     # documented domain: alpha names ALL labels
        out.info["absent"] = pinfo["absent"]
        out.info["sum_above_one"] = pinfo["sum_spec"] > 1.0
    if not valid:
        out.info["invalid"] = True
        return out
    if out.obs[0] != "ok":
        fail(kind + "-raised-on-valid-input", "the injector raised / returned no table on a valid call", outcome=repr(out.obs))
        return out

    _, tag, rn, rw, rlabels, Y = out.obs
    # ---- container type, shape, labels
    want_tag = "A" if case["container"].startswith("nd") else "F"
    if tag != want_tag:
        fail(kind + "-container-type", "container type differs from the input's", got=tag)
    if (rn, rw) != (n, w):
        fail(kind + "-shape", "shape differs from the input's", got=[rn, rw])
        return out
    if want_tag == "F" and tag == "F" and rlabels != list(case["labels"]):
        fail(kind + "-labels", "column labels differ from the input's", got=rlabels)
    if tag != want_tag:
        pass
    elif want_tag == "F":
        if not res.index.equals(type(res.index)(range(n))) and list(res.index) != list(range(n)):
            fail(kind + "-row-index", "returned frame does not carry the default row index")
        if case["container"] == "df-m" and list(res.dtypes) != list(data.dtypes):
            out.info["dtype_changed"] = True
    elif res.dtype != data.dtype:
        fail(kind + "-dtype", "ndarray dtype differs from the input's", got=str(res.dtype))
    # ---- frame conditions
    outside = [i for i in range(n) if not (f <= i < t)]
    inside = list(range(f, t))
    if not np.array_equal(Y[outside], X[outside]):
        fail(kind + "-outside-window-changed", "a row outside [from, to) changed",
             rows=[i for i in outside if not np.array_equal(Y[i], X[i])])
    if kind not in ("prob", "dir"):
        others = [j for j in range(w) if j not in targets]
        if not np.array_equal(Y[:, others], X[:, others]):
            fail(kind + "-other-columns-changed", "a column other than the targeted one(s) changed",
                 columns=[j for j in others if not np.array_equal(Y[:, j], X[:, j])])
    out.changed = not np.array_equal(X, Y)

    # ---- documented effect inside the window
    W, V = X[inside], Y[inside]
    if kind == "swap":
        c1, c2 = targets
        if not (np.array_equal(V[:, c1], W[:, c2]) and np.array_equal(V[:, c2], W[:, c1])):
            fail("swap-spec", "the two columns are not exchanged inside the window")
        res2, exc2, _ = call(instance, res, args, {}, seed)
        o2 = observe(res2) if exc2 is None else ("err", exc2)
        if o2[0] != "ok" or o2[5].shape != X.shape or not np.array_equal(o2[5], X):
            fail("swap-involution", "applying the swap twice does not restore the input")
    elif kind == "lswap":
        c1, c2 = a["c1"], a["c2"]
        col0 = W[:, ci]
        exp = np.where(col0 == c2, c1, np.where(col0 == c1, c2, col0))
        if not np.array_equal(V[:, ci], exp):
            fail("lswap-spec", "the two classes are not exchanged inside the window")
        res2, exc2, _ = call(instance, res, args, {}, seed)
        o2 = observe(res2) if exc2 is None else ("err", exc2)
        if o2[0] != "ok" or o2[5].shape != X.shape or not np.array_equal(o2[5], X):
            fail("lswap-involution", "applying the class swap twice does not restore the input")
    elif kind == "ljoin":
        col0 = W[:, ci]
        exp = np.where((col0 == a["c1"]) | (col0 == a["c2"]), a["new"], col0)
        if not np.array_equal(V[:, ci], exp):
            fail("ljoin-spec", "the two classes are not merged into the new class inside the window")
    elif kind == "shift":
        if len(inside):
            delta = a["shift_factor"] * (a["alpha"] + math.fsum(W[:, ci]) / len(inside))
            exp = W[:, ci] + delta
            if not all(core.close(float(x), float(y)) for x, y in zip(V[:, ci], exp)):
                if integer:
                    fail("int-dtype-truncation", "integer data: the shifted column is truncated back to integers, "
                         "the shift differs from shift_factor*(alpha+window mean)", injector="FeatureShiftInjector")
                    out.info["int_truncation"] = True
                else:
                    fail("shift-spec", "the column is not shifted by shift_factor*(alpha + window mean)",
                         expected=[float(x) for x in exp], got=[float(x) for x in V[:, ci]])
        out.skip_model = integer
    elif kind == "brown":
        steps = t - f
        ds = [int(x) for x in tap_draws(tap.choice)]
        if len(ds) != max(steps - 1, 0):
            fail("brown-draw-count", "the random walk does not draw steps-1 steps", draws=len(ds), steps=steps)
        else:
            wv, cur = [], float(a["x0"])
            for k in range(steps):
                if k > 0:
                    cur = cur + ds[k - 1] / math.sqrt(steps)
                wv.append(cur)
            exp = W[:, ci] + np.array(wv, dtype=np.float64).reshape(len(inside))
            if not all(core.close(float(x), float(y)) for x, y in zip(V[:, ci], exp)):
                if integer:
                    fail("int-dtype-truncation", "integer data: the noisy column is truncated back to integers",
                         injector="BrownianNoiseInjector")
                    out.info["int_truncation"] = True
                else:
                    fail("brown-spec", "the noise added is not the random walk starting at x0",
                         expected=[float(x) for x in exp], got=[float(x) for x in V[:, ci]])
        out.skip_model = integer
    elif kind in ("prob", "dir"):
        # resampled rows come only from rows of the window
        wrows = {tuple(r) for r in W.tolist()}
        if any(tuple(r) not in wrows for r in V.tolist()):
            fail(kind + "-resample-outside-window", "a resampled row is not a row of the window")
        if len(inside) == 0:
            if tap.choice:
                fail(kind + "-empty-window-draw", "draws were made for an empty window")
        elif out.p is None:
            fail(kind + "-no-draw", "no np.random.choice call recorded for a non-empty window")
        else:
            grouped, p, size, repl = out.p
            if sorted(grouped) != inside:
                fail(kind + "-population", "the population handed to np.random.choice is not the window", population=grouped)
            if size != len(inside) or repl is not True:
                fail(kind + "-choice-size", "np.random.choice is not asked for to-from draws with replacement", size=repr(size), replace=repr(repl))
            if sample is not None and len(sample) == len(inside) and all(0 <= s < n for s in sample):
                if not np.array_equal(V, X[sample]):
                    fail(kind + "-resample-assignment", "window rows are not the rows drawn by np.random.choice, in order")
            # the probability vector: non-negative, sums to one, class masses as requested
            if len(p) != len(grouped):
                fail(kind + "-p-length", "probability vector and population differ in length")
            else:
                if any(x < 0 for x in p):
                    fail(kind + "-p-negative", "negative sampling probability", p=p)
                if not core.close(math.fsum(p), 1.0):
                    fail(kind + "-p-sum", "sampling probabilities do not sum to one", total=math.fsum(p))
                for c_, (k_, mass) in pinfo["mass"].items():
                    got = math.fsum(pp for g, pp in zip(grouped, p) if X[g, ci] == c_)
                    if not core.close(got, mass, rel=1e-9, abs_=1e-12):
                        fail(kind + "-class-mass", "a class present in the window does not get the requested probability mass",
                             label=c_, expected=mass, got=got, p=p)
                order = [X[g, ci] for g in grouped]
                if order != sorted(order) or any(grouped[i] > grouped[i + 1] and order[i] == order[i + 1] for i in range(len(grouped) - 1)):
                    out.info["population_order_differs"] = True
    return out


def prob_expectation(X, f, t, ci, cp):
    """what LabelProbabilityInjector is documented to do with `cp` (pairs) on column ci, window [f,t)"""
    classes = sorted(set(X[:, ci].tolist()))
    keys = [float(k) for k, _ in cp]
    vals = [float(v) for _, v in cp]
    s = math.fsum(vals)
    undef = [c for c in classes if c not in keys]
    valid = s <= 1.0 + 1e-12 and all(k in classes for k in keys) and all(v >= 0 for v in vals) and len(keys) == len(set(keys))
    # the one float decision of the code: reject iff sum > 1 and |sum - 1| > 1e-12 (margin relative to the tolerance)
    margin = abs(abs(s - 1.0) - 1e-12) / 1e-12 if s > 1.0 else 1.0
    full = dict(zip(keys, vals))
    for u in undef:
        full[u] = (1.0 - s) / len(undef)
    if undef and (1.0 - s) < 0:
        valid = False
    win = X[f:t, ci].tolist()
    present = [c for c in classes if c in win]
    m = len(win)
    mass = {}
    if m:
        left = (1.0 - math.fsum(full.get(c, 0.0) for c in present)) / m
        for c in present:
            k = win.count(c)
            mass[c] = (k, full.get(c, 0.0) + k * left)
    return {"valid": valid, "margin": margin, "mass": mass, "sum_spec": s,
            "absent": len(present) < len(classes) and m > 0}


def evaluate_cover(case, inj_mod, out, data, keep, X, instance):
    a = case["args"]
    n, w = X.shape
    col = pyval(a["col"])
    # FeatureCoverInjector turns an ndarray into a frame labelled 0..w-1: same positions
    ci = col_index(case, a["col"])
    ss, mode, seed = a["sample_size"], a["mode"], case["seed"]

    def fail(fclass, what, **detail):
        out.fails.append((fclass, what, detail))

    inj = instance
    draws = None
    if mode == "none":
        res, exc, tap = call(inj, data, (col, ss), {}, seed)
        draws = [[int(x) for x in np.asarray(r).ravel()] for (_, _, r) in tap.choice]
        calls = [(c[0], c[1]) for c in tap.choice]
    else:
        rs = TapRS(seed)
        res, exc, tap = call(inj, data, (col, ss), {"random_state": rs}, seed)
        draws = [[int(x) for x in np.asarray(r).ravel()] for (_, _, r) in rs.calls]
        calls = [(c[0], c[1]) for c in rs.calls]
        if mode == "int":   # twin: an integer seed must give what RandomState(seed) gives
            res_i, exc_i, _ = call(inj, build(case), (col, ss), {"random_state": seed}, seed)
            oi = observe(res_i) if exc_i is None else ("err", exc_i)
            ot = observe(res) if exc is None else ("err", exc)
            if oi[0] != ot[0] or (oi[0] == "ok" and (oi[1:5] != ot[1:5] or not np.array_equal(oi[5], ot[5]))) \
                    or (oi[0] != "ok" and oi != ot):
                fail("cover-random-state", "random_state=int does not give the sample of RandomState(int)")
    if not same_object(keep, data):
        fail("input-mutated", "the caller's data object changed during the call")
    out.obs = ("err", exc) if exc is not None else observe(res)
    out.line = " ".join(["cover"] + data_tokens(case) + [a["col"], str(ss), str(len(draws))] +
                        [x for d in draws for x in [str(len(d))] + [str(v) for v in d]])
    if ci is None:
        out.info["invalid"] = True
        return out
    keys = sorted(set(X[:, ci].tolist()))
    if not keys:
        out.info["invalid"] = True
        return out
    per = ss // len(keys)
    groups = [[i for i in range(n) if X[i, ci] == k] for k in keys]
    if any(len(g) < per for g in groups):
        out.info["invalid"] = True
        return out
    if out.obs[0] != "ok":
        fail("cover-raised-on-valid-input", "the injector raised / returned no table on a valid call", outcome=repr(out.obs))
        return out
    _, tag, rn, rw, rlabels, Y = out.obs
    want_tag = "A" if case["container"].startswith("nd") else "F"
    if tag != want_tag:
        fail("cover-container-type", "container type differs from the input's", got=tag)
    if (rn, rw) != (per * len(keys), w - 1):
        fail("cover-shape", "shape is not (sample per group x groups, width-1)", got=[rn, rw], expected=[per * len(keys), w - 1])
        return out
    if want_tag == "F" and tag == "F":
        if rlabels != [l for j, l in enumerate(case["labels"]) if j != ci]:
            fail("cover-labels", "column labels are not the input's minus the hidden column", got=rlabels)
        if list(res.index) != list(range(rn)):
            fail("cover-row-index", "returned frame does not carry the default row index")
    keepc = [j for j in range(w) if j != ci]
    # independent of the draws: block g consists of `per` distinct rows of group g
    for gi, g in enumerate(groups):
        pool = [tuple(X[i, keepc].tolist()) for i in g]
        for r in Y[gi * per:(gi + 1) * per].tolist():
            if tuple(r) in pool:
                pool.remove(tuple(r))
            else:
                fail("cover-sample-per-group", "a returned row is not a (not yet used) row of its group with the column hidden",
                     group=keys[gi], row=r)
                break
    # through the draws: exactly the drawn rows, in order
    if len(draws) != len(groups) or any(len(d) != per or len(set(d)) != per or any(not (0 <= v < len(g)) for v in d)
                                        for d, g in zip(draws, groups)):
        fail("cover-draws", "the recorded draws are not `per` distinct positions per group", draws=draws, calls=repr(calls)[:300])
    else:
        exp = [X[g[v], keepc].tolist() for d, g in zip(draws, groups) for v in d]
        if exp != Y.tolist():
            fail("cover-spec", "returned rows are not the drawn rows of each group (groups in key order) with the column hidden")
    out.changed = True
    return out


# ----------------------------------------------------------------------------- model comparison
def parse_model(s):
    ts = s.split(" ")
    if ts[0] == "err":
        return ("err", ts[1])
    if ts[0] != "ok":
        return ("bad", s)
    i = 1
    tag = ts[i]; n = int(ts[i + 1]); w = int(ts[i + 2]); i += 3
    labels = None
    if tag == "F":
        labels = ts[i:i + w]; i += w
    cells = np.array([core.b2f(x) for x in ts[i:i + n * w]], dtype=np.float64).reshape(n, w)
    i += n * w
    plan = None
    if i < len(ts) and ts[i] == "P":
        k = int(ts[i + 1]); i += 2
        plan = ([int(x) for x in ts[i:i + k]], [core.b2f(x) for x in ts[i + k:i + 2 * k]])
    return ("ok", tag, n, w, labels, cells, plan)


def compare(ctx, case, out, mline):
    """model vs implementation on the property's observables"""
    kind = case["inj"]
    mo = parse_model(mline)
    io = out.obs
    if mo[0] == "bad":
        raise core.Infra("driver output not understood: " + mline[:200])
    thin = out.margin is not None and out.margin < 1e-3
    if io[0] != "ok" and mo[0] != "ok":
        if mo[1] != io[1]:
            ctx.mismatch(component="inject." + kind, case=case, impl=repr(io), model=mline,
                         what="both reject, with different exceptions")
        return
    if io[0] != "ok" or mo[0] != "ok":
        if thin:
            ctx.thin += 1
            return
        if io[0] != "ok" and not out.info.get("invalid"):
            return   # already reported as raised-on-valid-input
        ctx.mismatch(component="inject." + kind, case=case, impl=repr(io)[:300], model=mline[:300],
                     what="one side rejects the call, the other returns a table")
        return
    _, tag, n, w, labels, Y = io
    _, mtag, mn, mw, mlabels, M, plan = mo
    diff = None
    if (tag, n, w) != (mtag, mn, mw):
        diff = "container/shape: impl %s model %s" % ((tag, n, w), (mtag, mn, mw))
    elif labels != mlabels:
        diff = "labels: impl %s model %s" % (labels, mlabels)
    else:
        if kind in ARITH:
            bad = [(i, j) for i in range(n) for j in range(w) if not core.close(float(Y[i, j]), float(M[i, j]))]
        else:
            bad = [(int(i), int(j)) for i, j in zip(*np.nonzero(Y != M))]
        if bad:
            i, j = bad[0]
            diff = "cell (%d,%d): impl %r model %r" % (i, j, float(Y[i, j]), float(M[i, j]))
    if diff is None and kind in ("prob", "dir") and (plan is not None or out.p is not None):
        g_i, p_i = (out.p[0], out.p[1]) if out.p is not None else ([], [])
        g_m, p_m = plan if plan is not None else ([], [])
        if g_i != g_m:
            diff = "np.random.choice population: impl %s model %s" % (g_i, g_m)
        elif len(p_i) != len(p_m) or any(not core.close(x, y, abs_=1e-15) for x, y in zip(p_i, p_m)):
            diff = "np.random.choice p: impl %s model %s" % (p_i, p_m)
    if diff is not None:
        # the Lean theorems connect the model to the documented effect: a differing observable is a failing input
        ctx.fail(signature={"class": kind + "-differs-from-model"}, what="returned table differs from the Lean model's: " + diff,
                 case=case, impl=repr(io)[:600], model=mline[:600])


# ----------------------------------------------------------------------------- generators
def make_table(rng, container, n, w, nclasses=3):
    """features: dyadic multiples of 1/4 (exact sums); last column: class labels 0..nclasses-1"""
    cells = []
    for _ in range(n):
        if is_int(container):
            feats = [float(rng.integers(-4, 5)) for _ in range(w - 1)]
        else:
            feats = [float(rng.integers(-16, 17)) / 4.0 for _ in range(w - 1)]
        cells.append(feats + [float(rng.integers(0, nclasses))])
    labels = None
    if container.startswith("df"):
        if container == "df-r":
            perm = list(rng.permutation(w))
            labels = ["i%d" % int(p) for p in perm]
        else:
            labels = ["s" + nm for nm in (["a", "b", "c", "d", "e", "f"][:w - 1] + ["y"])]
    return cells, labels


def col_tokens(container, labels, w):
    return ["i%d" % j for j in range(w)] if container.startswith("nd") else list(labels)


def bad_col_tokens(container, w):
    return ["i%d" % w, "szz"] if container.startswith("nd") else ["szz", "i%d" % (w + 3)]


PROB_MENU = [
    [], [(0.0, 0.5)], [(0.0, 0.25), (1.0, 0.25)], [(0.0, 0.5), (1.0, 0.25), (2.0, 0.25)], [(1.0, 1.0)],
    [(2.0, 0.0)], [(0.0, 0.75), (1.0, 0.5)], [(7.0, 0.5)], [(1.0, -0.25)], [(2.0, 0.125), (0.0, 0.375)],
    [(0.0, 0.5), (1.0, 0.5 + 2.0 ** -41)], [(0.0, 0.5), (1.0, 0.5 + 2.0 ** -39)],
]
DIR_MENU = [[(0.0, 4), (1.0, 1), (2.0, 2)], [(2.0, 1), (0.0, 1), (1.0, 1)], [(0.0, 3), (1.0, 1)]]
CLASS_MENU = [(0.0, 1.0), (1.0, 2.0), (2.0, 0.0), (1.0, 1.0), (0.0, 7.0)]
JOIN_MENU = [(0.0, 1.0, 5.0), (1.0, 2.0, 1.0), (2.0, 7.0, 0.0)]
SHIFT_MENU = [(0.5, 0.001), (-0.25, 0.125), (2.0, 0.001), (0.0, 0.001), (1.5, 0.0)]      # alpha = 0 is legal
X0_MENU = [(0.0, None), (0.5, 11), (-1.0, None), (3, 5), (0.25, 0)]      # random_state = 0 is a seed, not 'no seed'


def window_cases(rng, container, cells, labels, w, f, t, seedbase, rich):
    """all column / class / probability choices for one table and one window"""
    cols = col_tokens(container, labels, w)
    ycol = cols[-1]
    base = {"container": container, "labels": labels, "cells": cells, "width": w}
    k = [0]

    def mk(inj, **args):
        k[0] += 1
        args.update({"from": f, "to": t})
        return dict(base, inj=inj, args=args, seed=int(seedbase + k[0]))

    for c1 in cols:
        for c2 in cols:
            yield mk("swap", col=c1, col2=c2)
    for ci, c in enumerate(cols):
        sf, al = SHIFT_MENU[(ci + f + t) % len(SHIFT_MENU)]
        yield mk("shift", col=c, shift_factor=sf, alpha=al)
        x0, rs = X0_MENU[(ci + f + 2 * t) % len(X0_MENU)]
        yield mk("brown", col=c, x0=x0, random_state=rs)
        if rich:
            sf, al = SHIFT_MENU[(ci + f + t + 1) % len(SHIFT_MENU)]
            yield mk("shift", col=c, shift_factor=sf, alpha=al)
            x0, rs = X0_MENU[(ci + f + 2 * t + 1) % len(X0_MENU)]
            yield mk("brown", col=c, x0=x0, random_state=rs)
    for (a, b) in CLASS_MENU:
        yield mk("lswap", col=ycol, c1=a, c2=b)
    for (a, b, nw) in JOIN_MENU:
        yield mk("ljoin", col=ycol, c1=a, c2=b, new=nw)
    # label injectors on a feature column: classes are values of that column
    if cells:
        v = sorted({r[0] for r in cells})
        a, b = v[0], v[-1]
        yield mk("lswap", col=cols[0], c1=a, c2=b)
        yield mk("ljoin", col=cols[0], c1=a, c2=b, new=9.0)
    # six-digit class codes that differ by 1 (ids, postcodes): classes are compared exactly, whatever their magnitude
    if cells and (f + t) % 3 == 0:
        big = dict(base, cells=[list(r[:-1]) + [float(r[-1]) + 100001.0] for r in cells])
        for (a, b) in ((100001.0, 100002.0), (100002.0, 100003.0), (100003.0, 100001.0)):
            k[0] += 1
            yield dict(big, inj="lswap", args={"col": ycol, "c1": a, "c2": b, "from": f, "to": t}, seed=int(seedbase + k[0]))
        k[0] += 1
        yield dict(big, inj="ljoin", args={"col": ycol, "c1": 100001.0, "c2": 100002.0, "new": 100009.0, "from": f, "to": t}, seed=int(seedbase + k[0]))
    for cp in PROB_MENU:
        yield mk("prob", col=ycol, cp=[list(x) for x in cp])
    for al in DIR_MENU:
        yield mk("dir", col=ycol, alpha=[list(x) for x in al])
    if f == 0 and t == len(cells):   # rejected column arguments (once per table)
        for bc in bad_col_tokens(container, w):
            yield mk("swap", col=cols[0], col2=bc)
            yield mk("shift", col=bc, shift_factor=0.5, alpha=0.001)
            yield mk("lswap", col=bc, c1=0.0, c2=1.0)
            yield mk("brown", col=bc, x0=0.0, random_state=None)
            yield mk("prob", col=bc, cp=[])


def cover_cases(container, cells, labels, w, seedbase):
    cols = col_tokens(container, labels, w)
    base = {"container": container, "labels": labels, "cells": cells, "width": w}
    n = len(cells)
    k = 0
    for c in [cols[-1], cols[0]] + bad_col_tokens(container, w)[:1]:
        for ss in sorted({0, 1, 2, 3, 4, 6, n, n + 2}):
            for mode in ("none", "tap", "int"):
                k += 1
                if mode == "int" and ss % 2:
                    continue
                yield dict(base, inj="cover", args={"col": c, "sample_size": ss, "mode": mode}, seed=int(seedbase + k))


def corpus_cases():
    """regression cases (repaired defects): every one must return a table and agree with the model"""
    d = os.path.join(core.ROOT, "corpus", "C20")
    for fn in sorted(os.listdir(d)) if os.path.isdir(d) else []:
        if fn.endswith(".json"):
            c = json.load(open(os.path.join(d, fn)))
            c["case"]["corpus"] = fn
            yield c["case"]


REUSE_CHAINS = [   # (containers, widths) called one after the other on ONE injector object; the last one is the case
    [("df-f", 3), ("nd-f", 3)], [("nd-f", 3), ("df-f", 3)], [("df-f", 3), ("nd-f", 4)], [("nd-f", 4), ("df-f", 3)],
    [("df-f", 4), ("nd-f", 3)], [("df-f", 3), ("df-f", 4)], [("df-f", 3), ("nd-f", 3), ("df-r", 3)], [("df-r", 3), ("nd-i", 3)],
    [("nd-f", 3), ("df-f", 3), ("nd-f", 3), ("df-f", 3)], [("df-m", 3), ("nd-f", 3), ("nd-f", 3)],
]


def simple_case(rng, kind, container, w, f, t, seed):
    """one ordinary call of `kind` on a fresh 6-row table that has all three classes"""
    cells, labels = make_table(rng, container, 6, w)
    for i, r in enumerate(cells):
        r[-1] = float(i % 3)
    cols = col_tokens(container, labels, w)
    args = {"swap": {"col": cols[0], "col2": cols[1]}, "shift": {"col": cols[0], "shift_factor": 0.5, "alpha": 0.001},
            "lswap": {"col": cols[-1], "c1": 0.0, "c2": 1.0}, "ljoin": {"col": cols[-1], "c1": 0.0, "c2": 1.0, "new": 5.0},
            "brown": {"col": cols[0], "x0": 0.5, "random_state": None}, "prob": {"col": cols[-1], "cp": [[0.0, 0.5]]},
            "dir": {"col": cols[-1], "alpha": [[0.0, 4], [1.0, 1], [2.0, 2]]},
            "cover": {"col": cols[-1], "sample_size": 3, "mode": "none"}}[kind]
    if kind != "cover":
        args.update({"from": f, "to": t})
    return {"container": container, "labels": labels, "cells": cells, "width": w, "inj": kind, "args": args, "seed": int(seed)}


def reuse_cases(ctx, rng):
    """a long-lived injector object called on interleaved DataFrame / ndarray inputs (both orders, same and different widths)"""
    for rep in range(1 if ctx.quick else 6):
        for kind in ("shift", "swap", "lswap", "ljoin", "brown", "prob", "dir", "cover"):
            for chain in REUSE_CHAINS:
                for (f, t) in ((1, 4), (0, 6), (3, 3)):
                    sb = int(rng.integers(1, 2**31 - 100))
                    cs = [simple_case(rng, kind, c, w, f, t, sb + i) for i, (c, w) in enumerate(chain)]
                    yield dict(cs[-1], prior=cs[:-1])


def all_cases(ctx):
    yield from corpus_cases()
    yield from reuse_cases(ctx, np.random.default_rng(ctx.seed + 4242))
    rng = np.random.default_rng(ctx.seed)
    nmax = 8
    tables = 1 if ctx.quick else 4
    # exhaustive small space
    for container in CONTAINERS:
        # quick tier: every window for n <= 8 on float ndarrays / DataFrames, n <= 6 on the other container kinds
        top = nmax if not ctx.quick else {"nd-f": 8, "df-f": 8, "nd-i": 6}.get(container, 5)
        for n in range(0, top + 1):
            for rep in range(tables):
                w = 3 if rep % 2 == 0 else 2 + int(rng.integers(0, 3))
                cells, labels = make_table(rng, container, n, w)
                sb = int(rng.integers(1, 2**31 - 10**6))
                for f in range(0, n + 1):
                    for t in range(f, n + 1):
                        yield from window_cases(rng, container, cells, labels, w, f, t, sb + 1000 * (f * (nmax + 1) + t), rich=not ctx.quick)
                yield from cover_cases(container, cells, labels, w, sb + 500000)
    # random larger tables, boundary-seeking windows
    big = 30 if ctx.quick else 600
    for i in range(big):
        container = CONTAINERS[i % len(CONTAINERS)]
        n = int(rng.integers(9, 41))
        w = int(rng.integers(2, 6))
        cells, labels = make_table(rng, container, n, w, nclasses=int(rng.integers(2, 5)))
        sb = int(rng.integers(1, 2**31 - 10**6))
        wins = {(0, n), (0, 0), (n, n)}
        while len(wins) < 6:
            f = int(rng.integers(0, n + 1)); t = int(rng.integers(f, n + 1))
            wins.add((f, t))
        for (f, t) in sorted(wins):
            yield from window_cases(rng, container, cells, labels, w, f, t, sb + 1000 * (f * 50 + t), rich=False)
        yield from cover_cases(container, cells, labels, w, sb + 500000)


# ----------------------------------------------------------------------------- run
def report(ctx, case, out, known_seen):
    for (cls, what, detail) in out.fails:
        if cls in KNOWN_CLASSES:
            # listed in known-findings.txt: report a couple of witnesses only, so that they cannot crowd out other failures
            known_seen[cls] = known_seen.get(cls, 0) + 1
            if known_seen[cls] > 2:
                continue
        ctx.fail(signature={"class": cls}, what=what, case=case, impl=repr(out.obs)[:600], **detail)


def run(ctx):
    import menelaus.injection as inj_mod
    import warnings
    warnings.simplefilter("ignore")     # np.mean of an empty window warns (the window is empty, nothing is written)
    ctx.rule = ("one case = (injector, container, table, window, column/class/probability arguments); exhaustive: every window "
                "0<=from<=to<=n for n<=8 (quick tier: n<=8 on float ndarray / DataFrame, n<=6 on int ndarray, n<=5 on int / mixed / integer-labelled DataFrames) on every container kind x every column (pair) x the class / probability menus; plus random "
                "tables with 9..40 rows; plus, per injector class, one object called on interleaved DataFrame / ndarray inputs (both orders, same and different widths); a case is non-trivial when the call returned a table that differs from the input "
                "(cover: returned a sample); distinct = distinct (injector, container, cells, arguments)")
    ctx.exhaustive = True
    lines = ["new inject"]
    pending = []
    known_seen = {}
    for case in all_cases(ctx):
        try:
            out = evaluate(case, inj_mod)
        except core.Infra:
            raise
        except Exception:   # never abort the run: an adapter that cannot digest what a changed tree does is a broken correspondence
            ctx.count("harness-exception")
            ctx.mismatch(component="inject." + case["inj"], case=case, what="harness-side exception while evaluating the case",
                         traceback=traceback.format_exc()[-1500:])
            continue
        kind = case["inj"]
        if case.get("prior"):
            ctx.count("reuse")
        a = case["args"]
        ctx.case((kind, case["container"], case["cells"], sorted(a.items(), key=lambda kv: kv[0]).__repr__()), out.changed)
        ctx.count("inj:" + kind)
        ctx.count("container:" + case["container"])
        if kind != "cover":
            n = len(case["cells"])
            ctx.count("window:" + ("empty" if a["from"] == a["to"] else "full" if (a["from"], a["to"]) == (0, n) else "proper"))
            ctx.count("rows:" + ("<=8" if n <= 8 else ">8"))
        if out.obs[0] == "err":
            ctx.count("impl-raised:" + out.obs[1])
        for key in ("invalid", "absent", "dtype_changed", "int_truncation", "tolerance", "clamped", "population_order_differs"):
            if out.info.get(key):
                ctx.count(kind + ":" + key)
        if kind in ("prob", "dir") and out.p is not None:
            ctx.count(kind + ":drawn")
        if case.get("corpus"):
            ctx.count("corpus")
            if out.obs[0] != "ok" and not any(fc.endswith("raised-on-valid-input") for fc, _, _ in out.fails):
                out.fails.append(("corpus-case-fails", "a corpus case (repaired defect) no longer returns a table", {"file": case["corpus"]}))
        if kind in ("prob", "dir") and out.info.get("sum_above_one") and not out.info.get("invalid"):
            ctx.count(kind + ":tolerance")     # specified sum in (1, 1 + 1e-12]: must be accepted
        if kind in ("prob", "dir") and out.p is not None and any(x == 0.0 for x in out.p[1]):
            ctx.count(kind + ":p-has-zero")
        report(ctx, case, out, known_seen)
        if len(ctx.samples) < 4 and out.changed and ctx.evaluations % 97 == 0:
            ctx.sample({"case": case, "impl": repr(out.obs)[:300], "model_op": out.line[:300]})
        if not out.skip_model:
            lines.append(out.line)
            pending.append((case, out))
        else:
            ctx.count("model-skipped-int-arith")
    res = core.run_driver(lines)
    if res[0] != "ok":
        raise core.Infra("driver rejected `new inject`")
    for (case, out), mline in zip(pending, res[1:]):
        if mline == "bad-op":
            raise core.Infra("driver could not parse: " + out.line[:200])
        ctx.traces += 1
        try:
            compare(ctx, case, out, mline)
        except core.Infra:
            raise
        except Exception:
            ctx.count("harness-exception")
            ctx.mismatch(component="inject." + case["inj"], case=case, what="harness-side exception while comparing with the model",
                         traceback=traceback.format_exc()[-1500:])
    if not ctx.quick:
        chi2_test(ctx, inj_mod)
    # the input distribution must not degenerate
    need = ["window:empty", "window:full", "window:proper", "prob:absent", "prob:drawn", "dir:drawn", "prob:invalid", "corpus", "prob:tolerance", "reuse"] + \
           ["inj:" + k for k in ("shift", "swap", "lswap", "ljoin", "brown", "prob", "dir", "cover")]
    missing = [k for k in need if not ctx.stats.get(k)]
    if missing:
        raise core.Infra("degenerate input distribution, never reached: %s" % missing)


def chi2_test(ctx, inj_mod):
    """a statistical TEST (not a proof): resampled class frequencies follow the requested probabilities"""
    from scipy.stats import chi2
    rng = np.random.default_rng(ctx.seed + 77)
    n, f, t = 60, 10, 50
    y = np.array([i % 3 for i in range(n)], dtype=float)
    X = np.column_stack([rng.integers(-8, 9, n) / 4.0, y])
    cp = {0.0: 0.5, 1.0: 0.125}
    want = {0.0: 0.5, 1.0: 0.125, 2.0: 0.375}
    counts = {0.0: 0, 1.0: 0, 2.0: 0}
    reps = 300
    for r in range(reps):
        np.random.seed(int(rng.integers(0, 2**31)))
        R = inj_mod.LabelProbabilityInjector()(X, f, t, 1, dict(cp))
        for v in R[f:t, 1].tolist():
            counts[v] = counts.get(v, 0) + 1
    tot = reps * (t - f)
    stat = sum((counts[c] - tot * want[c]) ** 2 / (tot * want[c]) for c in want)
    pval = float(chi2.sf(stat, len(want) - 1))
    ctx.extra["chi2_frequency_test"] = {"kind": "statistical test, not a proof", "draws": tot, "counts": counts,
                                        "requested": want, "chi2": stat, "p_value": pval}
    if pval < 1e-9:
        ctx.fail(signature={"class": "prob-frequency-test"}, what="resampled class frequencies are far from the requested probabilities (chi-square test)",
                 counts=counts, requested=want, p_value=pval)


def search(ctx, mismatches):
    """a broken correspondence without a failing input: re-evaluate the property clauses on the mismatching cases and
    on the same arguments over every window of the same table"""
    import menelaus.injection as inj_mod
    found = []
    for m in mismatches[:10]:
        case = m.get("case")
        if not isinstance(case, dict) or case.get("inj") == "cover":
            continue
        n = len(case["cells"])
        for f in range(0, n + 1):
            for t in range(f, n + 1):
                c2 = json.loads(json.dumps(case))
                c2["args"]["from"], c2["args"]["to"] = f, t
                out = evaluate(c2, inj_mod)
                for (cls, what, detail) in out.fails:
                    if cls not in KNOWN_CLASSES:
                        found.append({"signature": {"class": cls}, "what": what, "case": c2, "impl": repr(out.obs)[:600], **detail})
                if len(found) >= 5:
                    return found
    return found


def replay(ctx, path):
    import menelaus.injection as inj_mod
    import warnings
    warnings.simplefilter("ignore")
    r = json.load(open(path))
    case = r.get("case")
    if not isinstance(case, dict):
        print(json.dumps(r, indent=1)[:4000])
        return 0
    out = evaluate(case, inj_mod)
    mline = core.run_driver(["new inject", out.line])[1]
    print("case     :", json.dumps(case))
    print("impl     :", repr(out.obs)[:1500])
    print("model    :", mline[:1500])
    for (cls, what, detail) in out.fails:
        print("FAILS    :", cls, "-", what, json.dumps(detail, default=str)[:600])
    c2 = core.Ctx(ctx.prop, ctx.tier, ctx.seed)
    if not out.skip_model:
        compare(c2, case, out, mline)
    for f in c2.failing + c2.mismatches:
        print("MODEL    :", f.get("what"))
    return 1 if (out.fails or c2.failing or c2.mismatches) else 0
