"""
C19 — MD3 follows its warn / ask-the-oracle / confirm protocol.

Three things happen on every explored call of the real `menelaus.concept_drift.MD3`:

  * correspondence: the same call goes to the Lean model (Model/MD3.lean through
    `mdriver`) and every observable is compared (discrete ones exactly, numeric ones with
    `core.close`);
  * protocol clauses evaluated directly on the implementation's trace (`prescribe`):
    from the implementation's *own* observables before the call, the call, and the
    harness's own copy of the labelled samples, what the property prescribes for the
    observables after the call (refusal rules, unchanged state after a refusal, margin
    density recurrence with lambda=(N-1)/N, warning iff |md-md_ref| > s*md_std, exactly N
    labels, drift iff acc_ref - correct/N > s*acc_std, adoption of the new reference,
    restart of md, deprecated base counters).  A deviation is a failing input (`ctx.fail`);
  * over long random streams the margin density is also compared with the closed form
    lambda^t md0 + (1-lambda) sum lambda^(t-i) sig_i evaluated in exact rational arithmetic.

Exploration:
  plain   every sequence over the 7-symbol alphabet PLAIN (legal and illegal calls) up to a
          length, each prefix on its own deep copy of the detector (no reduction at all);
  reduced every sequence over the 17-symbol alphabet FULL up to a larger length, where the
          subtree below a *refused* call is cut only after verifying that the complete
          attribute state of the detector (deep comparison of `vars(det)`, data frames
          included) is identical to the state before the call — the continuations are then
          those of the parent node, which are explored to a greater remaining depth;
  random  long seeded streams with random reference batches, configurations and samples.

The reference statistics (len, md, md_std, acc, acc_std) are computed by the model (Model/MD3Ref.lean, `refStats`):
for the initial `set_reference` and for every adoption at the end of an oracle round the harness sends the k fold bit lists
(`ref_folds`: per fold, per test sample, in-margin bit and correctness bit under the classifier re-fitted on the fold's
training part — computed from the harness's own copy of the data with sklearn's public KFold / clone and the margin function
it handed to MD3); the model derives the per-fold ratios, the means, the population standard deviations (following numpy's
pairwise summation, so that the result is normally bit-identical) and the length, and its statistics are compared with the
ones the implementation exposes in `reference_distribution` (initially via the driver's `show`, afterwards on every call).
Independently of the model, the implementation's statistics are compared with (a) `ref_stats` — the same computation done
in Python with numpy — and (b) the declarative reading in exact rational arithmetic (mean over folds of count/size, variance
= sum of squared deviations / k), which is what Props/C19Ref.lean proves about the model (`refStats_md`, `mdVar_mul_k`, …).
"""
import copy, itertools, json, math, os, warnings
from fractions import Fraction
import numpy as np
import core

TRUST = [
    "sklearn KFold(shuffle, random_state=42) / clone: which rows form which fold, and the classifier re-fitted per fold, are oracle "
    "inputs: the harness recomputes the fold membership and, per test sample, the margin bit and the correctness bit from its own copy "
    "of the data with the public sklearn API and sends the bit lists; per-fold ratios, np.mean / np.std (population, numpy's pairwise "
    "summation order) and len are computed by the Lean model (Model/MD3Ref.lean)",
    "accuracy_score(y, pred) = fraction of equal entries; Python's int/int true division and numpy's float64 + - * / sqrt are IEEE "
    "correctly rounded like Lean's Float",
    "margin bit and correctness bit of a sample are oracle inputs, computed by the harness with the user margin function / "
    "classifier it handed to MD3 (a deterministic feature-asymmetric threshold classifier, score 2*col0 - col1 read positionally, "
    "whose fit() sets the threshold to the mean training score); the correctness bit is taken with the features in the current "
    "reference's column order, which after an adoption is the order of that round's first labelled sample (as the code has it)",
    "excluded: k larger than the reference size or than oracle_data_length_required (KFold undefined; DESIGN §6), NaN/inf data",
    "reduced exploration: a refused call is not extended further once vars(detector) compared deeply equal before/after it "
    "(determinism of the implementation on equal attribute state)",
    "multi-row / zero-row / wrong-column frames are built with pandas; pandas container plumbing (concat, column selection) trusted",
]

COLS = ["x1", "x2", "y"]
COLNUM = {"x1": 1, "x2": 2, "y": 3, "zz": 4, "w": 5}
NAN = float("nan")
OBS = ("drift", "waiting", "n_oracle", "total", "since", "oracle_req", "md", "lam",
       "ref_len", "ref_md", "ref_md_std", "ref_acc", "ref_acc_std")
NUMERIC = {"md", "lam", "ref_md", "ref_md_std", "ref_acc", "ref_acc_std"}


# ------------------------------------------------------------------ classifier / margin
class ThrClf:
    """score = 2*col0 - col1, read POSITIONALLY from whatever array / frame it is given (as sklearn estimators do), so that a
    permutation of the feature columns is visible; fit: threshold := mean training score; predict: score > threshold"""

    def __init__(self, width=1.0):
        self.width = width

    def get_params(self, deep=True):
        return {"width": self.width}

    def set_params(self, **p):
        for k_, v in p.items():
            setattr(self, k_, v)
        return self

    def fit(self, X, y=None):
        X = np.asarray(X, dtype=float)
        self.t_ = float(np.mean(2 * X[:, 0] - X[:, 1]))
        return self

    def decision_function(self, X):
        X = np.asarray(X, dtype=float)
        return 2 * X[:, 0] - X[:, 1] - self.t_

    def predict(self, X):
        return (self.decision_function(X) > 0).astype(int)


def margin(det, sample, clf):
    """user-supplied margin inclusion signal: |score - threshold| <= width"""
    return 1 if abs(2 * float(sample[0]) - float(sample[1]) - clf.t_) <= clf.width else 0


_STATS = {}


def ref_batch(rows, k, width=1.0):
    """what set_reference computes for a labelled batch (md3.py:135-208), three ways:
       stats  (len, md, md_std, acc, acc_std) with numpy, as the code does;
       folds  the k fold bit lists for the Lean model: one token per fold, one digit 2*in_margin + correct per test sample;
       exact  the declarative reading in exact rationals: (md, md variance, acc, acc variance, pooled md, pooled acc)"""
    key = (tuple(map(tuple, rows)), k, width)
    if key in _STATS:
        return _STATS[key]
    from sklearn.model_selection import KFold
    from sklearn.metrics import accuracy_score
    from sklearn.base import clone
    X = np.array([[r[0], r[1]] for r in rows], dtype=float)      # columns in the order the adopted frame has them
    y = np.array([r[2] for r in rows], dtype=int)
    dup = clone(ThrClf(width))
    mds, accs, folds, mdq, accq = [], [], [], [], []
    n_in = n_ok = 0
    for tr, te in KFold(n_splits=k, random_state=42, shuffle=True).split(X):
        dup.fit(X[tr], y[tr])
        sig = [margin(None, X[i], dup) for i in te]
        pred = dup.predict(X[te])
        ok = [int(int(p_) == int(t_)) for p_, t_ in zip(pred, y[te])]
        mds.append(sum(sig) / len(sig))
        accs.append(accuracy_score(y[te], pred))
        folds.append("".join(str(2 * s_ + o_) for s_, o_ in zip(sig, ok)))
        mdq.append(Fraction(sum(sig), len(sig))); accq.append(Fraction(sum(ok), len(ok)))
        n_in += sum(sig); n_ok += sum(ok)
    stats = (len(rows), float(np.mean(mds)), float(np.std(mds)), float(np.mean(accs)), float(np.std(accs)))
    mq, aq = sum(mdq) / k, sum(accq) / k
    exact = (mq, sum((x - mq) ** 2 for x in mdq) / k, aq, sum((x - aq) ** 2 for x in accq) / k,
             Fraction(n_in, len(rows)), Fraction(n_ok, len(rows)))
    r = (stats, folds, exact)
    _STATS[key] = r
    return r


def ref_stats(rows, k, width=1.0):
    """(len, md, md_std, acc, acc_std) of a labelled batch, with numpy as the code computes them"""
    return ref_batch(rows, k, width)[0]


def ref_folds(rows, k, width=1.0):
    return ref_batch(rows, k, width)[1]


def folds_tail(folds):
    """the `<ref>` part of a model line in fold form"""
    return f"F {len(folds)} " + " ".join(f if f else "-" for f in folds)


def spec_deviation(obs, rows, k, width):
    """the property's summary clause in exact arithmetic, on the statistics the implementation exposes (`obs` = observation
    tuple): md / acc = mean over the folds of count/size; md_std / acc_std = sqrt(sum of squared deviations / k); len = rows.
    -> name of the first deviating statistic or None"""
    mq, mv, aq, av, _, _ = ref_batch(rows, k, width)[2]
    want = {"ref_len": len(rows), "ref_md": float(mq), "ref_md_std": math.sqrt(float(mv)), "ref_acc": float(aq),
            "ref_acc_std": math.sqrt(float(av))}
    for f, w in want.items():
        x = obs[OBS.index(f)]
        if (x != w) if f == "ref_len" else not core.close(x, w):
            return f, w
    return None


def count_batch(acc, rows, k, width, where):
    """input distribution of the summarised batches"""
    stats, folds, exact = ref_batch(rows, k, width)
    sizes = {len(f) for f in folds}
    acc.count(f"refstats:{where}")
    acc.count("refstats:k>=8(numpy 8-lane branch)" if k >= 8 else "refstats:k<8")
    if len(sizes) > 1:
        acc.count("refstats:unequal-fold-sizes")
    if exact[0] != exact[4] or exact[2] != exact[5]:
        acc.count("refstats:fold-mean-differs-from-pooled-ratio")
    if exact[1] > 0 and exact[3] > 0:
        acc.count("refstats:both-deviations-positive")


# ------------------------------------------------------------------ configurations and symbols
class Sym:
    __slots__ = ("name", "kind", "rows", "cols", "frame", "sample", "sig", "correct", "legal_shape")

    def __init__(self, name, kind, data, cols):
        import pandas as pd
        self.name, self.kind, self.cols = name, kind, list(cols)
        self.rows = len(data)
        self.frame = pd.DataFrame([list(r) for r in data], columns=self.cols, dtype=float) if data else \
            pd.DataFrame({c: np.array([], dtype=float) for c in self.cols})
        if "y" in self.cols and len(set(self.cols)) == len(self.cols):
            self.frame["y"] = self.frame["y"].astype(int)
        self.sample = None      # (x1, x2, y, feature order in the frame) for a well-formed one-row labelled sample
        self.sig = 0
        self.correct = 0

    def model_cols(self):
        return f"{len(self.cols)} " + " ".join(str(COLNUM[c]) for c in self.cols)


class Config:
    """one detector configuration: reference rows [(x1, x2, y)], sensitivity, k, oracle length"""

    def __init__(self, name, ref_rows, sens, k, oracle_len, width=1.0):
        self.name, self.ref_rows, self.sens, self.k, self.oracle_len, self.width = name, [tuple(r) for r in ref_rows], sens, k, oracle_len, width
        self.clf = ThrClf(width).fit(np.array([[r[0], r[1]] for r in ref_rows], dtype=float))
        self.t = self.clf.t_
        self.N = oracle_len if oracle_len is not None else len(ref_rows)
        self.stats0 = ref_stats(self.ref_rows, k, width)
        self.folds0 = ref_folds(self.ref_rows, k, width)
        self.syms = {}

    def describe(self):
        return {"name": self.name, "reference_rows": [list(r) for r in self.ref_rows], "sensitivity": self.sens, "k": self.k,
                "oracle_data_length_required": self.oracle_len, "margin_width": self.width, "classifier_threshold": self.t,
                "reference_statistics": list(self.stats0), "reference_fold_bits": list(self.folds0)}

    # -- symbols ------------------------------------------------------------
    def update_sym(self, name, data, cols=("x1", "x2")):
        s = Sym(name, "u", data, cols)
        if s.rows >= 1:
            s.sig = margin(None, np.array(data[0], dtype=float), self.clf)
        self.syms[name] = s
        return s

    def label_sym(self, name, data, cols=("x1", "x2", "y")):
        s = Sym(name, "l", data, cols)
        if s.rows >= 1:
            # the row labels (DataFrame index) of a labelled sample carry no meaning for the protocol: a user passes table.iloc[[j]],
            # so the label is whatever position the row had in its table — here 0, 1 or 2 depending on the configuration
            j = len(self.ref_rows) % 3
            s.frame.index = [j + i for i in range(s.rows)]
        if s.rows == 1 and len(cols) == 3 and set(cols) == set(COLS):
            d = dict(zip(cols, data[0]))
            s.sample = (float(d["x1"]), float(d["x2"]), int(d["y"]), tuple(c for c in cols if c != "y"))
        self.syms[name] = s
        return s

    def pt(self, s, x2=0.0):
        """(x1, x2) whose score 2*x1 - x2 is the classifier's threshold + s"""
        return ((self.t + s + x2) / 2, x2)

    def standard_symbols(self):
        pt = self.pt
        self.update_sym("Ui", [pt(0.5)])                        # in the margin
        self.update_sym("Uo", [pt(8.0)])                        # outside
        self.update_sym("U2", [pt(0.5), pt(8.0)])               # two rows: refused
        self.update_sym("U0", [])                               # no row: refused
        self.update_sym("U3", [pt(0.25, 0.25) + (7.0,)], cols=("x1", "x2", "w"))   # extra column: update does not look at columns
        self.label_sym("Lc", [pt(8.0) + (1,)])                  # classifier right, outside the margin
        self.label_sym("Lw", [pt(-0.5) + (1,)])                 # classifier wrong, inside the margin
        self.label_sym("Ld", [pt(-8.0) + (0,)])                 # right, outside, other class
        self.label_sym("Lv", [pt(0.5) + (0,)])                  # wrong, inside
        # same set of columns, features swapped in the frame: accepted.  In the reference's order the classifier is right
        # (score t+8); read positionally in the frame's own order it would be wrong (score 2*0 - x1 < t for the fixed configs)
        a, b = pt(8.0)
        self.label_sym("Lp", [(b, a, 1)], cols=("x2", "x1", "y"))
        a, b = pt(-8.0)
        self.label_sym("Lr", [(1, b, a)], cols=("y", "x2", "x1"))   # swapped features, wrong in the reference's order
        self.label_sym("L2", [pt(8.0) + (1,), pt(-0.5) + (1,)])  # two rows: refused
        self.label_sym("L0", [])                                # no row: refused
        self.label_sym("Lx", [pt(8.0) + (1,)], cols=("x1", "zz", "y"))           # a renamed column: refused
        self.label_sym("Lm", [(pt(8.0)[0], 1)], cols=("x1", "y"))                # a missing column: refused
        self.label_sym("Le", [pt(8.0) + (1, 3.0)], cols=("x1", "x2", "y", "w"))  # an extra column: refused
        a, b = pt(8.0)
        self.label_sym("Lz", [(a, b, b, 1)], cols=("x1", "x2", "x2", "y"))       # a repeated column name: the same *set* of names, another count: refused
        self.label_sym("Lq", [pt(8.0) + (1,)], cols=("x1", "x1", "y"))           # right number, duplicate name: refused
        return self

    def new_detector(self):
        import pandas as pd
        from menelaus.concept_drift.md3 import MD3
        df = pd.DataFrame([list(r) for r in self.ref_rows], columns=COLS, dtype=float)
        df["y"] = df["y"].astype(int)
        clf = ThrClf(self.width).fit(df[["x1", "x2"]], df["y"])
        det = MD3(clf, margin_calculation_function=margin, sensitivity=self.sens, k=self.k,
                  oracle_data_length_required=self.oracle_len)
        det.set_reference(df, target_name="y")
        return det

    def model_new(self):
        """the model gets the fold bit lists of the reference batch and computes the statistics itself"""
        return (f"new md3 {core.f2b(self.sens)} {'_' if self.oracle_len is None else self.oracle_len} "
                f"3 1 2 3 {folds_tail(self.folds0)}")

    def model_new_numeric(self):
        """the old oracle form (ready-made statistics); kept alive by one self-test per run"""
        ln, md, sd, acc, asd = self.stats0
        return (f"new md3 {core.f2b(self.sens)} {'_' if self.oracle_len is None else self.oracle_len} "
                f"3 1 2 3 {ln} {core.f2b(md)} {core.f2b(sd)} {core.f2b(acc)} {core.f2b(asd)}")


PLAIN = ["Ui", "Uo", "U2", "Lc", "Lw", "L2", "Lx"]
FULL = ["Ui", "Uo", "U2", "U0", "Lc", "Lw", "Lp", "L2", "L0", "Lx", "Lm", "Le", "Lq", "Lz", "U3", "Ld", "Lv", "Lr"]
# in the reduced exploration these are tried from every reached state but not extended (they only vary the sample's data)
LEAF_ONLY = {"U3", "Ld", "Lv", "Lr"}
START = (("x1", "x2"), ())      # harness bookkeeping: (feature order of the current reference, labelled samples of the round)

# reference batches (scores 2*x1 - x2 sum to 0, so the user's classifier has threshold 0); all statistics dyadic
REF8 = [(-4, 0, 0), (-2, 0, 0), (-0.25, 0, 0), (0.25, 0, 1), (2, 0, 1), (4, 0, 1), (0.125, 0, 0), (-0.125, 0, 1)]
REF4 = [(-4, 0, 0), (-0.25, 0, 1), (0.25, 0, 1), (4, 0, 1)]
REF6 = [(-4, 0, 0), (-2, 0, 0), (-0.25, 0, 1), (0.25, 0, 1), (2, 0, 0), (4, 0, 1)]
REF5 = [(-4, 0, 0), (-0.25, 0, 0), (0.25, 0, 1), (2, 0, 0), (2, 0, 1)]


_CFGS = []


def fixed_configs():
    if not _CFGS:
        _CFGS.extend(_fixed_configs())
    return _CFGS


def _fixed_configs():
    cs = [
        Config("ref8-k2-s0.875-N4", REF8, 0.875, 2, 4),     # first in-margin update sits exactly on the warning threshold
        Config("ref8-k2-s1-N2", REF8, 1.0, 2, 2),           # confirm test exactly on its threshold for one correct label of two
        Config("ref4-k2-s0.5-Nnone", REF4, 0.5, 2, None),   # oracle length defaults to the reference length
        Config("ref6-k3-s1-N3", REF6, 1.0, 3, 3),
        Config("ref8-k2-s0-N2", REF8, 0.0, 2, 2),           # sensitivity 0: any deviation warns, any accuracy drop confirms
        Config("ref5-k2-s2-N3", REF5, 2, 2, 3),             # int sensitivity, non-dyadic forgetting factor 4/5
    ]
    return [c.standard_symbols() for c in cs]


# ------------------------------------------------------------------ observation
def dstr(s):
    return {None: "N", "warning": "W", "drift": "D"}.get(s, "X:" + repr(s)) if isinstance(s, (str, type(None))) else "X:" + repr(s)


def observe(det):
    rd = det.reference_distribution
    od = det.oracle_data
    return (dstr(det.drift_state), int(bool(det.waiting_for_oracle)), 0 if od is None else int(len(od)),
            int(det.total_updates), int(det.updates_since_reset), int(det.oracle_data_length_required),
            float(det.curr_margin_density), float(det.forgetting_factor),
            int(rd["len"]), float(rd["md"]), float(rd["md_std"]), float(rd["acc"]), float(rd["acc_std"]))


BROKEN = ("X:observe",) + (0,) * 5 + (NAN,) * 2 + (0,) + (NAN,) * 4


def start(acc, cfg, report=True):
    """fresh detector + first observation, compared with the harness's reference statistics; detector None when it fails"""
    ln, md, sd, a_, asd = cfg.stats0
    init_expected = ("N", 0, 0, 0, 0, cfg.N, md, (ln - 1) / ln, ln, md, sd, a_, asd)
    try:
        det = cfg.new_detector()
        pre = observe(det)
    except Exception as e:
        if report:
            acc.fail("reference-statistics", cfg, [], -1, impl="EXC:" + type(e).__name__ + " from MD3(...)/set_reference/observables",
                     prescribed=dict(zip(OBS, init_expected)))
        return None, None
    f = same_obs(pre, init_expected)
    if f is not None:
        if report:
            acc.fail("reference-statistics", cfg, [], -1, observable=f, impl=dict(zip(OBS, pre)), prescribed=dict(zip(OBS, init_expected)))
        return None, pre        # no detector to continue with, but the model's initial state is still compared with `pre`
    dev = spec_deviation(pre, cfg.ref_rows, cfg.k, cfg.width)
    if dev is not None:
        if report:
            acc.fail("k-fold-mean-std-spec", cfg, [], -1, observable=dev[0], impl=pre[OBS.index(dev[0])], exact_rational_spec=dev[1],
                     fold_bits=list(cfg.folds0))
        return None, pre
    return det, pre


def init_lines(acc, cfg, pre, compare=True):
    """driver lines that create the model from the fold bit lists and show its initial state; the `show` line is compared
    with the implementation's first observation `pre` like any call"""
    acc.lines.append(cfg.model_new()); acc.expect.append(None)
    if compare and pre is not None:
        info = {"decision": None, "margin": None, "boundary": False, "newref": cfg.stats0, "branch": "set_reference", "exact": False}
        acc.lines.append("0 show"); acc.expect.append(("ok", pre, cfg, [], -1, info))
        count_batch(acc, cfg.ref_rows, cfg.k, cfg.width, "initial-set_reference")


def do_call(det, sym):
    """-> (outcome, observation)"""
    try:
        if sym.kind == "u":
            det.update(sym.frame)
        else:
            det.give_oracle_label(sym.frame)
        out = "ok"
    except Exception as e:          # a changed tree may raise anything anywhere
        out = "EXC:" + type(e).__name__
    try:
        return out, observe(det)
    except Exception as e:
        return out, ("X:observe:" + type(e).__name__,) + BROKEN[1:]


def canon(v, depth=0):
    """canonical deep value of an attribute (for the unchanged-state test of the reduced exploration)"""
    import pandas as pd
    if isinstance(v, pd.DataFrame):
        return ("df", tuple(map(str, v.columns)), tuple(map(str, v.dtypes)), tuple(v.index), v.to_numpy(dtype=float).tobytes())
    if isinstance(v, dict):
        return ("dict",) + tuple((k_, canon(x, depth + 1)) for k_, x in sorted(v.items()))
    if isinstance(v, (float, np.floating)):
        return ("f", core.f2b(v))
    if isinstance(v, (bool, int, str, type(None), np.integer, np.bool_)):
        return (type(v).__name__, v if not isinstance(v, (np.integer, np.bool_)) else v.item())
    if callable(v) and hasattr(v, "__qualname__"):
        return ("fn", v.__qualname__)
    if hasattr(v, "__dict__") and depth < 3:
        return ("obj", type(v).__name__) + tuple((k_, canon(x, depth + 1)) for k_, x in sorted(vars(v).items()))
    return ("repr", repr(v))


def snapshot(det):
    return tuple((k_, canon(v)) for k_, v in sorted(vars(det).items()))


# ------------------------------------------------------------------ what the property prescribes for one call
def rel_margin(a, b):
    return abs(a - b) / max(1.0, abs(a), abs(b))


def prescribe(cfg, pre, sym, gathered):
    """
    The property's clauses, from the implementation's own observables `pre` before the call.
    -> (outcome, expected observation (dict), gathered', info) ; info carries the decision margins,
    the clause names that apply and the oracle line fragment for the model.
    """
    p = dict(zip(OBS, pre))
    e = dict(p)
    info = {"decision": None, "margin": None, "boundary": False, "newref": None, "branch": None, "exact": False}
    if sym.kind == "u":
        if p["waiting"]:
            info["branch"] = "refuse:update-while-waiting"
            return "EXC:ValueError", e, gathered, info
        if sym.rows != 1:
            info["branch"] = "refuse:update-rows"
            return "EXC:ValueError", e, gathered, info
        if p["drift"] == "D":           # the update after a confirmed drift resets first
            drift0, since0, md0 = "N", 0, p["ref_md"]
            info["branch"] = "update-after-drift"
        else:
            drift0, since0, md0 = p["drift"], p["since"], p["md"]
            info["branch"] = "update"
        lam = (p["ref_len"] - 1) / p["ref_len"]
        md1 = lam * md0 + (1 - lam) * sym.sig
        lhs, rhs = abs(md1 - p["ref_md"]), cfg.sens * p["ref_md_std"]
        warn = lhs > rhs
        lamQ = Fraction(p["ref_len"] - 1, p["ref_len"])
        md1Q = lamQ * Fraction(md0) + (1 - lamQ) * sym.sig
        exact = (Fraction(md1) == md1Q and Fraction(lhs) == abs(md1Q - Fraction(p["ref_md"]))
                 and Fraction(rhs) == Fraction(cfg.sens) * Fraction(p["ref_md_std"]))
        info.update(decision=warn, margin=rel_margin(lhs, rhs), boundary=(lhs == rhs), exact=exact)
        e.update(total=p["total"] + 1, since=since0 + 1, md=md1, drift="W" if warn else drift0, waiting=1 if warn else 0)
        if warn:
            info["branch"] += "+warning"
        return "ok", e, gathered, info
    # give_oracle_label
    if not p["waiting"]:
        info["branch"] = "refuse:label-not-waiting"
        return "EXC:ValueError", e, gathered, info
    if sym.rows != 1:
        info["branch"] = "refuse:label-rows"
        return "EXC:ValueError", e, gathered, info
    if len(sym.cols) != len(COLS) or set(sym.cols) != set(COLS):
        info["branch"] = "refuse:label-columns"
        return "EXC:ValueError", e, gathered, info
    # The specification of the accuracy test: the user's classifier on the labelled samples with the features in the order of
    # the *current reference* (what `oracle_data[feature_columns]` selects).  The frame that accumulates the samples keeps the
    # column order of the round's first sample, and that order is what the adopted reference then carries (DESIGN §6, noted).
    forder, samples = gathered

    def right(r, order=None):
        v = {"x1": r[0], "x2": r[1]}
        o = order or forder
        return int(int(cfg.clf.predict(np.array([[v[o[0]], v[o[1]]]]))[0]) == r[2])

    samples = samples + (sym.sample,)
    gathered = (forder, samples)
    n = p["n_oracle"] + 1
    e.update(drift="N", n_oracle=n)
    info["branch"] = "label"
    info["correct"] = right(sym.sample)
    if sym.sample[3] != forder:
        info["permuted"] = True
    if n == p["oracle_req"]:
        rows = samples[-n:] if len(samples) >= n else samples
        correct = sum(right(r) for r in rows)
        if rows[0][3] != forder:
            # would the verdict differ if the features were read in the accumulated frame's own order?
            alt = sum(right(r, rows[0][3]) for r in rows)
            info["order_sensitive"] = ((p["ref_acc"] - alt / n > cfg.sens * p["ref_acc_std"])
                                       != (p["ref_acc"] - correct / n > cfg.sens * p["ref_acc_std"]))
        acc = correct / n
        lhs, rhs = p["ref_acc"] - acc, cfg.sens * p["ref_acc_std"]
        drift = lhs > rhs
        exact = (Fraction(acc) == Fraction(correct, n) and Fraction(lhs) == Fraction(p["ref_acc"]) - Fraction(correct, n)
                 and Fraction(rhs) == Fraction(cfg.sens) * Fraction(p["ref_acc_std"]))
        nforder = rows[0][3]           # the adopted frame has the first sample's column order
        pos = [({"x1": r[0], "x2": r[1]}[nforder[0]], {"x1": r[0], "x2": r[1]}[nforder[1]], r[2]) for r in rows]
        nr = ref_stats(pos, cfg.k, cfg.width) if len(rows) == n and n >= cfg.k else None
        if nr is not None:
            info["newfolds"], info["newrows"] = ref_folds(pos, cfg.k, cfg.width), pos
        info.update(decision=drift, margin=rel_margin(lhs, rhs), boundary=(lhs == rhs), newref=nr, exact=exact,
                    branch="label-N:" + ("drift" if drift else "ruled-out"))
        e.update(drift="D" if drift else "N", waiting=0, n_oracle=0)
        if nr is not None:
            e.update(ref_len=nr[0], ref_md=nr[1], ref_md_std=nr[2], ref_acc=nr[3], ref_acc_std=nr[4],
                     md=nr[1], lam=(nr[0] - 1) / nr[0])
        gathered = (nforder, ())
    return "ok", e, gathered, info


def clause_of(field, branch):
    if branch.startswith("refuse"):
        return "refused-call-changes-state"
    if field in ("total", "since"):
        return "base-counters"
    if field in ("md", "lam"):
        return "restart-from-new-reference-md" if branch.startswith("label-N") else "margin-density-recurrence"
    if field.startswith("ref_"):
        return "adopt-labelled-samples-as-reference" if branch.startswith("label-N") else "reference-changed-outside-confirmation"
    if field == "n_oracle":
        return "exactly-N-labels"
    if field in ("drift", "waiting"):
        if branch.startswith("label-N"):
            return "confirm-iff-accuracy-drop"
        if branch.startswith("label"):
            return "exactly-N-labels"
        return "warning-iff-md-deviation"
    return "other"


def model_line(depth, sym, info):
    if sym.kind == "u":
        return f"{depth} u {sym.rows} {sym.sig}"
    # a label that completes the round carries the fold bit lists of the batch to adopt (the model computes the statistics);
    # any other label carries the old numeric form with NaNs (never read by the model — and keeps that form exercised)
    nf = info.get("newfolds")
    tail = (folds_tail(nf) if nf is not None
            else f"0 {core.f2b(NAN)} {core.f2b(NAN)} {core.f2b(NAN)} {core.f2b(NAN)}")
    return f"{depth} l {sym.rows} {info.get('correct', 0)} {sym.model_cols()} {tail}"


def obs_line(out, o):
    """implementation observation in the format of the model's output line"""
    tok = "ok" if out == "ok" else "R"
    return (f"{tok} {o[0]} {o[1]} {o[2]} {o[3]} {o[4]} {o[5]} {core.f2b(o[6])} {core.f2b(o[7])} "
            f"{o[8]} {core.f2b(o[9])} {core.f2b(o[10])} {core.f2b(o[11])} {core.f2b(o[12])}")


def parse_model(line):
    t = line.split(" ")
    if len(t) != 14:
        return None
    return (t[0], (t[1], int(t[2]), int(t[3]), int(t[4]), int(t[5]), int(t[6]), core.b2f(t[7]), core.b2f(t[8]),
                   int(t[9]), core.b2f(t[10]), core.b2f(t[11]), core.b2f(t[12]), core.b2f(t[13])))


def same_obs(a, b):
    for f, x, y in zip(OBS, a, b):
        if f in NUMERIC:
            if not core.close(x, y):
                return f
        elif x != y:
            return f
    return None


# ------------------------------------------------------------------ result accumulator (mergeable across processes)
class Acc:
    def __init__(self):
        self.stats, self.fails, self.mismatches, self.samples = {}, [], [], []
        self.evaluations = self.nontrivial = self.traces = self.thin = 0
        self.lines, self.expect = [], []      # driver input and (impl outcome, observation, case) per line

    def count(self, k_, n=1):
        self.stats[k_] = self.stats.get(k_, 0) + n

    def fail(self, clause, cfg, seq, step, **kw):
        self.count("fail:" + clause)
        if len(self.fails) < 20:
            kw.setdefault("calls_data", [describe_sym(cfg, n) for n in dict.fromkeys(seq) if "(" in n])
            self.fails.append(dict(signature={"class": "md3-" + clause}, what=clause, config=cfg.describe(),
                                   calls=list(seq), first_failing_step=step, **kw))

    def export(self):
        return dict(stats=self.stats, fails=self.fails, mismatches=self.mismatches, samples=self.samples,
                    evaluations=self.evaluations, nontrivial=self.nontrivial, traces=self.traces, thin=self.thin)


def check_call(acc, cfg, seq, pre, sym, out, post, gathered):
    """run the clauses on one implementation call; -> (ok, gathered', info)"""
    exp_out, e, gathered2, info = prescribe(cfg, pre, sym, gathered)
    acc.count("branch:" + info["branch"])
    if info.get("permuted"):
        acc.count("permuted-sample-accepted" + (":first-of-round" if pre[2] == 0 else ""))
    if "order_sensitive" in info:
        acc.count("decision-with-permuted-first-sample" + (":verdict-depends-on-order" if info["order_sensitive"] else ""))
    if info["boundary"]:
        acc.count("boundary-equal:" + ("warning" if sym.kind == "u" else "confirm") + (":exact" if info["exact"] else ":rounded"))
    step = len(seq) - 1
    if out != exp_out:
        # accepted although the protocol refuses, refused although it accepts, or another exception type
        clause = ("refusal-rule" if exp_out != "ok" else "legal-call-refused") if (out == "ok" or exp_out == "ok") else "refusal-exception-type"
        acc.fail(clause, cfg, seq, step, prescribed=exp_out, impl=out, branch=info["branch"],
                 before=dict(zip(OBS, pre)), after=dict(zip(OBS, post)))
        return False, gathered2, info
    bad = None
    for f, x in zip(OBS, post):
        y = e[f]
        if (not core.close(x, y)) if f in NUMERIC else (x != y):
            bad = f
            break
    if bad is not None:
        if info["decision"] is not None and info["margin"] < 1e-9 and not info["exact"] and bad in ("drift", "waiting"):
            acc.thin += 1
            return False, gathered2, info
        acc.fail(clause_of(bad, info["branch"]), cfg, seq, step, observable=bad, prescribed=e[bad], impl=post[OBS.index(bad)],
                 branch=info["branch"], before=dict(zip(OBS, pre)), after=dict(zip(OBS, post)),
                 prescribed_after=e, new_reference_from_harness_copy=info["newref"])
        return False, gathered2, info
    if info.get("newrows") is not None:
        count_batch(acc, info["newrows"], cfg.k, cfg.width, "adoption-after-oracle-round")
        dev = spec_deviation(post, info["newrows"], cfg.k, cfg.width)
        if dev is not None:
            acc.fail("k-fold-mean-std-spec", cfg, seq, step, observable=dev[0], impl=post[OBS.index(dev[0])], exact_rational_spec=dev[1],
                     adopted_rows=[list(r) for r in info["newrows"]], fold_bits=list(info["newfolds"]), after=dict(zip(OBS, post)))
            return False, gathered2, info
    if post[7] != (post[8] - 1) / post[8]:
        acc.fail("forgetting-factor", cfg, seq, step, impl=post[7], prescribed=(post[8] - 1) / post[8], after=dict(zip(OBS, post)))
        return False, gathered2, info
    return True, gathered2, info


def compare_with_model(acc, out_lines):
    """second pass: model output vs implementation observation, line by line"""
    for line, o, exp in zip(acc.lines, out_lines, acc.expect):
        if exp is None:
            if o != "ok":
                raise core.Infra(f"driver rejected `{line}`: {o}")
            continue
        out, post, cfg, seq, step, info = exp
        seq = seq[:step + 1]
        acc.traces += 1
        m = parse_model(o)
        if m is None:
            raise core.Infra(f"driver answered `{o}` to `{line}`")
        mtok, mobs = m
        itok = "ok" if out == "ok" else ("R" if out == "EXC:ValueError" else out)
        mt = "ok" if mtok == "ok" else "R"
        diff = None
        if itok != mt:
            diff = "outcome"
        else:
            diff = same_obs(post, mobs)
        if diff is None and (info.get("newfolds") is not None or info["branch"] == "set_reference"):
            same_bits = all(core.f2b(post[i]) == core.f2b(mobs[i]) for i in range(9, 13)) and post[8] == mobs[8]
            acc.count("refstats:model-vs-implementation:" + ("bit-identical" if same_bits else "within-tolerance-only"))
        if diff is not None:
            if info["margin"] is not None and info["margin"] < 1e-9 and not info["exact"] and diff in ("drift", "waiting", "outcome"):
                acc.thin += 1
                continue
            acc.count("mismatch:" + diff)
            if len(acc.mismatches) < 20:
                acc.mismatches.append(dict(component="md3", config=cfg.describe(), case=list(seq), step=len(seq) - 1, observable=diff,
                                           op=line, impl=obs_line(out, post) + " (" + out + ")", model=o))
            acc.fail("model-correspondence", cfg, seq, len(seq) - 1, observable=diff, impl=dict(zip(OBS, post)), impl_outcome=out,
                     model=dict(zip(OBS, mobs)), model_outcome=mtok, op=line)


# ------------------------------------------------------------------ exhaustive exploration (plain / reduced)
def explore(task):
    """one shard: (mode, config index, prefix of symbol names, alphabet, max depth) -> exported Acc"""
    warnings.simplefilter("ignore")
    mode, ci, prefix, alphabet, maxlen = task
    cfg = fixed_configs()[ci]
    acc = Acc()
    det, pre = start(acc, cfg, report=not prefix)
    init_lines(acc, cfg, pre, compare=not prefix)
    if det is None:
        return acc_finish(acc)
    gathered, seq, flag = START, [], False
    # walk the prefix (its nodes are counted by the shard with the empty / shorter prefix)
    for d, name in enumerate(prefix):
        sym = cfg.syms[name]
        out, post = do_call(det, sym)
        seq = seq + [name]
        exp_out, e, gathered, info = prescribe(cfg, pre, sym, gathered)
        acc.lines.append(model_line(d, sym, info)); acc.expect.append(("skip",))
        if out != exp_out or same_obs(post, tuple(e[f_] for f_ in OBS)) is not None:
            return acc_finish(acc)          # reported by the shard that owns this node
        flag = flag or out != "ok" or post[0] == "W"
        pre = post

    def rec(det, pre, gathered, seq, flag):
        depth = len(seq)
        before = snapshot(det) if mode == "reduced" else None
        for name in alphabet:
            sym = cfg.syms[name]
            d2 = copy.deepcopy(det)
            out, post = do_call(d2, sym)
            seq2 = seq + [name]
            ok, g2, info = check_call(acc, cfg, seq2, pre, sym, out, post, gathered)
            acc.lines.append(model_line(depth, sym, info))
            acc.expect.append((out, post, cfg, seq2, depth, info))
            fl2 = flag or out != "ok" or post[0] == "W"
            acc.evaluations += 1
            acc.nontrivial += 1 if fl2 else 0
            acc.count(f"len:{depth + 1}")
            if post[0] == "D":
                acc.count("reached:drift-confirmed")
            if info["branch"].startswith("label-N") and post[3] > 0 and len(seq2) > 0:
                acc.count("reached:decision")
            if not ok:
                continue
            if mode == "reduced" and out != "ok":
                if snapshot(d2) != before:
                    acc.fail("refused-call-changes-state", cfg, seq2, depth, detail="vars(detector) differ after the refused call",
                             before=dict(zip(OBS, pre)), after=dict(zip(OBS, post)))
                else:
                    acc.count("reduced:refusal-verified-unchanged")
                continue
            if depth + 1 < maxlen and not (mode == "reduced" and name in LEAF_ONLY):
                rec(d2, post, g2, seq2, fl2)

    if len(prefix) < maxlen:
        rec(det, pre, gathered, seq, flag)
    return acc_finish(acc)


def acc_finish(acc):
    out = core.run_driver(acc.lines) if len(acc.lines) > 1 else ["ok"]
    # prefix lines carry ("skip",): the model must still accept them
    exp2 = []
    for ex_, o in zip(acc.expect, out):
        if ex_ == ("skip",):
            if o in ("bad-op", "bad-new"):
                raise core.Infra("driver rejected a prefix line")
            exp2.append(("skip",))
        else:
            exp2.append(ex_)
    lines, expect, outs = [], [], []
    for l, ex_, o in zip(acc.lines, exp2, out):
        if ex_ == ("skip",):
            continue
        lines.append(l); expect.append(ex_); outs.append(o)
    acc.lines, acc.expect = lines, expect
    compare_with_model(acc, outs)
    acc.lines, acc.expect = [], []
    return acc.export()


# ------------------------------------------------------------------ random long streams
def random_case(task):
    warnings.simplefilter("ignore")
    seed, idx, length = task
    rng = np.random.default_rng([seed, 19, idx])
    acc = Acc()
    grid = [-8, -4, -2, -1, -0.5, -0.25, 0.25, 0.5, 1, 2, 4, 8]
    for _attempt in range(50):
        if rng.random() < 0.25:     # larger batches with many folds (default k = 10; numpy sums 8 or more values in 8 lanes)
            n = int(rng.integers(10, 31))
            k = min(n, int(rng.choice([5, 8, 9, 10, 11])))
        else:
            n = int(rng.integers(4, 13))
            k = int(rng.choice([2, 2, 3, 4])) if n >= 8 else int(rng.choice([2, 3])) if n >= 6 else 2
        rows = []
        for _ in range(n):
            s = float(rng.choice(grid))
            yv = int(s > 0) if rng.random() < 0.8 else int(s <= 0)
            x2 = float(rng.choice([0, 0, 0.25, -0.25]))
            rows.append(((s + x2) / 2, x2, yv))
        olen = None if rng.random() < 0.3 else int(rng.integers(k, max(9, k + 4)))
        sens = [0, 0.25, 0.5, 0.5, 1, 1, 1.5, 2, 2, 3][int(rng.integers(0, 10))]
        width = float(rng.choice([0.5, 1.0, 2.0]))
        cfg = Config(f"random-{idx}", rows, sens, k, olen, width)
        if cfg.stats0[2] > 0 or rng.random() < 0.15:
            break
    cfg.standard_symbols()
    t = cfg.t
    det, pre = start(acc, cfg)
    init_lines(acc, cfg, pre)
    if det is None:
        return acc_finish(acc)
    gathered, seq = START, []
    p_in, p_ok = float(rng.choice([0.1, 0.5, 0.9])), float(rng.choice([0.2, 0.6, 0.95]))
    # closed form bookkeeping: md0 and signals since the margin density last (re)started
    md0, sigs, lamF = Fraction(pre[6]), [], Fraction(pre[8] - 1, pre[8])
    warnings_n = drifts = decisions = refusals = 0
    for stepi in range(length):
        if rng.random() < 0.02:
            p_in, p_ok = float(rng.choice([0.05, 0.5, 0.95])), float(rng.choice([0.1, 0.6, 0.95]))
        waiting = pre[1] == 1
        r = rng.random()
        illegal = r < 0.18
        if illegal:
            name = str(rng.choice(["U2", "U0", "L2", "L0", "Lx", "Lm", "Le", "Lq", "Lz"] + (["Ui", "Uo", "U3"] if waiting else ["Lc", "Lw", "Lp"])))
            sym = cfg.syms[name]
        elif waiting:
            if rng.random() < 0.1:
                name = "Lp"; sym = cfg.syms[name]
            else:
                s = float(rng.choice(grid)) + (0.0 if rng.random() < 0.5 else 0.125)
                pred = int(s > 0)      # relative score; the classifier's threshold is added below
                yv = pred if rng.random() < p_ok else 1 - pred
                x2 = float(rng.choice([0, 0.25]))
                x1 = cfg.pt(s, x2)[0]
                if rng.random() < 0.2:      # features swapped in the frame (same set of names: accepted)
                    name = f"Lswap({x1},{x2},{yv})"
                    sym = cfg.label_sym(name, [(x2, x1, yv)], cols=("x2", "x1", "y"))
                else:
                    name = f"L({x1},{x2},{yv})"
                    sym = cfg.label_sym(name, [(x1, x2, yv)])
        else:
            if rng.random() < 0.05:
                name = "U3"; sym = cfg.syms[name]
            else:
                inm = rng.random() < p_in
                s = float(rng.choice([-1, -0.5, 0.25, 0.75, 1])) * cfg.width if inm else float(rng.choice([-8, 4, 6])) * cfg.width
                name = f"U({cfg.pt(s)[0]},0)"
                sym = cfg.update_sym(name, [cfg.pt(s)])
        out, post = do_call(det, sym)
        seq.append(name)
        ok, gathered, info = check_call(acc, cfg, seq, pre, sym, out, post, gathered)
        acc.lines.append(model_line(stepi, sym, info))
        acc.expect.append((out, post, cfg, seq, stepi, info))
        if not ok:
            break
        if out != "ok":
            refusals += 1
        br = info["branch"]
        if br.startswith("update"):
            if br.startswith("update-after-drift"):
                md0, sigs = Fraction(pre[9]), []
            sigs.append(sym.sig)
            tt = len(sigs)
            if tt <= 48 or tt % 16 == 0:
                cf = lamF ** tt * md0 + (1 - lamF) * sum(lamF ** (tt - 1 - i) * sg for i, sg in enumerate(sigs) if sg)
                acc.count("closed-form-evaluations")
                if not core.close(float(cf), post[6], rel=1e-9):
                    acc.fail("margin-density-closed-form", cfg, list(seq), stepi, impl=post[6], closed_form=float(cf), t=tt)
                    break
            if post[0] == "W":
                warnings_n += 1
        elif br.startswith("label-N"):
            decisions += 1
            drifts += post[0] == "D"
            md0, sigs, lamF = Fraction(post[6]), [], Fraction(post[8] - 1, post[8])
        pre = post
    acc.evaluations += 1
    acc.nontrivial += 1 if (warnings_n and refusals) else 0
    acc.count("random:warnings", warnings_n); acc.count("random:decisions", decisions); acc.count("random:drifts", drifts)
    acc.count("random:refusals", refusals); acc.count("random:calls", len(seq))
    acc.count("random:cases-with-2+-decisions", 1 if decisions >= 2 else 0)
    if idx < 2:
        acc.samples.append({"config": cfg.describe(), "first_calls": seq[:12], "warnings": warnings_n, "decisions": decisions, "drifts": drifts})
    return acc_finish(acc)


def describe_sym(cfg, name):
    s = cfg.syms.get(name)
    if s is None:
        return {"name": name}
    return {"name": name, "call": "update" if s.kind == "u" else "give_oracle_label", "columns": s.cols,
            "rows": s.frame.to_numpy(dtype=float).tolist()}


# ------------------------------------------------------------------ driver of the whole check
class _Distinct(set):
    """distinct non-trivial cases: exhaustive enumeration yields pairwise distinct (config, sequence) cases, which are
    counted without storing one hash each"""
    extra = 0

    def __len__(self):
        return super().__len__() + self.extra


def merge(ctx, res):
    for k_, v in res["stats"].items():
        ctx.count(k_, v)
    for f in res["fails"]:
        sig = f.pop("signature")
        ctx.fail(signature=sig, **f)
    for m in res["mismatches"]:
        ctx.mismatch(**m)
    for s in res["samples"]:
        ctx.sample(s)
    ctx.evaluations += res["evaluations"]
    ctx.nontrivial.extra += res["nontrivial"]
    ctx.traces += res["traces"]
    ctx.thin += res["thin"]


def run_tasks(fn, tasks, procs):
    if procs <= 1 or len(tasks) <= 1:
        return [fn(t) for t in tasks]
    import multiprocessing as mp
    head = []
    if core.COVERAGE_ACTIVE:     # the cheapest shard runs in this process so that the source-coverage measurement sees it
        head, tasks = [fn(tasks[-1])], tasks[:-1]
    with mp.get_context("fork").Pool(procs) as pool:
        out = pool.map(fn, tasks, chunksize=1)
    return out + head


def plan(ctx):
    """shards of the exhaustive part, most expensive first"""
    ncfg = len(fixed_configs())
    if ctx.quick:
        plain_len, plain_default, reduced_len, shard = {0: 6}, 5, 7, 1
    else:
        plain_len, plain_default, reduced_len, shard = {0: 7, 1: 7}, 6, 10, 2
    tasks = []
    for ci in range(ncfg):
        L = plain_len.get(ci, plain_default)
        # the shard with the empty prefix owns the nodes of depth <= shard, the others the nodes below their prefix
        for pre in itertools.product(PLAIN, repeat=shard):
            tasks.append(("plain", ci, tuple(pre), PLAIN, L))
        tasks.append(("plain", ci, (), PLAIN, shard))
        tasks.append(("reduced", ci, (), FULL, reduced_len))
    tasks.sort(key=lambda t: (-(t[4] if t[0] == "plain" else 99), t[1]))
    return tasks, plain_len, plain_default, reduced_len


def random_chunk(tasks):
    return [random_case(t) for t in tasks]


def run(ctx):
    warnings.simplefilter("ignore")
    import menelaus.concept_drift.md3  # noqa: F401  (import failure = infrastructure)
    ctx.nontrivial = _Distinct()
    tasks, plain_len, plain_default, reduced_len = plan(ctx)
    procs = max(1, min(8, (os.cpu_count() or 2) // 2))
    cfgs = fixed_configs()
    ctx.rule = ("plain: every call sequence over %s (in/out-of-margin update, 2-row update, correct / incorrect label, 2-row label, "
                "renamed-column label) up to length %s (configs %s) / %d (other configs), each prefix executed on its own copy of the real MD3 "
                "(no reduction); reduced: every sequence over %s up to length %d where the subtree below a refused call is cut after a deep "
                "vars(detector) equality test and %s are tried from every reached state but not extended; random: %d seeded streams of %d "
                "calls with random reference batches / configurations / samples. "
                "A case (one sequence) is non-trivial when it contains a refused call or a warning; a random stream when it contains both"
                % (PLAIN, sorted(set(plain_len.values())), sorted(plain_len), plain_default, FULL, reduced_len, sorted(LEAF_ONLY),
                   60 if ctx.quick else 300, 250 if ctx.quick else 600))
    ctx.extra["exhaustive_scope"] = {"plain_length": {"default": plain_default, **{cfgs[i].name: L for i, L in plain_len.items()}},
                                     "reduced_length": reduced_len, "alphabet_plain": PLAIN, "alphabet_reduced": FULL}
    ctx.exhaustive = True
    ctx.extra["configurations"] = [c.describe() for c in cfgs]
    numeric_form_selftest(ctx, cfgs)
    for res in run_tasks(explore, tasks, procs):
        merge(ctx, res)
    nrand, rlen = (60, 250) if ctx.quick else (300, 600)
    rtasks = [(ctx.seed, i, rlen) for i in range(nrand)]
    for chunk in run_tasks(random_chunk, [rtasks[i:i + 5] for i in range(0, nrand, 5)], procs):
        for res in chunk:
            merge(ctx, res)
    ctx.extra["processes"] = procs
    ctx.failing.sort(key=lambda f: (len(f.get("calls", [])), f.get("what", "")))     # shortest reproducer first
    ctx.sample({"config": cfgs[0].describe(), "calls": ["Ui", "Ui", "Uo", "Lc", "Lx", "Lw", "Lw", "Lw", "Ui"],
                "impl": trace(cfgs[0], ["Ui", "Ui", "Uo", "Lc", "Lx", "Lw", "Lw", "Lw", "Ui"])})
    need = ["boundary-equal:warning:exact", "boundary-equal:confirm:exact", "reached:drift-confirmed", "branch:update-after-drift",
            "branch:label-N:ruled-out", "branch:refuse:label-columns", "branch:refuse:update-while-waiting",
            "random:cases-with-2+-decisions", "closed-form-evaluations", "permuted-sample-accepted:first-of-round",
            "decision-with-permuted-first-sample:verdict-depends-on-order",
            "refstats:initial-set_reference", "refstats:adoption-after-oracle-round", "refstats:unequal-fold-sizes",
            "refstats:fold-mean-differs-from-pooled-ratio", "refstats:both-deviations-positive",
            "refstats:k>=8(numpy 8-lane branch)", "refstats:model-vs-implementation:bit-identical"]
    if not ctx.failing and not ctx.mismatches:
        missing = [n for n in need if not ctx.stats.get(n)]
        if missing:
            raise core.Infra("input distribution degenerated, never reached: " + ", ".join(missing))


def numeric_form_selftest(ctx, cfgs):
    """the driver still accepts ready-made statistics (oracle form of Model/MD3.lean): created either way the model shows the
    same initial state, and a round completed with numeric statistics adopts exactly those"""
    lines = []
    for c in cfgs:
        lines += [c.model_new(), "0 show", c.model_new_numeric(), "0 show"]
    out = core.run_driver(lines)
    for i, c in enumerate(cfgs):
        a, b = parse_model(out[4 * i + 1]), parse_model(out[4 * i + 3])
        if a is None or b is None or a[0] != "ok" or same_obs(a[1], b[1]) is not None:
            raise core.Infra(f"fold form and numeric form of the MD3 model disagree for {c.name}: {out[4 * i + 1]} / {out[4 * i + 3]}")
        if b[1][8] != c.stats0[0] or any(core.f2b(x) != core.f2b(y) for x, y in zip(b[1][9:], c.stats0[1:])):
            raise core.Infra("numeric form of the MD3 model does not relay the statistics it was given")
    ctx.count("selftest:numeric-form-equals-fold-form", len(cfgs))


def trace(cfg, names):
    det = cfg.new_detector()
    out = []
    for n in names:
        o, post = do_call(det, cfg.syms[n])
        out.append([n, o, dict(zip(OBS, post))])
    return out


def search(ctx, mismatches):
    # every explored call is already judged by the protocol clauses (`prescribe`) and every model mismatch on the
    # property's observables is reported as a failing input in `compare_with_model`
    return []


def replay(ctx, path):
    warnings.simplefilter("ignore")
    r = json.load(open(path))
    if "config" not in r or "calls" not in r:
        print(json.dumps(r, indent=1)); return 0
    c = r["config"]
    cfg = Config(c["name"], [tuple(x) for x in c["reference_rows"]], c["sensitivity"], c["k"], c["oracle_data_length_required"],
                 c.get("margin_width", 1.0)).standard_symbols()
    for d in r.get("calls_data", []):
        if d["name"] not in cfg.syms and "rows" in d:
            (cfg.update_sym if d["call"] == "update" else cfg.label_sym)(d["name"], [tuple(x) for x in d["rows"]], tuple(d["columns"]))
    acc = Acc()
    det = cfg.new_detector()
    pre, gathered, seq = observe(det), START, []
    print("config:", json.dumps(cfg.describe()))
    print("initial:", dict(zip(OBS, pre)))
    for name in r["calls"]:
        sym = cfg.syms[name]
        out, post = do_call(det, sym)
        seq.append(name)
        ok, gathered, info = check_call(acc, cfg, seq, pre, sym, out, post, gathered)
        print(f"{len(seq) - 1:3d} {name:14s} {out:16s} {dict(zip(OBS, post))}  [{info['branch']}]" + ("" if ok else "   <-- deviates"))
        if not ok:
            break
        pre = post
    for f in acc.fails:
        print("FAILS:", f["what"], json.dumps({k_: v for k_, v in f.items() if k_ in ("observable", "prescribed", "impl", "branch")}, default=str))
    return 1 if acc.fails else 0
