"""
C10 — NN space partitioner / NN-DVI.

Correspondence: the real `NNSpacePartitioner` / `NNDVI` (public API only) against the
Lean model `Model/NNSP.lean` executed by mdriver, on generated pairs of point sets and
batch sequences.  The adjacency matrix (sklearn) and the permutations drawn by
`np.random.permutation` are *inputs* of the model: the adjacency is read from the
public `adjacency_matrix` and validated by the model's `isKnnRelation` (and, here,
against brute-force distances); the permutations are captured by wrapping
`np.random.permutation` inside this process (the wrapper verifies that the recorded
index permutation explains the returned vector).

Property clauses evaluated directly on the implementation (-> ctx.fail):
  membership exactness against Python set logic, D = sorted distinct union,
  k-NN validity by brute force, nnps weights, distance = declarative formula (exact
  rationals), range [0,1], symmetry under swapping the samples, identical sets => 0,
  NNDVI: the vector permuted is v_ref, sampling_times draws, drift iff
  d > mean + z*std(pop) of the re-assignment distances, reference replaced iff drift,
  samples_since_reset restarts after a drift.
"""
import json, math, os
for _v in ("OMP_NUM_THREADS", "OPENBLAS_NUM_THREADS", "MKL_NUM_THREADS"):   # tiny matrices: threads only cost
    os.environ.setdefault(_v, "1")
from fractions import Fraction
import numpy as np
import core

TRUST = [
    "sklearn NearestNeighbors.kneighbors_graph is an input of the model: read from the public adjacency_matrix, validated per case by the model's isKnnRelation and by brute-force distances (tie-breaking left free); assumed deterministic for equal input (NNDVI builds its partitioner internally)",
    "np.random.permutation: the index permutations drawn are inputs, captured by a wrapper that checks out == v[idx] for idx drawn from the same RNG state",
    "scipy.stats.norm.ppf(1 - alpha) supplies the critical value z (oracle); norm.fit and the threshold z*std + mu are modelled (mean, population std; defined also for std = 0)",
    "coordinates are dyadic (integers or multiples of 2^-8), so squared distances are exact in binary64 and sklearn's distance expansion cannot reorder neighbours; NaN, -0.0, empty samples and samples of different widths are excluded",
    "numpy's pairwise summation order is not modelled: numeric observables are compared with relative tolerance 1e-9, decisions within 1e-9 of their threshold are truncated (thin margin)",
]



# ------------------------------------------------------------------ generators
OFFSET = 2.0 ** 24


def gen_set(rng, n, dim, kind, shift=0.0):
    if kind == "grid":
        g = int(rng.choice([2, 3, 4]))
        a = rng.integers(0, g, size=(n, dim)).astype(float)
    elif kind == "lattice":          # few duplicates, many equidistant ties
        a = rng.integers(0, 7, size=(n, dim)).astype(float)
    else:                            # "cont": dyadic, practically no ties
        a = rng.integers(-512, 513, size=(n, dim)) / 256.0
    a = a + shift
    if kind != "cont" and n and rng.random() < 0.25:
        # negative zeros (np.round(-0.3), products with 0): the same point as +0.0 — pooling, membership and distances must not tell them apart
        z = (a == 0) & (rng.random(a.shape) < 0.5)
        a = np.where(z, -0.0, a)
    return a


def gen_pair(rng, idx):
    kind = ["grid", "lattice", "cont"][idx % 3]
    dim = int(rng.choice([1, 2, 3]))
    mode = idx % 5
    if mode == 0:
        n1 = n2 = int(rng.integers(1, 41))
    elif mode == 1:
        n1, n2 = int(rng.integers(1, 6)), int(rng.integers(1, 41))
    elif mode == 2:
        n1, n2 = int(rng.integers(1, 41)), int(rng.integers(1, 6))
    else:
        n1, n2 = int(rng.integers(1, 41)), int(rng.integers(1, 41))
    shift = float(rng.choice([0.0, 0.0, 1.0, 4.0]))
    s1 = gen_set(rng, n1, dim, kind)
    s2 = gen_set(rng, n2, dim, kind, shift)
    # duplicates across the samples (also for continuous data) and within a sample
    if rng.random() < 0.5:
        m = int(rng.integers(1, min(n1, n2) + 1))
        s2[rng.choice(n2, m, replace=False)] = s1[rng.choice(n1, m, replace=False)]
    if rng.random() < 0.3 and n1 > 1:
        s1[int(rng.integers(0, n1))] = s1[int(rng.integers(0, n1))]
    k = int(rng.choice([1, 2, 5]))
    if idx % 7 == 3 and kind != "cont":
        # integer data riding on a common level of 2^24: exactly representable in binary64 (distances between points unchanged),
        # but not in any narrower float type — the partition must be that of the points as given
        s1, s2, kind = s1 + OFFSET, s2 + OFFSET, kind + "+2^24"
    return {"k": k, "s1": s1, "s2": s2, "kind": kind}


def same_set_variant(rng, s):
    """another sample with exactly the same set of points (rows permuted, some repeated)"""
    extra = rng.integers(0, len(s), size=int(rng.integers(0, 4)))
    idx = np.concatenate([rng.permutation(len(s)), extra])
    return s[rng.permutation(idx)]


def gen_sequence(rng, idx):
    kind = ["grid", "lattice", "cont"][idx % 3]
    dim = int(rng.choice([1, 2]))
    k = int(rng.choice([1, 2, 3, 5], p=[0.15, 0.4, 0.15, 0.3]))   # k = 1: adjacency = identity, every distance is 0 or 1
    st = int(rng.choice([5, 30]))
    if idx % 11 == 4:
        st = int(rng.choice([150, 101, 250]))          # more re-assignments than any internal block size, and not a multiple of one
    alpha = float(rng.choice([0.01, 0.05, 0.2, 0.5, 0.7]))
    nb = int(rng.integers(2, 9))
    ref = gen_set(rng, int(rng.integers(2, 41)), dim, kind)
    cur, shift = ref, 0.0
    batches = []
    for _ in range(nb):
        r = rng.random()
        n = int(rng.integers(2, 41))
        if r < 0.4:
            X = gen_set(rng, n, dim, kind, shift)
        elif r < 0.7:
            shift += float(rng.choice([1.0, 3.0, 8.0]))
            X = gen_set(rng, n, dim, kind, shift)
        elif r < 0.85:
            X = cur[rng.integers(0, len(cur), size=n)]
        else:
            X = np.vstack([cur[rng.integers(0, len(cur), size=max(1, n // 2))],
                           gen_set(rng, n - n // 2 if n - n // 2 > 0 else 1, dim, kind, shift)])
        batches.append(np.array(X, dtype=float))
        cur = batches[-1]
    seeds = [int(x) for x in rng.integers(0, 2**31 - 1, size=nb)]
    if idx % 7 == 3 and kind != "cont":
        ref, batches, kind = ref + OFFSET, [b + OFFSET for b in batches], kind + "+2^24"
    return {"k": k, "st": st, "alpha": alpha, "ref": ref, "batches": batches, "seeds": seeds, "kind": kind}


# ------------------------------------------------------------------ implementation access
_MIX = [0]


def impl_build(NNSP, k, s1, s2):
    try:
        p = NNSP(k)
        a1, a2 = np.array(s1, copy=True), np.array(s2, copy=True)
        # the two samples as a caller may hold them: when one of them is integral it arrives in an integer dtype (int64 / int32) or as a
        # list of Python ints while the other one stays float64 -- the partition is that of the VALUES (numpy promotes, it never truncates)
        _MIX[0] += 1
        for which, a in ((1, a1), (2, a2)):
            if a.size and _MIX[0] % 3 == which % 3 and np.all(a == np.round(a)) and np.all(np.abs(a) < 2 ** 31):
                a = a.astype(np.int64 if _MIX[0] % 2 else np.int32)
                if which == 1:
                    a1 = a.tolist() if _MIX[0] % 5 == 0 else a
                else:
                    a2 = a
        p.build(a1, a2)
        return {"D": np.array(p.D, dtype=float), "v1": np.array(p.v1, dtype=float), "v2": np.array(p.v2, dtype=float),
                "adj": np.array(p.adjacency_matrix, dtype=float), "nnps": np.array(p.nnps_matrix, dtype=float),
                "dist": float(NNSP.compute_nnps_distance(p.nnps_matrix, p.v1, p.v2))}
    except Exception as ex:
        return {"exc": type(ex).__name__}


def rows_of(a):
    return [tuple(float(x) for x in r) for r in np.asarray(a, dtype=float)]


def spec_distance(adj01, w, m1, m2):
    """declarative NNPS distance in exact rationals: sum_j |a_j - b_j| / (a_j + b_j) / n"""
    n = len(m1)
    a = [sum(w[i] * adj01[i][j] for i in range(n) if m1[i]) for j in range(n)]
    b = [sum(w[i] * adj01[i][j] for i in range(n) if m2[i]) for j in range(n)]
    tot = Fraction(0)
    for x, y in zip(a, b):
        if x + y == 0:
            return None
        tot += Fraction(abs(x - y), x + y)
    return tot / n


def knn_valid(D, k, adj):
    """brute force: k ones per row, self included, no excluded point strictly closer than an included one"""
    n = len(D)
    if adj.shape != (n, n) or not np.all((adj == 0) | (adj == 1)):
        return "shape/entries"
    d2 = ((D[:, None, :] - D[None, :, :]) ** 2).sum(axis=2)
    for i in range(n):
        inc = adj[i] == 1
        if inc.sum() != k:
            return f"row {i} has {int(inc.sum())} ones, k={k}"
        if not inc[i]:
            return f"row {i} does not include the point itself"
        if (~inc).any() and d2[i][~inc].min() < d2[i][inc].max():
            return f"row {i}: an excluded point is strictly closer than an included one"
    return None


def clauses_nnsp(NNSP, k, s1, s2, variant=None):
    """property clauses on the implementation; returns (observation, [failure dicts])"""
    fails = []
    inp = {"k": k, "sample1": np.asarray(s1).tolist(), "sample2": np.asarray(s2).tolist()}

    def fail(cls, what, **kw):
        fails.append({"signature": {"class": cls}, "what": what, "component": "NNSpacePartitioner", **inp, **kw})

    o = impl_build(NNSP, k, s1, s2)
    r1, r2 = rows_of(s1), rows_of(s2)
    set1, set2 = set(r1), set(r2)
    expD = sorted(set1 | set2)
    if "exc" in o:
        if 1 <= k <= len(expD):
            fail("nnsp-build-raises", "build raises on valid input", exc=o["exc"])
        return o, fails
    if k < 1 or k > len(expD):
        fail("nnsp-build-accepts-bad-k", "build accepted k outside 1..|D|")
        return o, fails
    D = rows_of(o["D"])
    if D != expD:
        fail("nnsp-pool", "D is not the sorted distinct union of the two samples", D=D)
        return o, fails
    n = len(D)
    e1 = [1.0 if p in set1 else 0.0 for p in D]
    e2 = [1.0 if p in set2 else 0.0 for p in D]
    if list(o["v1"]) != e1 or list(o["v2"]) != e2:
        fail("nnsp-membership", "v1/v2 do not mark exactly the points of sample1/sample2",
             v1=list(o["v1"]), v2=list(o["v2"]), expected_v1=e1, expected_v2=e2)
    bad = knn_valid(o["D"], k, o["adj"])
    if bad:
        fail("nnsp-knn", "adjacency_matrix is not a k-nearest-neighbour relation with self-inclusion: " + bad,
             adjacency=o["adj"].tolist())
        return o, fails
    adj01 = o["adj"].astype(int).tolist()
    ws = [sum(r) for r in adj01]
    q = math.lcm(*ws)
    w = [q // x for x in ws]
    expM = [[w[i] * adj01[i][j] for j in range(n)] for i in range(n)]
    if o["nnps"].shape != (n, n) or o["nnps"].tolist() != [[float(x) for x in r] for r in expM]:
        fail("nnsp-weights", "nnps_matrix differs from (lcm of row sums / row sum) * adjacency", nnps=o["nnps"].tolist())
        return o, fails
    d = o["dist"]
    sd = spec_distance(adj01, w, [x == 1.0 for x in e1], [x == 1.0 for x in e2])
    if sd is None or not core.close(d, float(sd)):
        fail("nnsp-distance-formula", "compute_nnps_distance differs from sum_j |a_j-b_j|/(a_j+b_j)/|D|",
             impl=d, spec=None if sd is None else float(sd))
    if not (0.0 <= d <= 1.0 + 1e-12):
        fail("nnsp-distance-range", "distance outside [0, 1]", impl=d)
    # symmetry: swap the samples
    o2 = impl_build(NNSP, k, s2, s1)
    if "exc" in o2 or rows_of(o2["D"]) != D or list(o2["v1"]) != e2 or list(o2["v2"]) != e1 \
            or not core.close(o2["dist"], d, rel=1e-12):
        fail("nnsp-distance-symmetry", "swapping the samples changes D / memberships / distance",
             dist=d, swapped=o2.get("dist", o2.get("exc")))
    # identical sets => 0
    if variant is not None and k <= len(set1):
        o3 = impl_build(NNSP, k, s1, variant)
        if "exc" in o3 or o3["dist"] != 0.0 or not np.all(o3["v1"] == 1.0) or not np.all(o3["v2"] == 1.0):
            fail("nnsp-distance-identity", "distance between two samples with the same point set is not 0",
                 other_sample=np.asarray(variant).tolist(), dist=o3.get("dist", o3.get("exc")))
    return o, fails


class PermTap:
    """records the index permutations behind np.random.permutation(v) calls"""

    def __init__(self):
        self.rec = []

    def __enter__(self):
        self.orig = np.random.permutation
        orig, rec = self.orig, self.rec

        def tap(x):
            st = np.random.get_state()
            out = orig(x)
            try:
                xa = np.asarray(x)
                if xa.ndim == 1 and not isinstance(x, (int, np.integer)):
                    st2 = np.random.get_state()
                    np.random.set_state(st)
                    idx = orig(len(xa))
                    np.random.set_state(st2)
                    rec.append({"idx": [int(i) for i in idx], "arg": np.array(xa, dtype=float),
                                "explained": bool(np.array_equal(out, xa[idx]))})
                else:
                    rec.append({"idx": None, "arg": None, "explained": False})
            except Exception:
                rec.append({"idx": None, "arg": None, "explained": False})
            return out

        np.random.permutation = tap
        return self

    def __exit__(self, *a):
        np.random.permutation = self.orig


def bits_rows(a):
    a = np.asarray(a, dtype=float)
    return " ".join(core.f2b(x) for x in a.ravel())


def adj_tokens(adj):
    if adj is None:
        return "adj 0"
    rows = ["".join("1" if x == 1 else "0" for x in r) for r in adj]
    return "adj %d %s" % (len(rows), " ".join(rows))


def run_sequence(NNDVI, NNSP, case, z, theta_equal_counter=None):
    """drive NNDVI over the batch sequence; returns (steps, failures); steps carry the model line and the
    implementation's observables"""
    k, st, alpha = case["k"], case["st"], case["alpha"]
    fails, steps = [], []
    base = {"component": "NNDVI", "k_nn": k, "sampling_times": st, "alpha": alpha,
            "reference": np.asarray(case["ref"]).tolist(),
            "batches": [np.asarray(b).tolist() for b in case["batches"]], "seeds": case["seeds"]}

    def fail(cls, what, step, **kw):
        fails.append({"signature": {"class": cls} if isinstance(cls, str) else cls, "what": what, "step": step, **base, **kw})

    det = NNDVI(k_nn=k, sampling_times=st, alpha=alpha)
    try:
        det.set_reference(np.array(case["ref"], copy=True))
    except Exception as ex:
        fail("nndvi-set-reference-raises", "set_reference raises on a valid batch", -1, exc=type(ex).__name__)
        return steps, fails
    want_ref = np.array(case["ref"], copy=True)     # what the property says the reference is
    prev_drift, prev_since = False, 0
    for t, X in enumerate(case["batches"]):
        try:
            pre_ref = np.array(det.reference_batch, dtype=float, copy=True)
        except Exception:
            pre_ref = None
        if pre_ref is None or pre_ref.shape != want_ref.shape or not np.array_equal(pre_ref, want_ref):
            fail("nndvi-reference", "reference_batch is not (last drifting batch | initial reference)", t,
                 reference_batch=None if pre_ref is None else pre_ref.tolist(), expected=want_ref.tolist())
            break
        part = impl_build(NNSP, k, pre_ref, X)
        np.random.seed(case["seeds"][t])
        exc = None
        with PermTap() as tap:
            try:
                det.update(np.array(X, copy=True))
            except Exception as ex:
                exc = type(ex).__name__
        try:
            obs = {"state": det.drift_state, "total": int(det.total_batches), "since": int(det.batches_since_reset),
                   "ref": np.array(det.reference_batch, dtype=float, copy=True)}
        except Exception as ex:
            fail("nndvi-observables", "public observables unreadable", t, exc=type(ex).__name__)
            break
        step = {"t": t, "X": X, "part": part, "exc": exc, "obs": obs, "perms": None, "d": None, "theta": None,
                "margin": None, "std": None}
        steps.append(step)
        if "exc" in part:
            if exc is None:
                fail("nndvi-accepts-bad-k", "update accepted a batch whose pool has fewer than k_nn points", t)
                break
            step["line"] = "batch %d %d %s adj 0 perms 0" % (X.shape[1], X.shape[0], bits_rows(X))
            prev_since = (0 if prev_drift else prev_since) + 1
            prev_drift = False
            continue
        if exc is not None:
            fail("nndvi-update-raises", "update raises on a valid batch", t, exc=exc)
            break
        rec = tap.rec
        if len(rec) != st or not all(r["explained"] for r in rec) \
                or not all(r["arg"].shape == part["v1"].shape and np.array_equal(r["arg"], part["v1"]) for r in rec):
            fail("nndvi-draws", "update does not draw sampling_times permutations of v_ref", t, draws=len(rec))
            break
        perms = [r["idx"] for r in rec]
        step["perms"] = perms
        step["line"] = "batch %d %d %s %s perms %d %s" % (
            X.shape[1], X.shape[0], bits_rows(X), adj_tokens(part["adj"]), len(perms),
            " ".join(",".join(map(str, p)) for p in perms))
        # the decision rule, from public pieces only
        d = part["dist"]
        ds = []
        for p in perms:
            v1s = part["v1"][p]
            ds.append(float(NNSP.compute_nnps_distance(part["nnps"], v1s, 1 - v1s)))
        mu, sd = float(np.mean(ds)), float(np.std(ds))
        step["d"], step["std"], step["mu"] = d, sd, mu
        drift = obs["state"] == "drift"
        if obs["state"] not in (None, "drift"):
            fail("nndvi-state", "drift_state is neither None nor 'drift'", t, state=repr(obs["state"]))
            break
        # threshold = norm.ppf(1 - alpha) * std + mu, also when all re-assignment distances coincide (std = 0)
        theta = z * sd + mu
        if theta_equal_counter is not None and d == theta and sd > 0:
            theta_equal_counter.append(t)
        step["theta"] = theta
        step["margin"] = abs(d - theta) / max(1.0, abs(d), abs(theta))
        if drift != (d > theta) and (step["margin"] > 1e-9 or case.get("exact")):
            fail("nndvi-decision", "drift_state differs from [distance > mean + z*std of the re-assignment distances]", t,
                 distance=d, threshold=theta, mean=mu, std=sd, z=z, impl_state=obs["state"])
            break
        # reference replaced iff drift
        exp_ref = np.asarray(X, dtype=float) if drift else pre_ref
        if obs["ref"].shape != exp_ref.shape or not np.array_equal(obs["ref"], exp_ref):
            fail("nndvi-reference", "after update the reference is not (test batch if drift else previous reference)", t,
                 drift=drift, reference_batch=obs["ref"].tolist())
            break
        want_ref = np.array(exp_ref, copy=True)
        exp_since = (0 if prev_drift else prev_since) + 1
        if obs["since"] != exp_since or obs["total"] != t + 1:
            fail("nndvi-counters", "total_batches / batches_since_reset wrong", t, total=obs["total"], since=obs["since"],
                 expected_since=exp_since)
            break
        prev_drift, prev_since = drift, obs["since"]
    return steps, fails


# ------------------------------------------------------------------ model output parsing
def parse_kv(out, keys):
    toks = out.split(" ")
    pos = {}
    for kname in keys:
        pos[kname] = toks.index(kname)
    order = sorted(pos.items(), key=lambda kv: kv[1])
    res = {"head": toks[:order[0][1]]}
    for (kname, p), nxt in zip(order, order[1:] + [(None, len(toks))]):
        res[kname] = toks[p + 1:nxt[1]]
    return res


def compare_nnsp(ctx, case_id, case, o, out):
    """model output line vs implementation observation of one build"""
    def mm(what, impl, model):
        ctx.mismatch(component="NNSpacePartitioner", case=case_id, observable=what, impl=impl, model=model,
                     k=case["k"], sample1=case["s1"].tolist(), sample2=case["s2"].tolist())
    if "exc" in o:
        if out != "reject":
            mm("accept/reject", "EXC:" + o["exc"], out[:60])
        return
    if out == "reject" or not out.startswith("ok "):
        mm("accept/reject", "accepted", out[:60])
        return
    r = parse_kv(out, ["D", "v1", "v2", "knn", "nnps", "dist"])
    n = int(r["head"][1])
    # the sign of a zero coordinate is not part of a point's identity (0.0 == -0.0): which representative survives pooling is left free
    if n != len(o["D"]) or [core.f2b(core.b2f(x) + 0.0) for x in r["D"]] != [core.f2b(float(x) + 0.0) for x in o["D"].ravel()]:
        mm("D", o["D"].tolist(), [core.b2f(x) for x in r["D"]]); return
    v1 = "".join("1" if x == 1.0 else "0" for x in o["v1"])
    v2 = "".join("1" if x == 1.0 else "0" for x in o["v2"])
    if r["v1"] != [v1] or r["v2"] != [v2]:
        mm("v1/v2", [v1, v2], [r["v1"], r["v2"]]); return
    if r["knn"] != ["1"]:
        mm("adjacency_matrix (isKnnRelation)", o["adj"].tolist(), "rejected by the model's predicate"); return
    im = o["nnps"].ravel()
    if not np.all(im == np.round(im)) or [str(int(x)) for x in im] != r["nnps"]:
        mm("nnps_matrix", o["nnps"].tolist(), " ".join(r["nnps"])[:400]); return
    md = core.b2f(r["dist"][0])
    if not core.close(o["dist"], md):
        mm("compute_nnps_distance", o["dist"], md)


def compare_sequence(ctx, case_id, case, steps, outs):
    def mm(step, what, impl, model):
        ctx.mismatch(component="NNDVI", case=case_id, step=step, observable=what, impl=impl, model=model,
                     k_nn=case["k"], sampling_times=case["st"], alpha=case["alpha"],
                     reference=case["ref"].tolist(), batches=[b.tolist() for b in case["batches"]], seeds=case["seeds"])
    for s, out in zip(steps, outs):
        ctx.traces += 1
        o = s["obs"]
        toks = out.split(" ")
        if out == "bad-op" or toks[0] not in ("ok", "reject"):
            mm(s["t"], "operation", "accepted" if s["exc"] is None else "EXC:" + s["exc"], out[:80]); return
        if (toks[0] == "reject") != (s["exc"] is not None):
            mm(s["t"], "accept/reject", "EXC:" + str(s["exc"]) if s["exc"] else "accepted", toks[0]); return
        r = parse_kv(out, ["ref"] if toks[0] == "reject" else ["d", "th", "knn", "ref"])
        head = r["head"][1:]
        if toks[0] == "ok":
            md = core.b2f(r["d"][0])
            mth = core.b2f(r["th"][0])
            if r["knn"] != ["1"]:
                mm(s["t"], "adjacency (isKnnRelation)", s["part"]["adj"].tolist(), "rejected by the model's predicate"); return
            if not core.close(md, s["d"]):
                mm(s["t"], "distance", s["d"], md); return
            # thin margin of the decision d > theta
            mstate = head[0]
            if mstate != core.dstr(o["state"]):
                margin = min(abs(md - mth) / max(1.0, abs(md), abs(mth)), s["margin"] if s["margin"] is not None else 1.0)
                if margin <= 1e-9 and not case.get("exact"):
                    ctx.thin += 1; return
                mm(s["t"], "drift_state", o["state"], mstate); return
            if not core.close(mth, s["theta"]):
                mm(s["t"], "threshold", s["theta"], mth); return
        if head != [core.dstr(o["state"]) if o["state"] in (None, "warning", "drift") else "?", str(o["total"]), str(o["since"])]:
            mm(s["t"], "state/counters", [o["state"], o["total"], o["since"]], head); return
        iref = [str(o["ref"].shape[0])] + [core.f2b(x) for x in o["ref"].ravel()]
        if r["ref"] != iref:
            mm(s["t"], "reference_batch", o["ref"].tolist(), "differs"); return


# ------------------------------------------------------------------ corpus
CORPUS_SEQ = [
    # k = |D| makes every re-assignment distance equal (std = 0, threshold = mean = 0): d = 0.2 must be reported
    # as drift (was a NaN threshold before /repo commit fe25b1e)
    {"k": 4, "st": 5, "alpha": 0.05, "ref": np.array([[0.0], [1.0]]), "batches": [np.array([[1.0], [2.0], [3.0]])],
     "seeds": [0], "kind": "corpus"},
    # F5 (fixed): unequal sizes
    {"k": 2, "st": 5, "alpha": 0.05, "ref": np.array([[0.0], [1.0], [2.0], [3.0], [4.0], [5.0]]),
     "batches": [np.array([[10.0], [11.0]]), np.array([[10.0], [11.0], [12.0]])], "seeds": [1, 2], "kind": "corpus"},
]
CORPUS_PAIRS = [
    {"k": 2, "s1": np.array([[0.0], [1.0], [2.0], [3.0], [4.0], [5.0]]), "s2": np.array([[10.0], [11.0]]), "kind": "corpus"},
    {"k": 1, "s1": np.array([[1.0, 1.0]]), "s2": np.array([[1.0, 1.0]]), "kind": "corpus"},
    {"k": 5, "s1": np.array([[0.0], [0.0], [1.0]]), "s2": np.array([[1.0], [0.0]]), "kind": "corpus"},
]


def zero_spread_cases(rng):
    """k = |D| (complete neighbourhood graph): every re-assignment distance equals |2|v_ref| - m| / m, so std = 0 and
    the threshold is that value; with |v_ref| = m/2 it is exactly 0.  A test batch covering more than m/2 points
    is at distance > 0 (drift), one covering exactly the complementary half is at distance 0 (= threshold: no drift)."""
    out = []
    for j in range(6):
        m = int(rng.choice([4, 6, 8]))
        pts = rng.permutation(np.arange(m, dtype=float) * float(rng.choice([1.0, 0.5, 3.0]))).reshape(-1, 1)
        ref, rest = pts[:m // 2], pts[m // 2:]
        more = np.vstack([rest, ref[:int(rng.integers(1, m // 2 + 1))]])
        batches = [rest, more] if j % 2 == 0 else [more, rest]
        out.append({"k": m, "st": int(rng.choice([5, 30])), "alpha": float(rng.choice([0.01, 0.05, 0.5])), "ref": ref,
                    "batches": batches, "seeds": [int(x) for x in rng.integers(0, 2**31 - 1, size=2)],
                    "kind": "zero-spread", "exact": True})
    return out


def boundary_cases(NNSP):
    """alpha = 0.5 gives z = 0, so the threshold is the mean of the re-assignment distances; on four
    well-separated pairs (k = 2) every distance is a multiple of 1/4, hence exact in binary64: seeds are
    searched for which mean == distance exactly with std > 0, where `>` and `>=` differ"""
    ref = np.array([[0.0], [1.0], [10.0], [20.0]])
    X = np.array([[11.0], [21.0], [30.0], [31.0]])
    o = impl_build(NNSP, 2, ref, X)
    out = []
    if "exc" in o:
        return out
    for seed in range(400):
        np.random.seed(seed)
        ds = []
        for _ in range(5):
            v = o["v1"][np.random.permutation(len(o["v1"]))]
            ds.append(float(NNSP.compute_nnps_distance(o["nnps"], v, 1 - v)))
        if float(np.mean(ds)) == o["dist"] and np.std(ds) > 0:
            out.append({"k": 2, "st": 5, "alpha": 0.5, "ref": ref, "batches": [X, X], "seeds": [seed, seed],
                        "kind": "boundary", "exact": True})
            if len(out) >= 3:
                break
    return out


# ------------------------------------------------------------------ run
def run(ctx):
    # detector objects are independent of one another (a consequence of "the outputs are a function of the detector's own
    # parameters and history"): solo trace = trace when a second object of the class is updated alternately (impl/zoo.py)
    from impl import zoo as _zoo
    for _f in _zoo.isolation_failures(ctx, ['NNDVI']):
        ctx.fail(signature={"clause": "detector-objects-independent"}, **_f)
    from menelaus.partitioners import NNSpacePartitioner as NNSP
    from menelaus.data_drift import NNDVI
    from scipy.stats import norm
    import warnings
    warnings.simplefilter("ignore")
    np.seterr(all="ignore")
    rng = np.random.default_rng(ctx.seed)
    n_pairs = 800 if ctx.quick else 15000
    n_seq = 250 if ctx.quick else 5000
    ctx.rule = ("pairs of point sets (sizes 1-40, equal/unequal, integer grids with many duplicates, lattices with many "
                "distance ties, dyadic continuous; duplicates within and across samples; k in {1,2,5}) and NNDVI batch "
                "sequences (2-8 batches, k in {1,2,3,5}, sampling_times in {5,30}, alpha in {.01,.05,.2,.5,.7}) plus, per sequence, two "
                "single-step probes whose alpha puts the threshold 1% of z*std on either side of the observed distance; a pair is non-trivial when "
                "both memberships are mixed or the samples overlap partially; a sequence step is non-trivial when the "
                "update was accepted; distinct = distinct (k, samples) / (config, history prefix)")
    lines, hooks = [], []     # hooks[i] = None | ("pair", id, case, obs) | ("seq-step", ...)

    # ---- pairs
    pairs = list(CORPUS_PAIRS) + [gen_pair(rng, i) for i in range(n_pairs)]
    for i, c in enumerate(pairs):
        k, s1, s2 = c["k"], c["s1"], c["s2"]
        variant = same_set_variant(rng, s1)
        o, fails = clauses_nnsp(NNSP, k, s1, s2, variant)
        for f in fails:
            ctx.fail(**f)
        lines.append("new nnsp %d" % k); hooks.append(None)
        lines.append("build %d %d %d %s %s %s" % (s1.shape[1], len(s1), len(s2), bits_rows(s1), bits_rows(s2),
                                                  adj_tokens(None if "exc" in o else o["adj"])))
        hooks.append(("pair", i, c, o))
        ctx.count("pair:" + c["kind"])
        ctx.count("pair:k=%d" % k)
        ctx.count("pair:equal-sizes" if len(s1) == len(s2) else "pair:unequal-sizes")
        if "exc" in o:
            ctx.count("pair:rejected (k > |D|)")
            ctx.case(("pair", k, s1.tolist(), s2.tolist()), False)
        else:
            both = int(np.sum((o["v1"] == 1) & (o["v2"] == 1)))
            if both:
                ctx.count("pair:shared points")
            if len(o["D"]) < len(s1) + len(s2) - both or len(o["D"]) < len(s1) + len(s2):
                ctx.count("pair:duplicates removed")
            if o["dist"] == 1.0:
                ctx.count("pair:dist=1")
            elif o["dist"] == 0.0:
                ctx.count("pair:dist=0")
            else:
                ctx.count("pair:0<dist<1")
            ctx.case(("pair", k, s1.tolist(), s2.tolist()), 0 < o["v1"].sum() and 0 < o["v2"].sum() and len(o["D"]) > 1)
        if i in (3, 4):
            ctx.sample({"k": k, "sample1": s1.tolist()[:6], "sample2": s2.tolist()[:6],
                        "impl": {kk: (v.tolist() if hasattr(v, "tolist") else v) for kk, v in o.items() if kk in ("v1", "v2", "dist", "exc")}})

    ctx.extra["t_pairs_s"] = round(ctx.elapsed(), 1)
    # ---- sequences
    bnd = boundary_cases(NNSP)
    seqs = list(CORPUS_SEQ) + bnd + zero_spread_cases(rng) + [gen_sequence(rng, i) for i in range(n_seq)]
    i = -1
    while i + 1 < len(seqs):
        i += 1
        c = seqs[i]
        z = float(norm.ppf(1 - c["alpha"]))
        eq = []
        steps, fails = run_sequence(NNDVI, NNSP, c, z, eq)
        ctx.count("step:distance == threshold exactly", len(eq))
        # boundary-seeking probes: the same first batch and draws with alpha chosen so that the
        # threshold lands 1% (in units of z*std) on either side of the observed distance
        if c["kind"] not in ("corpus", "probe", "boundary", "zero-spread") and steps and steps[0]["std"] is not None and steps[0]["std"] > 1e-6:
            t = (steps[0]["d"] - steps[0]["mu"]) / steps[0]["std"]
            if 0.05 < abs(t) < 5.0:
                for f in (0.99, 1.01):
                    a = float(1.0 - norm.cdf(t * f))
                    if 1e-9 < a < 1 - 1e-9:
                        seqs.append({"k": c["k"], "st": c["st"], "alpha": a, "ref": c["ref"], "batches": c["batches"][:1],
                                     "seeds": c["seeds"][:1], "kind": "probe"})
        for f in fails:
            ctx.fail(**f)
        lines.append("new nndvi %d %d %s" % (c["k"], c["st"], core.f2b(z))); hooks.append(None)
        lines.append("ref %d %d %s" % (c["ref"].shape[1], len(c["ref"]), bits_rows(c["ref"]))); hooks.append(None)
        first = len(lines)
        usable = [s for s in steps if "line" in s]
        for s in usable:
            lines.append(s["line"]); hooks.append(None)
        hooks[-1] = ("seq", i, c, usable, first) if usable else hooks[-1]
        ctx.count("seq:" + c["kind"]); ctx.count("seq:sampling_times=%d" % c["st"]); ctx.count("seq:k=%d" % c["k"])
        ndr = 0
        for s in usable:
            if s["exc"] is not None:
                ctx.count("step:rejected (k > |D|)")
            elif s["obs"]["state"] == "drift":
                ctx.count("step:drift"); ndr += 1
            else:
                ctx.count("step:no drift")
                if s["theta"] is not None and s["d"] > s["mu"]:
                    ctx.count("step:no drift with mean < d <= threshold")
            if s["std"] is not None and s["std"] == 0.0:
                ctx.count("step:std=0 (threshold = mean)")
                if s["obs"]["state"] == "drift":
                    ctx.count("step:drift with std=0")
            if ndr and s["obs"]["state"] != "drift" and s["exc"] is None:
                ctx.count("step:accepted after an earlier drift")
            ctx.case(("seq", i, s["t"], c["k"], c["st"], c["alpha"], s["X"].tolist()), s["exc"] is None)
            if c["kind"] == "probe":
                ctx.count("probe:drift" if s["obs"]["state"] == "drift" else "probe:no drift")
        ctx.count("seq:drifts=%d" % min(ndr, 3))
        if i == 3:
            ctx.sample({"k_nn": c["k"], "sampling_times": c["st"], "alpha": c["alpha"],
                        "trace": [[s["obs"]["state"], s["obs"]["total"], s["obs"]["since"], s["d"], s["theta"]] for s in usable]})

    ctx.extra["t_impl_done_s"] = round(ctx.elapsed(), 1)
    outs = core.run_driver(lines, timeout=900)
    ctx.extra["t_driver_done_s"] = round(ctx.elapsed(), 1)
    for idx, h in enumerate(hooks):
        if h is None:
            continue
        if h[0] == "pair":
            ctx.traces += 1
            compare_nnsp(ctx, h[1], h[2], h[3], outs[idx])
        else:
            _, i, c, usable, first = h
            compare_sequence(ctx, i, c, usable, outs[first:first + len(usable)])
    for idx, (l, o) in enumerate(zip(lines, outs)):
        if (l.startswith("new ") or l.startswith("ref ")) and o != "ok":
            raise core.Infra(f"driver rejected `{l[:60]}`: {o}")
    # the input distribution must not degenerate
    need = ["step:drift", "step:no drift", "step:accepted after an earlier drift", "pair:unequal-sizes",
            "pair:shared points", "pair:0<dist<1", "step:no drift with mean < d <= threshold", "probe:drift", "probe:no drift",
            "step:distance == threshold exactly", "step:drift with std=0"]
    missing = [n for n in need if ctx.stats.get(n, 0) < 3]
    if missing and not ctx.failing:
        raise core.Infra("degenerate input distribution: " + ", ".join(missing))


def search(ctx, mismatches):
    """neighbourhood of the mismatching cases, property clauses only"""
    from menelaus.partitioners import NNSpacePartitioner as NNSP
    from menelaus.data_drift import NNDVI
    from scipy.stats import norm
    rng = np.random.default_rng(ctx.seed + 1)
    found = []
    for m in mismatches[:5]:
        if m.get("component") == "NNSpacePartitioner":
            for j in range(400):
                c = gen_pair(rng, j)
                c["k"] = m["k"]
                _, fails = clauses_nnsp(NNSP, c["k"], c["s1"], c["s2"], same_set_variant(rng, c["s1"]))
                found += fails
                if found:
                    return found[:5]
        else:
            for j in range(150):
                c = gen_sequence(rng, j)
                c["k"], c["st"], c["alpha"] = m["k_nn"], m["sampling_times"], m["alpha"]
                _, fails = run_sequence(NNDVI, NNSP, c, float(norm.ppf(1 - c["alpha"])))
                found += fails
                if found:
                    return found[:5]
    return found


def replay(ctx, path):
    from menelaus.partitioners import NNSpacePartitioner as NNSP
    from menelaus.data_drift import NNDVI
    from scipy.stats import norm
    r = json.load(open(path))
    if r.get("component") == "NNSpacePartitioner":
        s1, s2 = np.array(r["sample1"], dtype=float), np.array(r["sample2"], dtype=float)
        var = np.array(r["other_sample"], dtype=float) if "other_sample" in r else None
        o, fails = clauses_nnsp(NNSP, r["k"], s1, s2, var)
        print(json.dumps({kk: (v.tolist() if hasattr(v, "tolist") else v) for kk, v in o.items()}, indent=1))
    elif r.get("component") == "NNDVI":
        c = {"k": r["k_nn"], "st": r["sampling_times"], "alpha": r["alpha"], "ref": np.array(r["reference"], dtype=float),
             "batches": [np.array(b, dtype=float) for b in r["batches"]], "seeds": r["seeds"]}
        steps, fails = run_sequence(NNDVI, NNSP, c, float(norm.ppf(1 - c["alpha"])))
        for s in steps:
            print(s["t"], s["obs"]["state"], s["obs"]["total"], s["obs"]["since"], "d=", s["d"], "theta=", s["theta"], "exc=", s["exc"])
    else:
        print(json.dumps(r, indent=1)[:4000])
        return 0
    for f in fails:
        print("FAILS:", f["signature"], f["what"], "step=", f.get("step"))
    print("reproduced" if fails else "not reproduced")
    return 1 if fails else 0
