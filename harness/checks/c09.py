"""
C09 — kdq-tree detectors alarm exactly when the leaf divergence exceeds a bootstrap bound.

Correspondence: menelaus.data_drift.kdq_tree.KdqTreeStreaming / KdqTreeBatch driven in-process
(public API: update, set_reference, drift_state, counters, to_plotly_dataframe) against the Lean
model Model/KdqDetect.lean (+ Model/KdqTree.lean) executed by mdriver at Float.  The bootstrap
index draws are inputs of the model: np.random.choice is wrapped inside this process and what the
implementation drew is handed to the model; the global numpy state is re-seeded before every call.

Property clauses evaluated directly on the implementation (independent of the model): a Python
monitor recomputes, from the public to_plotly_dataframe() counts and the recorded draws, the
divergence, the critical value (nearest-rank (1-alpha) quantile of the bootstrap divergences) and
the "in a row" persistence rule / batch rule, and compares with drift_state at every update.
"""
import json, math
import numpy as np
import core

TRUST = [
    "np.random.choice is trusted to draw from the distribution it is given; its results are recorded (wrapper inside the harness process) and are inputs of the model and of the monitor",
    "the partitioner (property C08) is used as an oracle by the monitor: a fresh public KDQTreePartitioner built on the epoch's reference gives the expected leaf counts",
    "private attributes _critical_dist, _test_dist, _drift_counter are read (getattr, skipped when absent) only as additional correspondence observables; the monitor uses public observables only",
    "inputs are finite 2-d arrays of constant width; one row per streaming update; bootstrap_samples >= 1 (np.quantile of an empty list raises)",
    "decisions whose margin |divergence - critical| is below 1e-9 are thin-margin truncations",
]


def exc(e):
    return "EXC:" + type(e).__name__


def spec_distn(counts):
    c = np.asarray(counts, dtype=float)
    return (c + 0.5) / (c.sum() + len(c) / 2.0)


def spec_kl(c1, c2):
    p, q = spec_distn(c1), spec_distn(c2)
    return float(math.fsum(float(a) * math.log(float(a) / float(b)) for a, b in zip(p, q)))


def spec_critical(k, s, draws, alpha):
    """nearest-rank (1 - alpha) quantile of the divergences between the halves of each draw"""
    ds = []
    for d in draws:
        h1 = np.bincount(np.asarray(d[:s], dtype=int), minlength=k)
        h2 = np.bincount(np.asarray(d[s:], dtype=int), minlength=k)
        ds.append(spec_kl(h1, h2))
    ds.sort()
    return ds[int(round((len(ds) - 1) * (1 - alpha)))]   # Python round = half to even = np.around


def thin(a, b):
    return abs(a - b) <= 1e-9 * max(1.0, abs(a), abs(b))


class Tap:
    """records what np.random.choice returned during one call of the implementation"""

    def __init__(self):
        self.orig = np.random.choice
        self.rec = []

    def __enter__(self):
        def wrapped(*a, **k):
            r = self.orig(*a, **k)
            self.rec.append([int(x) for x in np.asarray(r).reshape(-1)])
            return r
        np.random.choice = wrapped
        return self

    def __exit__(self, *a):
        np.random.choice = self.orig


def draws_str(rec):
    if not rec:
        return "0 0"
    ln = len(rec[0])
    if any(len(r) != ln for r in rec):
        # the code drew bootstrap samples of different sizes within one call (the documented bootstrap draws `bootstrap_samples`
        # samples of 2 x sample_size leaf indices): hand the model the first block only -- it will disagree, which is the finding
        rec = [r for r in rec if len(r) == ln]
    return f"{len(rec)} {ln} " + " ".join(str(x) for r in rec for x in r)


def leaf_counts_from_df(det):
    """(build counts, test counts) of the leaves, left to right, from the public dataframes (without the kss column,
    whose row-wise scipy calls dominate the run time)"""
    try:
        df = det.to_plotly_dataframe(tree_id1="build", tree_id2=None)
        dt = det.to_plotly_dataframe(tree_id1="test", tree_id2=None)
    except AttributeError:
        return None
    if not len(df):
        return None

    def leaves(d):
        parents = set(int(p) for p in d["parent_idx"] if p is not None and not (isinstance(p, float) and math.isnan(p)))
        return [(int(i), int(c)) for i, c in zip(d["idx"], d["cell_count"]) if int(i) not in parents]
    b = leaves(df)
    t = dict(leaves(dt)) if len(dt) else {}
    return [c for _, c in b], [t.get(i, 0) for i, _ in b]


def counts_str(lc):
    if lc is None:
        return "_ | _"
    return " ".join(map(str, lc[0])) + " | " + " ".join(map(str, lc[1]))


def fb(x):
    return "_" if x is None else core.f2b(float(x))


def as_fed(case_id, i, x):
    """container / dtype in which sample i of a streaming case is handed to update(): the first sample of every third case is
    integral and passed with an integer dtype (equivalent values in another container must not matter — here in particular to
    the reference window that later float samples are stacked onto)"""
    if i == 0 and case_id % 3 == 0 and np.all(x == np.round(x)):
        return x.astype(np.int64)
    return x


def seed_of(ctx_seed, case, i):
    return (ctx_seed * 1000003 + case * 7919 + i * 104729 + 12345) % (2 ** 32)


# ------------------------------------------------------------------ streaming
def run_stream(spec, seed, KdqTreeStreaming, KDQTreePartitioner):
    """returns (lines, impl observations, monitor failures, stats)"""
    w, p, alpha, boot, ub, cplb, m = (spec[k] for k in ("window", "persistence", "alpha", "boot", "count_ubound", "cplb", "m"))
    X = np.array(spec["stream"], dtype=float).reshape(-1, m)
    det = KdqTreeStreaming(window_size=w, persistence=p, alpha=alpha, bootstrap_samples=boot, count_ubound=ub,
                           cutpoint_proportion_lbound=cplb)
    lines = [f"new kdqs {w} {core.f2b(p)} {core.f2b(alpha)} {ub} {core.f2b(cplb)}"]
    obs = [None]
    fails, stats = [], {"drifts": 0, "evals": 0, "exceeds": 0, "run_resets": 0, "thin": 0, "epochs": 1}
    # monitor state
    pos, ref_rows, crit, runs, monitoring = 0, [], None, {0}, True
    for i in range(len(X)):
        x = X[i:i + 1].copy()
        np.random.seed(seed_of(seed, spec["id"], i))
        with Tap() as tap:
            try:
                det.update(as_fed(spec["id"], i, x))
                st = core.dstr(det.drift_state)
            except Exception as e:
                st = exc(e)
        lc = leaf_counts_from_df(det) if not st.startswith("EXC") else None
        o = {"drift": st, "total": getattr(det, "total_samples", None), "since": getattr(det, "samples_since_reset", None),
             "counter": getattr(det, "_drift_counter", None), "test_dist": getattr(det, "_test_dist", None),
             "critical": getattr(det, "_critical_dist", None), "leaves": counts_str(lc)}
        lines.append(f"u {m} " + " ".join(core.f2b(v) for v in x.reshape(-1)) + " | " + draws_str(tap.rec))
        obs.append(o)
        if st.startswith("EXC"):
            fails.append(("update raised " + st, {"step": i}))
            break
        # ---- monitor: the property's clauses on public observables
        if not monitoring:
            continue
        expect = "N"
        if pos < w:
            ref_rows.append(x[0])
        if pos < w - 1:
            if lc is not None:
                fails.append(("a tree exists before window_size samples of the epoch have arrived", {"step": i}))
        elif pos == w - 1:
            P = KDQTreePartitioner(count_ubound=ub, cutpoint_proportion_lbound=cplb)
            P.build(np.array(ref_rows))
            exp_counts = [int(c) for c in P.leaf_counts("build")]
            if lc is None or lc[0] != exp_counts or any(lc[1]):
                fails.append(("the reference tree is not the kdq-tree of the first window_size samples of the epoch",
                              {"step": i, "expected_leaf_counts": exp_counts, "observed": lc}))
                monitoring = False; continue
            if len(tap.rec) != boot or any(len(r) != 2 * w for r in tap.rec):
                fails.append(("bootstrap does not draw bootstrap_samples vectors of 2*window_size leaf indices",
                              {"step": i, "vectors": len(tap.rec), "lengths": sorted(set(len(r) for r in tap.rec))}))
                monitoring = False; continue
            crit = spec_critical(len(exp_counts), w, tap.rec, alpha)
            ref_counts, runs = exp_counts, {0}
        else:
            ntest = pos - w + 1
            if lc is None or lc[0] != ref_counts or sum(lc[1]) != ntest:
                fails.append(("test window: leaf counts are not (reference counts, counts of the test samples seen so far)",
                              {"step": i, "expected_test_total": ntest, "observed": lc}))
                monitoring = False; continue
            if ntest >= w:
                d = spec_kl(lc[0], lc[1])
                stats["evals"] += 1
                if thin(d, crit) and not (lc[0] == lc[1] or len(lc[0]) == 1):
                    # the comparison is decided by rounding: follow both outcomes, the implementation must match one
                    stats["thin"] += 1
                    runs = {r + 1 for r in runs} | {0}
                elif d > crit and not thin(d, crit):
                    stats["exceeds"] += 1
                    runs = {r + 1 for r in runs}
                else:
                    if max(runs) > 0:
                        stats["run_resets"] += 1
                    runs = {0}
                alarming = {r for r in runs if r > p * w}
                if st == "D" and alarming:
                    expect = "D"
                elif st == "N" and runs - alarming:
                    runs = runs - alarming
                else:
                    expect = "D" if alarming == runs else "N"
        if st != expect:
            fails.append(("drift_state differs from: drift iff the divergence exceeded the critical value for more than "
                          "persistence*window_size evaluations in a row (silent during the first 2*window_size-1 samples of an epoch)",
                          {"step": i, "position_in_epoch": pos, "observed": st, "expected": expect, "possible_run_lengths": sorted(runs),
                           "critical": crit}))
            monitoring = False; continue
        if expect == "D":
            stats["drifts"] += 1; stats["epochs"] += 1
            pos, ref_rows, crit, runs = 0, [], None, {0}
        else:
            pos += 1
    return lines, obs, fails, stats


def cmp_stream(o, mo):
    """compare one implementation observation with the model's output line; returns (why, thin)"""
    if mo == "RECURSION":
        return ("model ran out of fuel", False) if o["drift"] != "EXC:RecursionError" else (None, False)
    head, _, leaves = mo.partition(" | ")
    t = head.split(" ")
    if len(t) != 7:
        raise core.Infra("unexpected driver line: " + mo[:100])
    drift, total, since, counter, ev, td, cr = t
    md = None if td == "_" else core.b2f(td)
    mc = None if cr == "_" else core.b2f(cr)
    if o["critical"] is not None and mc is not None and not core.close(float(o["critical"]), mc):
        return "critical value differs", False
    if leaves != o["leaves"]:
        return "leaf counts differ", False
    if o["test_dist"] is not None and md is not None and not core.close(float(o["test_dist"]), md):
        return "divergence differs", False
    if (drift, total, since) != (o["drift"], str(o["total"]), str(o["since"])) or (o["counter"] is not None and str(o["counter"]) != counter):
        if md is not None and mc is not None and thin(md, mc):
            return None, True
        return "state / counters differ", False
    return None, False


# ------------------------------------------------------------------ batch
def run_batch(spec, seed, KdqTreeBatch, KDQTreePartitioner):
    alpha, boot, ub, cplb, m = (spec[k] for k in ("alpha", "boot", "count_ubound", "cplb", "m"))
    det = KdqTreeBatch(alpha=alpha, bootstrap_samples=boot, count_ubound=ub, cutpoint_proportion_lbound=cplb)
    lines = [f"new kdqb {core.f2b(alpha)} {ub} {core.f2b(cplb)}"]
    obs = [None]
    fails, stats = [], {"drifts": 0, "evals": 0, "thin": 0, "setrefs": 0, "adopted": 0}
    ref, pending, crit, monitoring, ref_counts = None, None, None, True, None
    for i, (kind, flat) in enumerate(spec["ops"]):
        X = np.array(flat, dtype=float).reshape(-1, m)
        np.random.seed(seed_of(seed, spec["id"], i))
        with Tap() as tap:
            try:
                Xf = X.astype(spec["dtype"]) if spec.get("dtype") else X.copy()     # integral data handed over in a narrow integer dtype
                if kind == "setref":
                    det.set_reference(Xf)
                else:
                    det.update(Xf)
                st = core.dstr(det.drift_state)
            except Exception as e:
                st = exc(e)
        lc = leaf_counts_from_df(det) if not st.startswith("EXC") else None
        o = {"drift": st, "total": getattr(det, "total_batches", None), "since": getattr(det, "batches_since_reset", None),
             "test_dist": getattr(det, "_test_dist", None), "critical": getattr(det, "_critical_dist", None),
             "leaves": counts_str(lc)}
        lines.append(("setref " if kind == "setref" else "u ") + f"{len(X)} {m} " + " ".join(core.f2b(v) for v in X.reshape(-1))
                     + " | " + draws_str(tap.rec))
        obs.append(o)
        if st.startswith("EXC"):
            fails.append((kind + " raised " + st, {"step": i}))
            break
        if not monitoring:
            continue
        # ---- monitor
        new_ref = None
        if kind == "setref":
            new_ref = X; stats["setrefs"] += 1
        elif pending is not None:
            new_ref = pending; stats["adopted"] += 1
        elif ref is None:
            new_ref = X
        pending = None
        if new_ref is not None:
            ref = new_ref
            P = KDQTreePartitioner(count_ubound=ub, cutpoint_proportion_lbound=cplb)
            P.build(np.array(ref))
            ref_counts = [int(c) for c in P.leaf_counts("build")]
            if len(tap.rec) != boot or any(len(r) != 2 * len(ref) for r in tap.rec):
                fails.append(("bootstrap does not draw bootstrap_samples vectors of 2*(reference size) leaf indices",
                              {"step": i, "vectors": len(tap.rec), "lengths": sorted(set(len(r) for r in tap.rec)), "reference_size": len(ref)}))
                monitoring = False; continue
            crit = spec_critical(len(ref_counts), len(ref), tap.rec, alpha)
        expect = "N"
        if kind == "setref" or (new_ref is X and kind == "u"):
            if lc is None or lc[0] != ref_counts:
                fails.append(("the reference tree is not the kdq-tree of the reference batch", {"step": i, "expected": ref_counts, "observed": lc}))
                monitoring = False; continue
        else:
            P = KDQTreePartitioner(count_ubound=ub, cutpoint_proportion_lbound=cplb)
            P.build(np.array(ref)); P.fill(X.copy(), "test", reset=True)
            exp_test = [int(c) for c in P.leaf_counts("test")]
            if lc is None or lc[0] != ref_counts or lc[1] != exp_test:
                fails.append(("leaf counts are not those of (current reference, this batch): after a drift the drifted batch must be the reference",
                              {"step": i, "expected": [ref_counts, exp_test], "observed": lc}))
                monitoring = False; continue
            d = spec_kl(lc[0], lc[1])
            exact_zero = lc[0] == lc[1] or len(lc[0]) == 1      # identical distributions: the divergence is exactly 0.0
            if thin(d, crit) and not exact_zero:
                stats["thin"] += 1; monitoring = False; continue
            stats["evals"] += 1
            if d > crit and not exact_zero:
                expect = "D"; pending = X; stats["drifts"] += 1
        if st != expect:
            fails.append(("drift_state differs from: drift iff KL(reference || batch) over the reference tree's leaves exceeds the critical value",
                          {"step": i, "observed": st, "expected": expect, "critical": crit}))
            monitoring = False
    return lines, obs, fails, stats


def cmp_batch(o, mo):
    if mo == "RECURSION":
        return ("model ran out of fuel", False) if o["drift"] != "EXC:RecursionError" else (None, False)
    head, _, leaves = mo.partition(" | ")
    t = head.split(" ")
    if len(t) != 6:
        raise core.Infra("unexpected driver line: " + mo[:100])
    drift, total, since, ex, td, cr = t
    md = None if td == "_" else core.b2f(td)
    mc = None if cr == "_" else core.b2f(cr)
    if o["critical"] is not None and mc is not None and not core.close(float(o["critical"]), mc):
        return "critical value differs", False
    if leaves != o["leaves"]:
        return "leaf counts differ", False
    if o["test_dist"] is not None and md is not None and not core.close(float(o["test_dist"]), md):
        return "divergence differs", False
    if (drift, total, since) != (o["drift"], str(o["total"]), str(o["since"])):
        if md is not None and mc is not None and thin(md, mc):
            return None, True
        return "state / counters differ", False
    return None, False


# ------------------------------------------------------------------ generators
def gen_stream(rng, idx, quick, seed, KdqTreeStreaming):
    """Boundary-seeking generation: the stream is produced while running the implementation (same seed schedule as
    the later run): in the evaluation phase candidate samples (base / clustered / far) are tried on a deep copy of the
    detector and one is chosen so that the divergence crosses the critical value repeatedly in both directions — runs
    of exceeding evaluations of length <= persistence*window that are then interrupted, finally a run that alarms.
    Steering reads private fields of the copy (generator only; falls back to random choice when they are absent)."""
    import copy
    w = int([4, 8, 16][int(rng.integers(0, 3))])
    # persistence*window: whole numbers (`>` vs `>=` differ by a unit) and dyadic fractions .25/.5/.75 above a whole number
    # (the counter is an integer: `c > x` must behave like `c > floor(x)`, not like a rounded bound) -- all exact in binary64
    p = float([0.0, .25, .5, .1875, .4375, .3125][int(rng.integers(0, 6))])
    alpha = float([.01, .05, .2, .5][int(rng.integers(0, 4))])
    boot = int([1, 10, 40][int(rng.choice(3, p=[.3, .5, .2]))])
    ub = int([1, 2][int(rng.integers(0, 2))]) if w == 4 else int([1, 2, 4][int(rng.integers(0, 3))])
    if rng.random() < .04:
        ub = 100
    cplb = float([2e-10, .1][int(rng.integers(0, 2))])
    m = int(rng.integers(1, 4))
    n = int(rng.integers(5 * w, 9 * w)) if quick else int(rng.integers(6 * w, 14 * w))
    grid = rng.random() < .35                       # dyadic coordinates: points on split values
    det = KdqTreeStreaming(window_size=w, persistence=p, alpha=alpha, bootstrap_samples=boot, count_ubound=ub,
                           cutpoint_proportion_lbound=cplb)
    limit = int(math.floor(p * w))
    rows = []

    def sample(kind, centre):
        if kind == "base":
            x = rng.random(m)
        elif kind == "cluster":
            x = centre + rng.normal(0, .02, m)
        else:
            x = rng.random(m) * .3 + 1.5
        if grid:
            x = np.round(x * 16) / 16
        return np.asarray(x, dtype=float).reshape(1, m)

    crossings, target, calm = int(rng.integers(0, 4)), int(rng.integers(1, max(2, limit + 1))), int(rng.integers(0, w))
    centre0 = rng.random(m)
    for i in range(n):
        tree = getattr(det, "_kdqtree", None)
        evaluating = tree is not None and getattr(det, "_test_data_size", -10 ** 9) + 1 >= w and det.drift_state != "drift"
        x = None
        if evaluating and hasattr(det, "_drift_counter") and hasattr(det, "_critical_dist"):
            r = det._drift_counter
            if limit == 0:
                want = False if calm > 0 else True
            elif crossings > 0:
                want = r < target
            else:
                want = True
            cands = [sample("base", None), sample("cluster", centre0), sample("cluster", rng.random(m)), sample("far", None)]
            best = None
            for j in range(len(cands)):
                sh = copy.deepcopy(det)
                np.random.seed(seed_of(seed, idx, i))
                try:
                    sh.update(cands[j].copy())
                    td = getattr(sh, "_test_dist", None)
                    if td is None:      # the private attribute is absent / unset in this tree: divergence from the public per-leaf counts
                        lc = leaf_counts_from_df(sh)
                        td = spec_kl(lc[0], lc[1])
                    dv = float(td) - float(sh._critical_dist)
                except Exception:
                    continue
                key = dv if want else -dv
                if best is None or key > best[0]:
                    best = (key, j)
            x = cands[best[1]] if best is not None else cands[0]
        else:
            x = sample("base" if rng.random() < .85 else "cluster", rng.random(m))
        if i == 0 and idx % 3 == 0:
            x = np.round(x)
        np.random.seed(seed_of(seed, idx, i))
        before = getattr(det, "_drift_counter", 0)
        try:
            det.update(as_fed(idx, i, x.copy()))
        except Exception:
            rows.append(x[0]); break
        rows.append(x[0])
        if evaluating:
            after = getattr(det, "_drift_counter", 0)
            if limit == 0:
                calm -= 1
            elif after == 0 and before > 0:
                crossings -= 1
                target = int(rng.integers(1, limit + 1))
        if det.drift_state == "drift":
            centre0 = rng.random(m)
            crossings, calm = int(rng.integers(0, 4)), int(rng.integers(0, w))
            target = int(rng.integers(1, max(2, limit + 1)))
    return {"id": idx, "mode": "stream", "window": w, "persistence": p, "alpha": alpha, "boot": boot, "count_ubound": ub,
            "cplb": cplb, "m": m, "stream": [float(v) for v in np.array(rows).reshape(-1)]}


def gen_batch(rng, idx, quick):
    alpha = float([.01, .05, .2, .5][int(rng.integers(0, 4))])
    boot = int([1, 10, 40][int(rng.integers(0, 3))])
    ub = int([1, 2, 5, 100][int(rng.choice(4, p=[.3, .3, .3, .1]))])
    cplb = float([2e-10, .1, .25][int(rng.integers(0, 3))])
    m = int(rng.integers(1, 4))
    nb = int(rng.integers(5, 11))
    ops = []
    level = 0.0
    grid = rng.random() < .35
    for i in range(nb):
        n = int(rng.integers(4, 41))
        r = rng.random()
        if r < .3:
            level = float(rng.integers(0, 3)) * 1.5         # shift of the whole batch
        if r > .75:
            X = rng.random((1, m)) + level + rng.normal(0, .03, (n, m))   # clustered batch
        else:
            X = rng.random((n, m)) + level
        if grid:
            X = np.round(X * 8) / 8
        kind = "setref" if (i > 0 and rng.random() < .12) else "u"
        ops.append([kind, [float(v) for v in X.reshape(-1)]])
    case = {"id": idx, "mode": "batch", "alpha": alpha, "boot": boot, "count_ubound": ub, "cplb": cplb, "m": m, "ops": ops}
    if idx % 5 == 3:
        # integral observations in a narrow integer dtype (pixel-like uint8 with min + max above 255, int32 near 2^31, int8, int16):
        # the tree, the counts and the decisions are those of the values
        dt, lo, hi = [("uint8", 100, 256), ("int32", 2 ** 31 - 4000, 2 ** 31 - 1), ("int8", 60, 128), ("int16", 20000, 32768)][(idx // 5) % 4]
        ops2, lvl = [], 0
        for kind, flat in ops:
            n = max(4, len(flat) // m)
            lvl = int(rng.integers(0, (hi - lo) // 2)) if rng.random() < .4 else lvl
            X = np.clip(rng.integers(lo, lo + (hi - lo) // 2, size=(n, m)) + lvl, lo, hi - 1)
            ops2.append([kind, [float(v) for v in X.reshape(-1)]])
        case.update(ops=ops2, dtype=dt)
    return case


def fixed_streams():
    """hand-made histories: the divergence crosses the critical value in both directions with persistence such that
    the longest run matters ('in a row' vs 'in total')"""
    out = []
    w = 4
    base = [[.1], [.4], [.6], [.9]]
    # reference = 4 spread points (count_ubound 1 -> 4 leaves); test: alternate bursts in one leaf / spread samples
    seq = base + base + [[.1]] * 3 + base * 2 + [[.9]] * 2 + base * 2 + [[.1]] * 6 + base
    for p in (0.0, .25, .5, .4375):
        for alpha in (.5, .2):
            out.append({"id": 900000 + len(out), "name": f"fx-{p}-{alpha}", "mode": "stream", "window": w, "persistence": p, "alpha": alpha, "boot": 10,
                        "count_ubound": 1, "cplb": 2e-10, "m": 1, "stream": [float(v[0]) for v in seq]})
    # exact ties: a single-leaf tree (count_ubound above the window) has divergence 0.0 = critical value 0.0: `>` must not alarm
    for p in (0.0, .25):
        out.append({"id": 900000 + len(out), "name": f"fx-single-leaf-{p}", "mode": "stream", "window": 4, "persistence": p, "alpha": .05,
                    "boot": 10, "count_ubound": 100, "cplb": 2e-10, "m": 1, "stream": [float(v[0]) for v in seq[:24]]})
    rows = [[0.125 * k, 1.0 - 0.125 * k] for k in range(8)]
    flat = [float(v) for r in rows for v in r]
    out.append({"id": 900000 + len(out), "name": "fx-batch-single-leaf", "mode": "batch", "alpha": .05, "boot": 10, "count_ubound": 100,
                "cplb": 2e-10, "m": 2, "ops": [["u", flat], ["u", flat], ["u", [v + 5 for v in flat]], ["u", flat]]})
    # a batch equal to the reference has divergence exactly 0.0; with one bootstrap sample the critical value can be 0.0 too
    out.append({"id": 900000 + len(out), "name": "fx-batch-same", "mode": "batch", "alpha": .5, "boot": 1, "count_ubound": 2,
                "cplb": 2e-10, "m": 2, "ops": [["u", flat], ["u", flat], ["u", flat], ["u", [v + 5 for v in flat]], ["u", flat]]})
    return out


def small(spec):
    s = dict(spec)
    if "stream" in s and len(s["stream"]) > 300:
        s["stream"] = s["stream"][:300] + ["..."]
    if "ops" in s:
        s["ops"] = [[k, f"<{len(f)} values>"] for k, f in s["ops"]]
    return s


# ------------------------------------------------------------------ check
def run(ctx):
    # detector objects are independent of one another (a consequence of "the outputs are a function of the detector's own
    # parameters and history"): solo trace = trace when a second object of the class is updated alternately (impl/zoo.py)
    from impl import zoo as _zoo
    for _f in _zoo.isolation_failures(ctx, ['KdqTreeStreaming', 'KdqTreeBatch']):
        ctx.fail(signature={"clause": "detector-objects-independent"}, **_f)
    from menelaus.data_drift.kdq_tree import KdqTreeStreaming, KdqTreeBatch
    from menelaus.partitioners.KDQTreePartitioner import KDQTreePartitioner
    rng = np.random.default_rng(ctx.seed)
    ns, nb = (36, 50) if ctx.quick else (700, 1000)
    ctx.rule = ("a case = one detector history (streaming: 5-16 windows of samples alternating base / clustered / shifted stretches; "
                "batch: 5-10 batches with shifts, clustered batches and explicit set_reference calls); non-trivial when at least one "
                "evaluation exceeded the critical value and at least one did not; distinct = distinct (config, data)")
    specs = fixed_streams()
    for i in range(ns):
        specs.append(gen_stream(np.random.default_rng([ctx.seed, 1, i]), i, ctx.quick, ctx.seed, KdqTreeStreaming))
    for i in range(nb):
        specs.append(gen_batch(np.random.default_rng([ctx.seed, 2, i]), 100000 + i, ctx.quick))
    all_lines, index = [], []
    tot = {"drifts": 0, "run_resets": 0, "evals": 0, "exceeds": 0, "thin": 0, "setrefs": 0, "adopted": 0}
    cases_with_reset = cases_with_drift = nstream = 0
    results = []
    for k, sp in enumerate(specs):
        sp_run = sp
        if sp["mode"] == "stream":
            lines, obs, fails, stats = run_stream(sp_run, ctx.seed, KdqTreeStreaming, KDQTreePartitioner)
            nstream += 1
            cases_with_reset += stats["run_resets"] > 0
            cases_with_drift += stats["drifts"] > 0
            ctx.count(f"window={sp['window']}"); ctx.count(f"persistence={sp['persistence']}")
            ctx.count("stream-epochs", stats["epochs"]); ctx.count("stream-counter-reset-events", stats["run_resets"])
            ctx.count("stream-drifts", stats["drifts"]); ctx.count("stream-evaluations", stats["evals"])
            ctx.count("stream-exceeding-evaluations", stats["exceeds"])
            nontrivial = stats["evals"] > stats.get("exceeds", 0) > 0
        else:
            lines, obs, fails, stats = run_batch(sp_run, ctx.seed, KdqTreeBatch, KDQTreePartitioner)
            ctx.count("batch-drifts", stats["drifts"]); ctx.count("batch-evaluations", stats["evals"])
            ctx.count("batch-set_reference-calls", stats["setrefs"]); ctx.count("batch-drifted-batch-adopted", stats["adopted"])
            nontrivial = stats["evals"] > stats["drifts"] > 0
        ctx.count(f"alpha={sp['alpha']}"); ctx.count(f"bootstrap_samples={sp['boot']}"); ctx.count(f"count_ubound={sp['count_ubound']}")
        ctx.count("monitor-thin-margin-evaluations(both outcomes followed)", stats["thin"])
        ctx.case((sp["mode"], json.dumps(small(sp), default=str)[:4000], len(lines)), nontrivial)
        for l, o in zip(lines, obs):
            all_lines.append(l); index.append((sp, o))
        results.append((sp, fails))
        if ctx.elapsed() > (65 if ctx.quick else 800):
            ctx.count("stopped-early-on-budget"); break
    for sp in specs[7:9]:
        ctx.sample(small(sp))
    out = core.run_driver(all_lines)
    bad = set()
    for l, mo, (sp, o) in zip(all_lines, out, index):
        if mo in ("bad-op", "bad-new"):
            raise core.Infra(f"driver rejected `{l[:80]}`")
        if o is None:
            if mo != "ok":
                raise core.Infra("driver rejected new")
            continue
        key = (sp["mode"], sp["id"])
        if key in bad:
            continue
        ctx.traces += 1
        why, thin_ = (cmp_stream if sp["mode"] == "stream" else cmp_batch)(o, mo)
        if thin_:
            ctx.thin += 1; bad.add(key); continue
        if why:
            bad.add(key)
            ctx.mismatch(component="KdqTreeStreaming" if sp["mode"] == "stream" else "KdqTreeBatch", case=sp["id"], why=why,
                         op=l[:160], impl={k: (float(v) if isinstance(v, (float, np.floating)) else v) for k, v in o.items()},
                         model=mo[:400], spec=small(sp))
    for sp, fails in results:
        for what, kw in fails[:2]:
            ctx.fail(signature={"class": "kdq-detector-rule", "mode": sp["mode"], "what": what}, what=what, details=kw, case=sp)
    ctx.extra["driver_lines"] = len(all_lines)
    if not ctx.failing and not ctx.mismatches:
        # a run whose input distribution degenerates is infrastructure trouble, not a pass
        if nstream and (cases_with_reset < nstream // 5 or cases_with_drift < nstream // 5):
            raise core.Infra(f"degenerate input distribution: {cases_with_reset} streaming cases with a counter reset, "
                             f"{cases_with_drift} with a drift, of {nstream}")
        if ctx.stats.get("batch-drifts", 0) < 10 or ctx.stats.get("batch-drifted-batch-adopted", 0) < 5:
            raise core.Infra("degenerate input distribution: too few batch drifts")


def search(ctx, mismatches):
    # the monitor already ran on every case; a mismatch it does not reject concerns observables outside the rule
    return []


def replay(ctx, path):
    from menelaus.data_drift.kdq_tree import KdqTreeStreaming, KdqTreeBatch
    from menelaus.partitioners.KDQTreePartitioner import KDQTreePartitioner
    r = json.load(open(path))
    for b in r.get("broken_correspondence", []):
        print("correspondence mismatch:", json.dumps(b, indent=1, default=str)[:3000])
    if "case" not in r:
        return 0
    sp = r["case"]
    sp_run = sp
    if sp["mode"] == "stream":
        lines, obs, fails, stats = run_stream(sp_run, r.get("seed", ctx.seed), KdqTreeStreaming, KDQTreePartitioner)
        cmp = cmp_stream
    else:
        lines, obs, fails, stats = run_batch(sp_run, r.get("seed", ctx.seed), KdqTreeBatch, KDQTreePartitioner)
        cmp = cmp_batch
    out = core.run_driver(lines)
    for i, (l, mo, o) in enumerate(zip(lines, out, obs)):
        if o is None:
            continue
        why, th = cmp(o, mo)
        print(i - 1, "MISMATCH " + why if why else ("thin" if th else "agree"), "| impl:", o["drift"], o["total"], o["since"],
              o.get("counter"), o["test_dist"], o["critical"], o["leaves"], "| model:", mo[:160])
    for what, kw in fails:
        print("PROPERTY FAILS:", what, kw)
    print("stats:", stats)
    return 1 if fails else 0
