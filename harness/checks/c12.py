"""
C12 — an ensemble is its election applied to members that run exactly as if alone.

For every generated ensemble (StreamingEnsemble / BatchEnsemble over a mix of the real
member classes, one of the four elections, random column selectors, ndarray or DataFrame
input) the harness keeps, next to the real ensemble, an *independent twin* of every member
(deep copy taken before the ensemble is built) and a twin of the election object.  Every
call made on the ensemble (update / reset / set_reference) is also made on each twin on its
own, with the columns the harness selects itself from a pristine copy of the input.

 * property clauses run directly on the real classes (-> ctx.fail):
     - the complete state of member i (deep snapshot of the object graph) equals its twin's,
       after every call;
     - ensemble.drift_states / retraining_recs are exactly the twins' values, keyed by member
       name in insertion order, members without `retraining_recs` omitted;
     - ensemble.drift_state = election(twins in insertion order) after an update, None after
       reset, unchanged by set_reference; the election object's own state (ConfirmedElection's
       wait counters) equals that of a twin election called once per update on the twins;
     - total_samples/total_batches = number of updates, samples/batches_since_reset = number
       of updates since the last explicit reset (no restart on drift);
     - malformed inputs (wrong width, wrong number of rows, two labels) are injected now and then: the
       ensemble call raises iff a twin called alone, in insertion order, raises (same exception);
       the members before the raising one equal their updated twins, the raising one equals its twin
       after the same failed call, the ones after it equal their untouched twins, and the ensemble's
       verdict, counters and election object have not moved.
 * correspondence with the Lean model (Model/Ensemble.lean run by mdriver): the model's
   abstract members are instantiated by scripted machines replaying what each twin showed
   (drift_state, retraining_recs); the model's member loop, election (Model/Election.lean),
   counters and views must print exactly what the real ensemble shows after every call
   (-> ctx.mismatch when the clauses above hold but the model disagrees).

np.random is re-seeded at the start of every update / set_reference / reset of every
stochastic member (kdq-tree, HDDDM, CDBD, NN-DVI, LinearFourRates) from a (case, call number, member index)
schedule through a thin subclass, identically for the member inside the ensemble and its twin.
"""
import copy, json, os, time, warnings
for _v in ("OMP_NUM_THREADS", "OPENBLAS_NUM_THREADS", "MKL_NUM_THREADS"):   # cases run in worker processes, one thread each
    os.environ.setdefault(_v, "1")
import core

TRUST = [
    "stochastic members (KdqTreeStreaming/Batch, HDDDM, CDBD, NNDVI, LinearFourRates) are used through a thin subclass that only re-seeds "
    "np.random at the start of update/set_reference/reset from a (case, call, member) schedule, identically for member and twin",
    "member 'state' = deep snapshot of the object graph reachable from the detector's __dict__ (arrays bit-for-bit, frames with index and columns)",
    "a member (or its selector) that raises on a malformed input counts as 'the member's call raised'; the model's reset is total "
    "(a case in which reset raises on both sides is stopped there)",
    "the Lean model's members are abstract; in the executed instance they replay the twins' drift_state / retraining_recs",
]

# ---------------------------------------------------------------- seed schedule
_SCHED = {"base": 0, "call": 0}
_SEEDED = {}


def _seed_for(idx):
    return (_SCHED["base"] * 1000003 + _SCHED["call"] * 8191 + idx * 131 + 17) % (2 ** 32)


def seeded(cls):
    """thin subclass: re-seed the global numpy RNG before every call that may draw from it"""
    if cls in _SEEDED:
        return _SEEDED[cls]
    import numpy as np

    class S(cls):
        _c12_idx = 0

        def update(self, *a, **k):
            np.random.seed(_seed_for(self._c12_idx))
            return cls.update(self, *a, **k)

        def reset(self, *a, **k):
            np.random.seed(_seed_for(self._c12_idx))
            return cls.reset(self, *a, **k)

        if hasattr(cls, "set_reference"):
            def set_reference(self, *a, **k):
                np.random.seed(_seed_for(self._c12_idx))
                return cls.set_reference(self, *a, **k)

    S.__name__ = cls.__name__
    S.__qualname__ = cls.__qualname__
    _SEEDED[cls] = S
    return S


# ---------------------------------------------------------------- deep snapshot
def snap(o, memo=None):
    import numpy as np, pandas as pd
    if memo is None:
        memo = {}
    if o is None or isinstance(o, (bool, int, str, bytes)):
        return o
    if isinstance(o, float):
        return ("f", repr(o))
    if isinstance(o, np.generic):
        return ("g", o.dtype.str, o.tobytes())
    if isinstance(o, np.ndarray):
        if o.dtype == object:
            return ("ao", o.shape, [snap(x, memo) for x in o.ravel().tolist()])
        return ("a", o.shape, o.dtype.str, np.ascontiguousarray(o).tobytes())
    if isinstance(o, pd.DataFrame):
        return ("df", [str(c) for c in o.columns], snap(o.index.to_numpy(), memo), snap(o.to_numpy(), memo))
    if isinstance(o, pd.Series):
        return ("sr", str(o.name), snap(o.index.to_numpy(), memo), snap(o.to_numpy(), memo))
    if isinstance(o, pd.Index):
        return ("ix", [str(c) for c in o])
    if isinstance(o, (list, tuple)):
        return (type(o).__name__, [snap(x, memo) for x in o])
    if isinstance(o, dict):
        return ("d", [(snap(k, memo), snap(v, memo)) for k, v in o.items()])
    if isinstance(o, (set, frozenset)):
        return ("s", sorted(repr(x) for x in o))
    if hasattr(o, "__func__"):  # bound method (e.g. HDM.distance_function)
        return ("m", getattr(o.__func__, "__qualname__", repr(o.__func__)))
    if hasattr(o, "__dict__") and not isinstance(o, type) and not callable(o):
        if id(o) in memo:
            return ("ref", memo[id(o)])
        memo[id(o)] = len(memo)
        return ("o", type(o).__name__, [(k, snap(v, memo)) for k, v in vars(o).items()])
    if callable(o):
        return ("fn", getattr(o, "__qualname__", type(o).__name__))
    return ("r", repr(o))


def first_diff(a, b, path=""):
    """path of the first difference between two snapshots (for the replay payload)"""
    if type(a) != type(b):
        return path + f": {str(a)[:80]} != {str(b)[:80]}"
    if isinstance(a, (list, tuple)):
        if len(a) != len(b):
            return path + f": length {len(a)} != {len(b)}"
        for i, (x, y) in enumerate(zip(a, b)):
            if x != y:
                tag = x[0] if isinstance(x, tuple) and len(x) == 2 and isinstance(x[0], str) else i
                return first_diff(x, y, path + "/" + str(tag))
        return path
    return path + f": {str(a)[:80]} != {str(b)[:80]}"


# ---------------------------------------------------------------- case generation
STREAM_POOL = ["DDM", "EDDM", "STEPD", "LinearFourRates", "ADWIN", "CUSUM", "PageHinkley", "KdqTreeStreaming"]
BATCH_POOL = ["KdqTreeBatch", "HDDDM", "CDBD", "NNDVI"]
UNIVARIATE = {"ADWIN", "CUSUM", "PageHinkley", "CDBD"}
LABEL_ONLY = {"DDM", "EDDM", "STEPD", "LinearFourRates"}
STOCHASTIC = {"KdqTreeStreaming", "KdqTreeBatch", "HDDDM", "CDBD", "NNDVI", "LinearFourRates"}
NEEDS_REF = {"HDDDM", "CDBD", "NNDVI"}
KEYS = ["zeta", "k1", "a", "Mx", "b2", "s_1", "d", "q9", "Alpha", "m"]


def pick(rng, xs):
    return xs[int(rng.integers(len(xs)))]


def member_params(rng, cls, eager=False):
    if eager and cls in ("DDM", "EDDM", "STEPD"):    # quick to warn and alarm again after their own restart
        return {"DDM": dict(n_threshold=5, warning_scale=1, drift_scale=pick(rng, [2, 3])),
                "EDDM": dict(n_threshold=5, warning_thresh=0.95, drift_thresh=pick(rng, [0.9, 0.8])),
                "STEPD": dict(window_size=5, alpha_warning=0.2, alpha_drift=pick(rng, [0.05, 0.003]))}[cls]
    if cls == "DDM":
        return dict(n_threshold=pick(rng, [5, 10, 30]), warning_scale=pick(rng, [1, 2]), drift_scale=pick(rng, [2, 3]))
    if cls == "EDDM":
        return dict(n_threshold=pick(rng, [5, 10, 30]), warning_thresh=pick(rng, [0.95, 0.9]), drift_thresh=pick(rng, [0.9, 0.8]))
    if cls == "STEPD":
        return dict(window_size=pick(rng, [5, 10, 30]), alpha_warning=pick(rng, [0.05, 0.2]), alpha_drift=pick(rng, [0.003, 0.05]))
    if cls == "LinearFourRates":      # the only member for which y_true and y_pred are not interchangeable
        return dict(time_decay_factor=pick(rng, [0.6, 0.9]), warning_level=pick(rng, [0.2, 0.1]), detect_level=pick(rng, [0.05, 0.01]),
                    burn_in=pick(rng, [10, 20]), num_mc=15,
                    rates_tracked=list(pick(rng, [["tpr", "tnr", "ppv", "npv"], ["tpr", "tnr"], ["tpr"], ["ppv", "npv"]])))
    if cls == "ADWIN":
        return dict(delta=pick(rng, [0.002, 0.05, 0.3]), max_buckets=pick(rng, [2, 5]), new_sample_thresh=pick(rng, [1, 8, 32]),
                    window_size_thresh=pick(rng, [4, 10]), subwindow_size_thresh=pick(rng, [2, 5]))
    if cls == "CUSUM":
        return dict(burn_in=pick(rng, [5, 10, 30]), delta=pick(rng, [0.005, 0.5]), threshold=pick(rng, [5, 20, 50]),
                    direction=pick(rng, [None, "positive", "negative"]))
    if cls == "PageHinkley":
        return dict(delta=pick(rng, [0.01, 0.5]), threshold=pick(rng, [5, 20, 50]), burn_in=pick(rng, [5, 10, 30]),
                    direction=pick(rng, ["positive", "negative"]))
    if cls == "KdqTreeStreaming":
        return dict(window_size=pick(rng, [10, 20, 40]), persistence=pick(rng, [0.05, 0.1, 0.25]), alpha=pick(rng, [0.05, 0.2]),
                    bootstrap_samples=pick(rng, [5, 10]), count_ubound=pick(rng, [4, 8, 20]))
    if cls == "KdqTreeBatch":
        return dict(alpha=pick(rng, [0.01, 0.05, 0.2]), bootstrap_samples=pick(rng, [3, 5]), count_ubound=pick(rng, [4, 8]))
    if cls in ("HDDDM", "CDBD"):
        stat = pick(rng, ["tstat", "stdev"])
        return dict(detect_batch=pick(rng, [1, 2, 3]), statistic=stat,
                    significance=pick(rng, [0.05, 0.2]) if stat == "tstat" else pick(rng, [1, 2]), subsets=pick(rng, [2, 3, 5]))
    if cls == "NNDVI":
        return dict(k_nn=pick(rng, [2, 3, 5]), sampling_times=pick(rng, [10, 20]), alpha=pick(rng, [0.01, 0.05, 0.2]))
    raise KeyError(cls)


def gen_case(seed, tier, idx):
    """everything about case `idx` of a run, as plain data (regenerated identically for replays)"""
    import numpy as np
    rng = np.random.default_rng([seed, 12, idx])
    quick = tier == "quick"
    n_cases = 30 if quick else 300
    kind = "batch" if idx % 3 == 2 else "stream"
    n = int(rng.integers(2, 6))
    d = int(rng.integers(1, 5))
    container = pick(rng, ["ndarray", "DataFrame"])
    pool = STREAM_POOL if kind == "stream" else BATCH_POOL
    keys = [KEYS[j] for j in rng.permutation(len(KEYS))[:n]]
    ekind = ["majority", "min", "ordered", "confirmed"][idx % 4]
    warn_rich = ekind == "confirmed" and kind == "stream"
    members = []
    for j in range(n):
        cls = pick(rng, pool)
        if idx % 5 == 0 and j == 0:           # make sure the stochastic / recs-less classes occur often
            cls = "KdqTreeStreaming" if kind == "stream" else pick(rng, BATCH_POOL)
        if warn_rich and j <= 1:          # members that report warnings, alarm, restart themselves and warn again
            cls = pick(rng, ["DDM", "EDDM", "STEPD"])
        if kind == "stream" and idx % 5 == 1 and j == n - 1:
            cls = "LinearFourRates"
        sel = None
        if cls in UNIVARIATE:
            if d > 1 or rng.random() < 0.5:
                sel = [int(rng.integers(d))]
        elif cls in LABEL_ONLY:
            if rng.random() < 0.3:
                sel = sorted(int(c) for c in rng.permutation(d)[: int(rng.integers(1, d + 1))])
        else:
            if rng.random() < 0.7:
                sel = [int(c) for c in rng.permutation(d)[: int(rng.integers(1, d + 1))]]   # order kept as drawn
        members.append({"key": keys[j], "cls": cls, "params": member_params(rng, cls, eager=warn_rich), "sel": sel})
    x_none = kind == "stream" and idx % 10 == 3
    if x_none:
        # an ensemble of label-only detectors driven with X=None (the usual way to run concept-drift detectors): every member
        # is updated with the labels all the same
        for j in range(n):
            cls = pick(rng, sorted(LABEL_ONLY))
            members[j] = {"key": keys[j], "cls": cls, "params": member_params(rng, cls, eager=warn_rich), "sel": None}
    # clones (same class, parameters and columns under another key) report drift at the same update, so that vote
    # counts between 1 and n occur although most detectors show "drift" for a single update only
    for j in range(1, n):
        if rng.random() < 0.35:
            src = members[int(rng.integers(j))]
            members[j] = {"key": keys[j], "cls": src["cls"], "params": dict(src["params"]), "sel": None if src["sel"] is None else list(src["sel"])}
    if ekind == "majority":
        el = ["majority"]
    elif ekind == "min":
        el = ["min", int(rng.integers(1, n + 1)) if rng.random() < 0.8 else 1]
    elif ekind == "ordered":
        a = int(rng.integers(1, n))
        el = ["ordered", a, int(rng.integers(0, n - a + 1))]
    else:
        el = (["confirmed", int(rng.integers(1, 3)), int(rng.integers(5, 61))] if kind == "stream" else
              ["confirmed", int(rng.integers(1, min(n, 3) + 1)), int(rng.integers(0, 6))])
    if kind == "stream":
        T = int(rng.integers(100, 601))
    else:
        T = int(rng.integers(100, 201 if quick else 601))
    # piecewise stationary data: every column / the error rate changes level at its own times
    def changepoints():
        k = int(rng.integers(1, 5))
        return sorted(int(x) for x in rng.integers(T // 10, T, size=k))
    cols = [{"cps": changepoints(), "levels": [float(pick(rng, [0.0, 2.0, 4.0, -3.0, 8.0])) for _ in range(6)],
             "scale": float(pick(rng, [0.25, 1.0]))} for _ in range(d)]
    # labels: P(y_true = 1) = p1; false-negative and false-positive rates have their own levels and change points (FN != FP,
    # so that y_true and y_pred are not interchangeable)
    if warn_rich:      # short alternating regimes: members alarm, restart and reach "warning" again while the election still waits
        seg = int(rng.integers(8, 26))
        cps = list(range(seg, T, seg))
        fn = {"cps": cps, "levels": [0.02, 0.8, 0.05, 0.6, 0.02, 0.9]}
        fp = {"cps": cps, "levels": [0.02, 0.5, 0.1, 0.9, 0.05, 0.3]}
    else:
        fn = {"cps": changepoints(), "levels": [float(pick(rng, [0.05, 0.2, 0.5, 0.8])) for _ in range(6)]}
        fp = {"cps": changepoints(), "levels": [float(pick(rng, [0.02, 0.1, 0.3, 0.6])) for _ in range(6)]}
    p1 = float(pick(rng, [0.3, 0.5, 0.7]))
    reset_policy = pick(rng, ["never", "on-drift", "on-drift-half", "random", "both"])
    return {"idx": idx, "seed": seed, "tier": tier, "kind": kind, "n": n, "d": d, "container": container, "members": members,
            "election": el, "T": T, "cols": cols, "fn": fn, "fp": fp, "p1": p1, "reset_policy": reset_policy,
            "rows": int(pick(rng, [12, 20, 30])), "data_seed": int(rng.integers(2 ** 31)),
            "skip_first_setref": bool(rng.random() < 0.5), "pass_y_batch": bool(rng.random() < 0.3),
            "inject": bool(rng.random() < 0.6), "x_none": x_none,
            "n_cases": n_cases}


def level_at(spec, t):
    k = sum(1 for c in spec["cps"] if c <= t)
    return spec["levels"][k % len(spec["levels"])]


def describe(case):
    return {"case": case["idx"], "kind": case["kind"], "container": case["container"], "d": case["d"], "T": case["T"],
            "election": case["election"], "reset_policy": case["reset_policy"],
            "members": [f'{m["key"]}={m["cls"]}({", ".join(f"{k}={v}" for k, v in m["params"].items())}) sel={m["sel"]}'
                        for m in case["members"]]}


# ---------------------------------------------------------------- running one case
def run_case(case, stop_at=None):
    """
    Runs the real ensemble and the independent twins on the case.  Returns a dict with the driver
    lines, the real ensemble's observable lines, property failures, and statistics.
    """
    import numpy as np, pandas as pd
    from menelaus.ensemble import (StreamingEnsemble, BatchEnsemble, SimpleMajorityElection, MinimumApprovalElection,
                                   OrderedApprovalElection, ConfirmedElection)
    from menelaus.concept_drift import DDM, EDDM, STEPD, LinearFourRates
    from menelaus.change_detection import ADWIN, CUSUM, PageHinkley
    from menelaus.data_drift import KdqTreeStreaming, KdqTreeBatch, HDDDM, CDBD, NNDVI
    classes = dict(DDM=DDM, EDDM=EDDM, STEPD=STEPD, LinearFourRates=LinearFourRates, ADWIN=ADWIN, CUSUM=CUSUM, PageHinkley=PageHinkley,
                   KdqTreeStreaming=KdqTreeStreaming, KdqTreeBatch=KdqTreeBatch, HDDDM=HDDDM, CDBD=CDBD, NNDVI=NNDVI)
    kind, n, d = case["kind"], case["n"], case["d"]
    stream = kind == "stream"
    names = ["c%d" % j for j in range(d)]
    res = {"fails": [], "counts": {}, "lines": [], "impl": [], "stopped": None, "nontrivial": False}

    def count(k, v=1):
        res["counts"][k] = res["counts"].get(k, 0) + v

    def fail(sig, what, step, op, **kw):
        res["fails"].append(dict(signature={"class": sig}, what=what, step=step, op=op, config=describe(case),
                                 replay_with={"seed": case["seed"], "tier": case["tier"], "case": case["idx"]}, **kw))

    # members, twins, selectors, election
    dets, sels = {}, {}
    for j, m in enumerate(case["members"]):
        cls = classes[m["cls"]]
        if m["cls"] in STOCHASTIC:
            cls = seeded(cls)
        det = cls(**m["params"])
        if m["cls"] in STOCHASTIC:
            det._c12_idx = j
        dets[m["key"]] = det
        if m["sel"] is not None:
            if case["container"] == "DataFrame":
                sels[m["key"]] = (lambda X, c=[names[i] for i in m["sel"]]: X[c])
            else:
                sels[m["key"]] = (lambda X, c=list(m["sel"]): X[:, c])
    twins = [copy.deepcopy(det) for det in dets.values()]
    pristine = [copy.deepcopy(det) for det in dets.values()]
    el = case["election"]
    election = {"majority": lambda: SimpleMajorityElection(), "min": lambda: MinimumApprovalElection(el[1]),
                "ordered": lambda: OrderedApprovalElection(el[1], el[2]),
                "confirmed": lambda: ConfirmedElection(el[1], el[2])}[el[0]]()
    twin_election = copy.deepcopy(election)
    ens = (StreamingEnsemble if stream else BatchEnsemble)(dets, election, sels)
    members = list(dets.values())
    keys = [m["key"] for m in case["members"]]

    def select(j, X):
        s = case["members"][j]["sel"]
        if s is None:
            return X
        return X[[names[i] for i in s]] if case["container"] == "DataFrame" else X[:, list(s)]

    drng = np.random.default_rng(case["data_seed"])

    def make_X(t, rows):
        a = np.empty((rows, d))
        for c, spec in enumerate(case["cols"]):
            a[:, c] = level_at(spec, t) + spec["scale"] * np.round(drng.normal(size=rows) * 64) / 64
        return a

    def wrap(a):
        return pd.DataFrame(a.copy(), columns=names) if case["container"] == "DataFrame" else a.copy()

    # observables
    def twin_obs():
        out = []
        for tw in twins:
            r = core.recs_str(tw.retraining_recs) if hasattr(tw, "retraining_recs") else "-"
            out.append(core.dstr(tw.drift_state) + ":" + r)
        return out

    def ens_line():
        try:
            ds, rr = ens.drift_states, ens.retraining_recs
            tot = ens.total_samples if stream else ens.total_batches
            since = ens.samples_since_reset if stream else ens.batches_since_reset
            c = getattr(ens.election, "wait_period_counters", "-")
            cs = "-" if el[0] != "confirmed" else ("_" if c is None else (" ".join(str(int(x)) for x in c) or "."))
            return (core.dstr(ens.drift_state) + " | " + f"{int(tot)} {int(since)}" + " | " +
                    " ".join(f"{k}={core.dstr(v)}" for k, v in ds.items()) + " | " +
                    " ".join(f"{k}={core.recs_str(v)}" for k, v in rr.items()) + " | " + cs)
        except Exception as ex:
            return "EXC:" + type(ex).__name__

    scripts = [[o] for o in twin_obs()]      # per member: what its twin showed after each call that reached it
    ops = []
    n_updates = since = 0
    expected_drift = None
    first_drift = [None] * n
    res["impl"].append(ens_line())
    ops.append("show")

    def check(step, op):
        try:
            return check_(step, op)
        except Exception as ex:        # a changed tree may raise from any observable
            fail("observable-raises", "reading the ensemble's / a member's public observables raised " + type(ex).__name__ +
                 ": " + str(ex)[:200], step, op)
            return False

    def check_(step, op):
        """property clauses on the real classes after a call; True when all hold"""
        ok = True
        for j, (mem, tw) in enumerate(zip(members, twins)):
            a, b = snap(vars(mem)), snap(vars(tw))
            if a != b:
                fail("member-differs-from-twin", f"state of member {keys[j]} ({case['members'][j]['cls']}) differs from the "
                     "independently updated twin", step, op, member=keys[j], first_difference=first_diff(a, b))
                ok = False
                break
        try:
            ds, rr = list(ens.drift_states.items()), list(ens.retraining_recs.items())
        except Exception as ex:
            ds = rr = "EXC:" + type(ex).__name__
        want_ds = [(k, tw.drift_state) for k, tw in zip(keys, twins)]
        want_rr = [(k, tw.retraining_recs) for k, tw in zip(keys, twins) if hasattr(tw, "retraining_recs")]
        if snap(ds) != snap(want_ds):
            fail("drift-states-view", "ensemble.drift_states is not the members' drift states keyed by name in insertion order",
                 step, op, impl=str(ds), expected=str(want_ds)); ok = False
        if snap(rr) != snap(want_rr):
            fail("retraining-recs-view", "ensemble.retraining_recs is not exactly the retraining_recs of the members that have them",
                 step, op, impl=str(rr), expected=str(want_rr)); ok = False
        if ens.drift_state != expected_drift:
            fail("verdict", "ensemble.drift_state differs from its election applied to the independently run members "
                 "(None after reset, unchanged by set_reference)", step, op, impl=ens.drift_state, expected=expected_drift,
                 member_states=[tw.drift_state for tw in twins]); ok = False
        if snap(vars(ens.election)) != snap(vars(twin_election)):
            fail("election-state", "the ensemble's election object differs from a twin election that was called, once per update, on "
                 "the independently run members in insertion order (it is not touched by reset / set_reference)", step, op,
                 impl=str(vars(ens.election)), expected=str(vars(twin_election))); ok = False
        tot = ens.total_samples if stream else ens.total_batches
        snc = ens.samples_since_reset if stream else ens.batches_since_reset
        if (tot, snc) != (n_updates, since):
            fail("own-counters", "ensemble counters differ from (number of updates, number of updates since the last explicit reset)",
                 step, op, impl=[tot, snc], expected=[n_updates, since]); ok = False
        return ok

    def call_both(step, op, f_ens, f_twin):
        """
        One call on the ensemble; the same call on the twins, one after the other in insertion order, each on its own,
        stopping at the first twin whose call raises (that is where the ensemble's loop is abandoned).
        Returns None when the case must stop, else (number of twins called, whether the last of them raised).
        """
        _SCHED["call"] = step
        e_exc = None
        try:
            f_ens()
        except Exception as ex:
            e_exc = type(ex).__name__
        t_exc, called = None, 0
        for j, tw in enumerate(twins):
            _SCHED["call"] = step
            called = j + 1
            try:
                f_twin(j, tw)
            except Exception as ex:
                t_exc = (keys[j], type(ex).__name__)
                break
        if e_exc != (t_exc[1] if t_exc else None):
            fail("exception-discrepancy", "the ensemble call raises although no member run alone does (or the other way round, "
                 "or another exception)", step, op, impl=e_exc, twins=t_exc)
            res["stopped"] = f"{op}@{step}: {e_exc}/{t_exc}"
            return None
        if e_exc and op == "reset":        # reset is total in the model
            res["stopped"] = f"{op}@{step}: {e_exc}/{t_exc}"
            count("case-stopped-on-exception")
            return None
        if e_exc:
            count("rejected calls"); count(f"rejected {op} at member #{called - 1}")
        for j, o in enumerate(twin_obs()[:called]):
            scripts[j].append(("!" if e_exc and j == called - 1 else "") + o)
        res["impl"].append(("! " if e_exc else "") + ens_line())
        ops.append({"update": "u", "reset": "reset", "set_reference": "setref"}[op])
        return called, bool(e_exc)

    step = 0
    _SCHED["base"] = case["seed"] * 1009 + case["idx"]
    rrng = np.random.default_rng(case["data_seed"] + 1)
    needs_ref = any(m["cls"] in NEEDS_REF for m in case["members"])
    alive = True

    def malform(a, kind_):
        """a malformed variant of the input block `a` (wrong width / wrong number of rows)"""
        if kind_ == "narrow" and a.shape[1] > 1:
            b = a[:, :-1]; cols_ = names[:-1]
        elif kind_ in ("narrow", "wide"):
            b = np.hstack([a, a[:, :1]]); cols_ = names + ["extra"]
        elif kind_ == "rows":
            b = np.vstack([a, a])[: (2 if stream else 1)]; cols_ = names
        else:
            b = a; cols_ = names
        return (lambda: pd.DataFrame(b.copy(), columns=cols_)) if case["container"] == "DataFrame" else (lambda: b.copy())

    def do_setref(t, bad=None):
        nonlocal step, alive
        step += 1
        a = make_X(t, case["rows"] * 2)
        mk = malform(a, bad) if bad else (lambda: wrap(a))
        Xe = mk()
        r = call_both(step, "set_reference", lambda: ens.set_reference(Xe),
                      lambda j, tw: tw.set_reference(X=select(j, mk()), y_true=None, y_pred=None))
        if r is None:
            alive = False
            return
        count("set_reference calls")
        if not check(step, "set_reference"):
            alive = False

    def do_reset():
        nonlocal step, alive, since, expected_drift
        step += 1
        if call_both(step, "reset", lambda: ens.reset(), lambda j, tw: tw.reset()) is None:
            alive = False
            return
        since = 0
        expected_drift = None
        count("reset calls")
        if not check(step, "reset"):
            alive = False

    if not stream and (needs_ref or not case["skip_first_setref"]):
        do_setref(0)
    verdicts = {"N": 0, "W": 0, "D": 0}
    t = 0
    replace_at = set(int(x) for x in np.random.default_rng(case["data_seed"] + 2).integers(5, max(6, case["T"]), size=2))
    while alive and t < case["T"]:
        if stop_at is not None and step >= stop_at:
            break
        step += 1
        bad = None
        if case["inject"] and t >= 5 and rrng.random() < 0.03:
            bad = pick(rrng, ["narrow", "wide", "rows", "bad-y"] if stream else ["narrow", "wide", "rows"])
            if case.get("x_none"):
                bad = "bad-y"
            count("malformed updates injected")
        if stream:
            a = make_X(t, 1)
            yt = int(rrng.random() < case["p1"])
            yp = yt if rrng.random() >= level_at(case["fn"] if yt == 1 else case["fp"], t) else 1 - yt
            count("label pairs (y_true,y_pred)=(%d,%d)" % (yt, yp))
            if bad == "bad-y":
                yt = [yt, yt]
            mk = malform(a, bad) if bad else (lambda: wrap(a))
            Xe = mk()
            f_e = lambda: ens.update(X=Xe, y_true=yt, y_pred=yp)
            f_t = lambda j, tw: tw.update(X=select(j, mk()), y_true=yt, y_pred=yp)
            if case.get("x_none"):
                f_e = lambda: ens.update(X=None, y_true=yt, y_pred=yp)
                f_t = lambda j, tw: tw.update(X=None, y_true=yt, y_pred=yp)
                count("updates with X=None")
        else:
            a = make_X(t, case["rows"])
            mk = malform(a, bad) if bad else (lambda: wrap(a))
            Xe = mk()
            if case["pass_y_batch"]:
                ya = rrng.integers(0, 2, size=(case["rows"], 1))
                f_e = lambda: ens.update(Xe, ya, ya)
                f_t = lambda j, tw: tw.update(X=select(j, mk()), y_true=ya, y_pred=ya)
            else:
                f_e = lambda: ens.update(Xe)
                f_t = lambda j, tw: tw.update(X=select(j, mk()), y_true=None, y_pred=None)
        ctr_before = list(getattr(twin_election, "wait_period_counters", None) or [])
        r = call_both(step, "update", f_e, f_t)
        if r is None:
            break
        if not r[1]:                       # the update returned normally
            n_updates += 1
            since += 1
            try:
                expected_drift = twin_election(twins)
            except Exception as ex:
                expected_drift = "EXC:" + type(ex).__name__
            for j, sc in enumerate(scripts):
                if sc[-1][0] == "D" and first_drift[j] is None:
                    first_drift[j] = t
            if any(c != 0 and sc[-1][0] == "W" for c, sc in zip(ctr_before, scripts)):
                count("updates where a member reports warning while its ConfirmedElection wait counter is non-zero")
            count("updates with %d of the members in drift" % min(3, sum(1 for sc in scripts if sc[-1][0] == "D")) if
                  sum(1 for sc in scripts if sc[-1][0] == "D") < 3 else "updates with 3+ of the members in drift")
            if bad:
                count("malformed updates accepted by every member")
        if not check(step, "update"):
            break
        if r[1]:
            continue                       # rejected: same time index again with a well-formed input
        v = core.dstr(ens.drift_state) if ens.drift_state in (None, "warning", "drift") else "?"
        verdicts[v] = verdicts.get(v, 0) + 1
        t += 1
        pol = case["reset_policy"]
        if ens.drift_state == "drift" and (pol in ("on-drift", "both") or (pol == "on-drift-half" and rrng.random() < 0.5)):
            do_reset()
        elif pol in ("random", "both") and rrng.random() < 0.01:
            do_reset()
        if alive and not stream and rrng.random() < 0.03:
            do_setref(t, bad=pick(rrng, ["narrow", "wide"]) if case["inject"] and rrng.random() < 0.2 else None)
        # every third case: now and then the user replaces a member through the public `detectors` dict (same key, a new
        # object of the same class and parameters): from then on "the members" are the objects in the dict -- the member loop,
        # the views and the election all see the new one
        if alive and case["idx"] % 3 == 1 and t in replace_at:
            j = int(rrng.integers(0, n))
            fresh = copy.deepcopy(pristine[j])
            ens.detectors[keys[j]] = fresh
            members[j] = fresh
            twins[j] = copy.deepcopy(pristine[j])
            count("member replaced through ensemble.detectors")
            if not stream:
                do_setref(t)

    head = "new ensemble " + " ".join(str(x) for x in el) + f" members {n} " + " ".join(
        f"{k} {len(s)} " + " ".join(s) for k, s in zip(keys, scripts))
    res["lines"] = [head] + ops[:len(res["impl"])]
    res["impl"] = [None] + res["impl"]
    drifted = [x for x in first_drift if x is not None]
    res["nontrivial"] = len(set(drifted)) >= 2
    res["updates"] = n_updates
    res["verdicts"] = verdicts
    res["member_drifts"] = [sum(1 for o in s if o.lstrip("!")[0] == "D") for s in scripts]
    res["first_drift"] = first_drift
    res["warn_votes"] = sum(1 for s in scripts for o in s if o.lstrip("!")[0] == "W")
    return res


def _work(args):
    seed, tier, idx = args
    case = gen_case(seed, tier, idx)
    t0 = time.time()
    warnings.simplefilter("ignore")
    r = run_case(case)
    r["case"] = case
    r["secs"] = time.time() - t0
    return r


# ---------------------------------------------------------------- the check
def run(ctx):
    import numpy as np
    from concurrent.futures import ProcessPoolExecutor
    import menelaus  # noqa: F401  (import before forking)
    n_cases = 30 if ctx.quick else 300
    ctx.rule = ("a case = one ensemble (2-5 members drawn from DDM, EDDM, STEPD, LinearFourRates, ADWIN, CUSUM, PageHinkley, KdqTreeStreaming / "
                "KdqTreeBatch, HDDDM, CDBD, NNDVI; one of the four elections; random column selectors; ndarray or DataFrame input) "
                "driven through 100-600 updates with resets and set_reference calls interleaved, compared call by call with "
                "independent twins and with the Lean model; non-trivial = at least two members first report drift at different updates")
    jobs = [(ctx.seed, ctx.tier, i) for i in range(n_cases)]
    jobs.sort(key=lambda j: (j[2] % 3 != 2, j[2]))        # batch ensembles (the slow ones) first
    workers = int(os.environ.get("C12_WORKERS", min(8, os.cpu_count() or 1)))
    # when the run measures source coverage, a few cases of each kind are executed in this process (workers are not measured)
    inproc = jobs[:3] + jobs[-3:] if core.COVERAGE_ACTIVE else []
    rest = [j for j in jobs if j not in inproc]
    results = [_work(j) for j in inproc]
    with ProcessPoolExecutor(max_workers=workers) as ex:
        results += list(ex.map(_work, rest, chunksize=1))
    results.sort(key=lambda r: r["case"]["idx"])
    lines, expect = [], []
    for r in results:
        case = r["case"]
        ctx.case(("c12", ctx.seed, case["idx"]), r["nontrivial"])
        ctx.count("kind:" + case["kind"]); ctx.count("election:" + case["election"][0]); ctx.count("container:" + case["container"])
        ctx.count("members:%d" % case["n"]); ctx.count("reset-policy:" + case["reset_policy"])
        for m in case["members"]:
            ctx.count("member-class:" + m["cls"])
            ctx.count("selector:" + ("none" if m["sel"] is None else "columns"))
        for k, v in r["counts"].items():
            ctx.count(k, v)
        ctx.count("updates", r["updates"])
        ctx.count("member-drift-reports", sum(r["member_drifts"]))
        ctx.count("member-warning-reports", r["warn_votes"])
        for k, v in r["verdicts"].items():
            ctx.count("ensemble-verdict:" + k, v)
        if r["verdicts"].get("D"):
            ctx.count("cases-with-ensemble-drift")
        if r["verdicts"].get("W"):
            ctx.count("cases-with-ensemble-warning")
        if r["nontrivial"]:
            ctx.count("cases-members-drift-at-different-times")
        ctx.sample({**describe(case), "updates": r["updates"], "first_drift_update_per_member": r["first_drift"],
                    "ensemble_verdicts": r["verdicts"], "last_line": r["lines"][-1] + " -> " + str(r["impl"][-1])})
        for f in r["fails"]:
            ctx.fail(**f)
        for l, o in zip(r["lines"], r["impl"]):
            lines.append(l); expect.append((o, case, r))
    ctx.extra["slowest_case_s"] = round(max(r["secs"] for r in results), 2)
    out = core.run_driver(lines)
    step = 0
    bad_cases = set()
    for line, o, (impl, case, r) in zip(lines, out, expect):
        if impl is None:
            step = 0
            if o != "ok":
                raise core.Infra(f"driver rejected the ensemble of case {case['idx']}: {o}")
            continue
        ctx.traces += 1
        if o != impl and case["idx"] not in bad_cases:
            bad_cases.add(case["idx"])
            ctx.mismatch(component="ensemble", case=describe(case), step=step, op=line, impl=impl, model=o,
                         replay_with={"seed": case["seed"], "tier": case["tier"], "case": case["idx"]})
        step += 1
    # the input distribution must not degenerate
    nt = ctx.stats.get("cases-members-drift-at-different-times", 0)
    if not ctx.failing and not ctx.mismatches:
        if nt * 3 < n_cases or not ctx.stats.get("cases-with-ensemble-drift") or not ctx.stats.get("rejected calls") \
                or not ctx.stats.get("updates with 2 of the members in drift") or not ctx.stats.get("updates with 3+ of the members in drift") \
                or not (ctx.quick or ctx.stats.get("cases-with-ensemble-warning")) \
                or not ctx.stats.get("member-class:LinearFourRates") \
                or not (ctx.quick or ctx.stats.get("updates where a member reports warning while its ConfirmedElection wait counter is non-zero")) or not ctx.stats.get("reset calls") \
                or not ctx.stats.get("set_reference calls"):
            raise core.Infra(f"degenerate input distribution: {ctx.stats}")


def search(ctx, mismatches):
    # the twin relation and the other property clauses are evaluated on the real classes for every call of every case in
    # `run`; a remaining model mismatch concerns the election / counter model only
    return []


def replay(ctx, path):
    r = json.load(open(path))
    w = r.get("replay_with") or (r.get("broken_correspondence") or [{}])[0].get("replay_with")
    if not w:
        print(json.dumps(r, indent=1)); return 0
    case = gen_case(w["seed"], w["tier"], w["case"])
    warnings.simplefilter("ignore")
    res = run_case(case)
    print(json.dumps(describe(case), indent=1))
    out = core.run_driver(res["lines"])
    for i, (l, o, m) in enumerate(zip(res["lines"], res["impl"], out)):
        if o is not None and o != m:
            print(f"first model/implementation difference at call {i - 1} ({l}): impl `{o}` model `{m}`"); break
    for f in res["fails"]:
        print("FAILS:", json.dumps({k: v for k, v in f.items() if k != "config"}, default=str))
    return 1 if res["fails"] else 0
