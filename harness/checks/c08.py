"""
C08 — the kdq-tree partitions space consistently and conserves counts.

Correspondence: menelaus.partitioners.KDQTreePartitioner driven in-process through its
public API (build / fill / reset / node / leaves / leaf_counts / kl_distance /
to_plotly_dataframe) against the Lean model Model/KdqTree.lean executed by mdriver at
Float, on generated point sets (continuous, integer-valued, duplicated rows, constant
axes, dyadic grids, 1-4 dims, 0-300 points) x count_ubound x cutpoint_proportion_lbound x
sequences of fills under several ids with / without reset.

Property clauses (conservation, children sums, stop rule, axis cycling, midpoints, cell
membership, fill(build data) = build counts, accumulate / reset, KL >= 0, KL(self) = 0,
corrected distributions, flatten, Kulldorff statistic) are evaluated directly on the
public tree of the implementation, independently of the model, and feed ctx.fail.
"""
import copy, json, math
import numpy as np
import core

TRUST = [
    "one build per KDQTreePartitioner object (a second build() appends to the old `leaves` list; the detectors create a fresh partitioner per reference)",
    "data are finite (no NaN/inf), 2-d, and every fill has the column count of the build; an empty array given to build raises ValueError from numpy (modelled as such)",
    "np.min / np.max / np.ptp / np.unique / boolean-mask row selection / np.sum / scipy.special.rel_entr are modelled in Lean (Float), their numpy implementations are compared, not trusted; numpy's pairwise summation differs from the model's left fold only below the 1e-9 comparison tolerance",
    "pandas DataFrame plumbing of to_plotly_dataframe (from_dict, column max, apply); `idx` = id(node) canonicalised to the row position",
    "known finding kdq-midpoint-rounds-to-max concerns data whose coordinates are adjacent floats; random generators never produce it, it is replayed from two fixed inputs",
]

IDS = {"build": 0, "a": 1, "b": 2, "c": 3}
NAMES = {v: k for k, v in IDS.items()}
NAMES[9] = "never-used"
EPS = float(np.finfo(float).eps)


# ------------------------------------------------------------------ implementation side
def counts_str(d):
    items = sorted((IDS.get(k, 99), int(v)) for k, v in d.items())
    return ",".join(f"{k}={v}" for k, v in items) if items else "-"


def tree_tokens(node):
    if node is None:
        return ["_"]
    if node.axis is None:
        return ["L", counts_str(node.num_samples_in_compared_subtrees)]
    return (["N", str(int(node.axis)), core.f2b(node.midpoint_at_axis), counts_str(node.num_samples_in_compared_subtrees)]
            + tree_tokens(node.left) + tree_tokens(node.right))


def walk(node, depth=0, parent=None, out=None):
    """pre-order list of (node, depth, parent) over the public tree"""
    if out is None:
        out = []
    if node is None:
        return out
    out.append((node, depth, parent))
    if node.axis is not None:
        walk(node.left, depth + 1, node, out)
        walk(node.right, depth + 1, node, out)
    return out


def exc(e):
    return "EXC:" + type(e).__name__


def data_line(arr):
    n, m = arr.shape
    return f"{n} {m} " + " ".join(core.f2b(x) for x in arr.reshape(-1))


def spec_distn(counts):
    c = np.asarray(counts, dtype=float)
    return (c + 0.5) / (c.sum() + len(c) / 2.0)


def spec_kl(c1, c2):
    p, q = spec_distn(c1), spec_distn(c2)
    return float(math.fsum(float(a) * math.log(float(a) / float(b)) for a, b in zip(p, q)))


class Case:
    """one partitioner history: build + ops, run on the implementation; collects driver lines and the
    implementation's observables in the same order, and evaluates the property clauses"""

    def __init__(self, spec):
        self.spec = spec                  # json-able description (replayable)
        self.lines = []                   # driver lines
        self.obs = []                     # (kind, impl observable)
        self.fails = []                   # (what, details)
        self.flags = set()

    def fail(self, what, **kw):
        if len(self.fails) < 3:
            self.fails.append((what, kw))

    # ---- property clauses on the public tree
    def check_structure(self, part, m, ub, data, after_build):
        nodes = walk(part.node)
        leaves = [nd for nd, _, _ in nodes if nd.axis is None]
        if len(leaves) != len(part.leaves) or any(a is not b for a, b in zip(leaves, part.leaves)):
            self.fail("`leaves` is not the left-to-right list of the tree's leaves")
        for nd, depth, _ in nodes:
            d = nd.num_samples_in_compared_subtrees
            if nd.axis is None:
                continue
            if nd.left is None or nd.right is None:
                self.flags.add("none-child")
                self.fail("an internal node has a None child (points routed there are lost)", depth=depth)
                continue
            if m and nd.axis != depth % m:
                self.fail("axis does not cycle with depth", depth=depth, axis=int(nd.axis))
            for k, v in d.items():
                s = nd.left.num_samples_in_compared_subtrees.get(k, 0) + nd.right.num_samples_in_compared_subtrees.get(k, 0)
                if v != s:
                    self.fail("a node's count differs from the sum of its children's counts", tree_id=k, depth=depth,
                              node=int(v), children=int(s))
            if set(nd.left.num_samples_in_compared_subtrees) != set(d) or set(nd.right.num_samples_in_compared_subtrees) != set(d):
                self.fail("children carry different tree ids than their parent", depth=depth)
        if after_build and part.node is not None:
            self.route_check(part.node, data, ub, 0)

    def route_check(self, nd, P, ub, depth):
        """the build data routed through the implementation's own splits: counts, stop rule, midpoints"""
        if nd is None:
            if len(P):
                self.fail("points of the build data fall into a None child", depth=depth, points=int(len(P)))
            return
        c = nd.num_samples_in_compared_subtrees.get("build")
        if c != len(P):
            self.fail("build count of a node differs from the number of build points in its cell", depth=depth,
                      count=None if c is None else int(c), points=int(len(P)))
        if nd.axis is None:
            return
        if len(P) <= ub:
            self.fail("a node holding count_ubound points or fewer is split", depth=depth, points=int(len(P)), count_ubound=ub)
        if len(P):
            col = P[:, nd.axis]
            mid = float(col.min()) + (float(col.max()) - float(col.min())) / 2
            if not core.close(mid, float(nd.midpoint_at_axis)):
                self.fail("split value is not the midpoint of the range of the points held", depth=depth,
                          midpoint=float(nd.midpoint_at_axis), expected=mid)
        up = P[P[:, nd.axis] > nd.midpoint_at_axis]
        lo = P[P[:, nd.axis] <= nd.midpoint_at_axis]
        self.route_check(nd.left, lo, ub, depth + 1)
        self.route_check(nd.right, up, ub, depth + 1)

    @staticmethod
    def routed_counts(nd, P, out):
        """number of rows of P reaching every node (pre-order), by the stored splits"""
        if nd is None:
            return
        out.append(len(P))
        if nd.axis is None:
            return
        Case.routed_counts(nd.left, P[P[:, nd.axis] <= nd.midpoint_at_axis], out)
        Case.routed_counts(nd.right, P[P[:, nd.axis] > nd.midpoint_at_axis], out)

    @staticmethod
    def leaf_index(part, p):
        nd, lo_leaves = part.node, 0
        while nd.axis is not None:
            if p[nd.axis] > nd.midpoint_at_axis:
                lo_leaves += sum(1 for x, _, _ in walk(nd.left) if x.axis is None)
                nd = nd.right
            else:
                nd = nd.left
            if nd is None:
                return None
        return lo_leaves

    def check_fill(self, part, before, arr, tid, reset):
        """accumulate / reset, frame (other ids, structure) and cell membership of one fill"""
        nodes = walk(part.node)
        if len(nodes) != len(before) or any(nd is not b[0] for (nd, _, _), b in zip(nodes, before)):
            self.fail("fill changed the tree structure")
            return
        routed = []
        self.routed_counts(part.node, arr, routed)
        for (nd, depth, _), (_, axis, mid, cnt), r in zip(nodes, before, routed):
            if nd.axis != axis or (axis is not None and nd.midpoint_at_axis != mid):
                self.fail("fill changed a split", depth=depth)
            d = nd.num_samples_in_compared_subtrees
            exp = r if (reset or tid not in cnt) else cnt[tid] + r
            if d.get(tid) != exp:
                self.fail("fill: count differs from (previous count unless reset/absent) + points of the sample in the node's cell",
                          tree_id=tid, reset=reset, depth=depth, previous=cnt.get(tid), in_cell=int(r), now=d.get(tid))
            for k, v in cnt.items():
                if k != tid and d.get(k) != v:
                    self.fail("fill under one id changed the counts of another id", tree_id=tid, other=k, depth=depth)

    def check_cells(self, part, arr):
        """fill on a copy under a fresh id: every point is counted at exactly the leaf its descent reaches"""
        if part.node is None or not part.leaves or "none-child" in self.flags:
            return
        cp = copy.deepcopy(part)
        cp.fill(arr, "w", reset=True)
        lc = cp.leaf_counts("w")
        if lc is None:
            self.fail("leaf_counts is not available for an id that was just filled (a leaf of the tree is missing from `leaves`?)")
            return
        hist = [0] * len(lc)
        for p in arr:
            k = self.leaf_index(part, p)
            if k is not None:
                hist[k] += 1
        if [int(x) for x in lc] != hist:
            self.fail("fill does not count every point at the leaf whose cell contains it", leaf_counts=[int(x) for x in lc], cells=hist)
        if sum(int(x) for x in lc) != len(arr):
            self.fail("leaf counts do not add up to the number of points filled", total=int(sum(lc)), points=int(len(arr)))

    def check_kl_plotly(self, part, ids_present):
        if part.node is None or not part.leaves:
            return
        for i in ids_present:
            ci = [int(x) for x in part.leaf_counts(i)]
            if hasattr(type(part), "_distn_from_counts"):
                dist = np.asarray(type(part)._distn_from_counts(ci), dtype=float)
                if not core.close(float(math.fsum(dist)), 1.0) or not all(core.close(float(a), float(b)) for a, b in zip(dist, spec_distn(ci))):
                    self.fail("corrected leaf distribution is not (count + 0.5) / (total + leaves / 2) or does not sum to one",
                              counts=ci, distribution=[float(x) for x in dist])
            for j in ids_present:
                cj = [int(x) for x in part.leaf_counts(j)]
                kl = float(part.kl_distance(i, j))
                if not (kl >= -1e-12):
                    self.fail("kl_distance is negative", id1=i, id2=j, kl=kl)
                if ci == cj and abs(kl) > 1e-12:
                    self.fail("kl_distance of equal counts is not 0", id1=i, id2=j, kl=kl)
                if not core.close(kl, spec_kl(ci, cj)):
                    self.fail("kl_distance is not the Kullback-Leibler divergence of the corrected leaf distributions",
                              id1=i, id2=j, kl=kl, expected=spec_kl(ci, cj), counts1=ci, counts2=cj)

    def check_plotly_rows(self, part, id1, id2, df):
        nodes = walk(part.node)
        if len(df) != len(nodes):
            self.fail("to_plotly_dataframe does not list every node exactly once", rows=int(len(df)), nodes=len(nodes))
            return
        root = part.node.num_samples_in_compared_subtrees
        ref_max = root.get(id1, 0)
        test_max = root.get(id2, 0) if id2 else 0
        for (nd, depth, parent), (_, row) in zip(nodes, df.iterrows()):
            d = nd.num_samples_in_compared_subtrees
            pi = row["parent_idx"]
            pi = None if pi is None or (isinstance(pi, float) and math.isnan(pi)) else int(pi)
            if int(row["idx"]) != id(nd) or pi != (None if parent is None else id(parent)):
                self.fail("to_plotly_dataframe: idx / parent_idx do not identify the node and its parent", depth=depth)
            if int(row["depth"]) != depth or int(row["cell_count"]) != d.get(id1):
                self.fail("to_plotly_dataframe: depth / reference count wrong", depth=depth)
            if id2:
                t = d.get(id2, 0)
                if int(row["count_diff"]) != t - d[id1]:
                    self.fail("to_plotly_dataframe: count difference wrong", depth=depth)
                exp = spec_kl([d[id1], ref_max - d[id1]], [t, test_max - t]) if (ref_max >= d[id1] and test_max >= t) else None
                if exp is not None and not core.close(float(row["kss"]), exp):
                    self.fail("Kulldorff statistic is not the corrected two-cell (node vs. rest) divergence", depth=depth,
                              kss=float(row["kss"]), expected=exp)

    # ---- driving
    def plotly_obs(self, part, id1, id2, max_depth):
        try:
            df = part.to_plotly_dataframe(tree_id1=id1, tree_id2=id2, max_depth=max_depth)
        except Exception as e:
            return "KEYERR" if isinstance(e, KeyError) else "ATTRERR" if isinstance(e, AttributeError) else exc(e)
        ids = {int(x): i for i, x in enumerate(df["idx"])} if "idx" in df else {}
        rows = []
        for _, r in df.iterrows():
            pi = r["parent_idx"]
            pi = "_" if pi is None or (isinstance(pi, float) and math.isnan(pi)) else str(ids.get(int(pi), "?"))
            nm = str(r["name"]).split()
            ax, side = (nm[1], nm[2]) if len(nm) == 4 and nm[0] == "ax" else ("_", "_")
            rows.append([str(ids[int(r["idx"])]), pi, str(int(r["cell_count"])), str(int(r["depth"])),
                         str(int(r["count_diff"])) if id2 else "_", ax, side,
                         core.f2b(r["kss"]) if id2 else "_"])
        if max_depth is None and id1 in getattr(part.node, "num_samples_in_compared_subtrees", {}) and "none-child" not in self.flags:
            self.check_plotly_rows(part, id1, id2, df)
        return rows

    def run(self, KDQTreePartitioner):
        sp = self.spec
        ub, cplb, m = sp["count_ubound"], sp["cplb"], sp["m"]
        data = np.array(sp["data"], dtype=float).reshape(-1, m)
        if sp.get("int_dtype"):
            data_in = data.astype(np.int64)
        else:
            data_in = data
        part = KDQTreePartitioner(count_ubound=ub, cutpoint_proportion_lbound=cplb)
        self.lines.append(f"new kdq {ub} {core.f2b(cplb)}"); self.obs.append(("new", None))
        built = False
        for op in sp["ops"]:
            k = op[0]
            if k == "build":
                self.lines.append("build " + data_line(data))
                try:
                    part.build(data_in.copy())
                    o = tree_tokens(part.node); built = True
                except RecursionError:
                    o = ["RECURSION"]; self.flags.add("recursion"); part.node = None; part.leaves = []
                    self.fail("build does not terminate (RecursionError)")
                except ValueError:
                    o = ["VALUEERROR"]; part.node = None; part.leaves = []
                except Exception as e:
                    o = [exc(e)]; self.fail("build raised " + type(e).__name__); part.node = None; part.leaves = []
                self.obs.append(("tree", o))
                if built and part.node is not None:
                  try:
                    self.check_structure(part, m, ub, data, True)
                    if "none-child" not in self.flags:
                        # filling the build data under another id reproduces the build counts at every node
                        cp = copy.deepcopy(part); cp.fill(data.copy(), "w")
                        for nd, depth, _ in walk(cp.node):
                            d = nd.num_samples_in_compared_subtrees
                            if d.get("w") != d.get("build"):
                                self.fail("filling the build data under another id does not reproduce the build counts",
                                          depth=depth, build=d.get("build"), filled=d.get("w"))
                        self.check_cells(part, data)
                        lcb = part.leaf_counts("build")
                        if lcb is None or sum(lcb) != len(data):
                            self.fail("leaf counts do not add up to the number of points built (or are not available for the build id)",
                                      leaf_counts=None if lcb is None else [int(x) for x in lcb], points=int(len(data)))
                  except Exception as e:   # the public tree of a changed implementation may be malformed in ways the clauses do not anticipate
                    self.fail("a property clause could not be evaluated on the public tree after build: " + type(e).__name__ + ": " + str(e)[:120])
            elif k == "fill":
                _, tid, reset, pts = op
                arr = np.array(pts, dtype=float).reshape(-1, m)
                self.lines.append(f"fill {IDS[tid]} {int(reset)} " + data_line(arr))
                before = [(nd, nd.axis, nd.midpoint_at_axis, dict(nd.num_samples_in_compared_subtrees)) for nd, _, _ in walk(part.node)]
                try:
                    r = part.fill(arr.copy(), tid, reset=reset)
                    o = ["NONE"] if r is None else tree_tokens(part.node)
                except Exception as e:
                    o = [exc(e)]; self.fail("fill raised " + type(e).__name__)
                self.obs.append(("tree", o))
                if part.node is not None and o[0] not in ("NONE",) and not o[0].startswith("EXC"):
                    try:
                        self.check_fill(part, before, arr, tid, reset)
                        self.check_structure(part, m, ub, data, False)
                        self.check_cells(part, arr)
                    except Exception as e:
                        self.fail("a property clause could not be evaluated on the public tree after fill: " + type(e).__name__ + ": " + str(e)[:120])
            elif k == "reset":
                _, tid = op
                self.lines.append(f"reset 0 {IDS[tid]}")
                try:
                    part.reset(value=0, tree_id=tid)
                    o = tree_tokens(part.node)
                except Exception as e:
                    o = [exc(e)]
                self.obs.append(("tree", o))
            elif k == "query":
                present = sorted(part.node.num_samples_in_compared_subtrees) if part.node is not None else []
                try:
                    self.check_kl_plotly(part, present)
                except Exception as e:
                    self.fail("leaf_counts / kl_distance raised " + type(e).__name__)
                for i in (0, 1, 2, 3, 9):
                    self.lines.append(f"leafcounts {i}")
                    try:
                        r = part.leaf_counts(NAMES[i])
                        o = "NONE" if r is None else "C " + " ".join(str(int(x)) for x in r)
                    except KeyError:
                        o = "KEYERR"
                    except Exception as e:
                        o = exc(e)
                    self.obs.append(("exact", o))
                for i, j in op[1]:
                    self.lines.append(f"kl {i} {j}")
                    try:
                        r = part.kl_distance(NAMES[i], NAMES[j])
                        o = "NONE" if r is None else float(r)
                    except KeyError:
                        o = "KEYERR"
                    except Exception as e:
                        o = exc(e)
                    self.obs.append(("num", o))
                for i, j, md in op[2]:
                    self.lines.append(f"plotly {i} {'_' if j is None else j} {'_' if md is None else md}")
                    self.obs.append(("rows", self.plotly_obs(part, NAMES[i], None if j is None else NAMES[j], md)))
                self.lines.append("shape")
                nodes = walk(part.node)
                nn = all(nd.axis is None or (nd.left is not None and nd.right is not None) for nd, _, _ in nodes) and part.node is not None
                self.obs.append(("exact", f"{len(nodes)} {sum(1 for nd, _, _ in nodes if nd.axis is None)} {int(nn)}"))
        return self


def compare(kind, impl, model):
    """None if equal under the E/N rules, else a short description"""
    if kind == "new":
        return None if model == "ok" else "driver rejected new"
    if kind == "exact":
        return None if impl == model else "differs"
    if kind == "num":
        if isinstance(impl, str):
            return None if impl == model else "differs"
        if not model.isdigit():
            return "differs"
        return None if core.close(impl, core.b2f(model)) else "numeric value differs"
    if kind == "tree":
        mt = model.split(" ")
        if len(mt) != len(impl):
            return "tree shape differs"
        for i, (a, b) in enumerate(zip(impl, mt)):
            if a == b:
                continue
            if i >= 2 and impl[i - 2] == "N" and mt[i - 2] == "N" and core.close(core.b2f(a), core.b2f(b)):
                continue
            return f"tree token {i} differs"
        return None
    if kind == "rows":
        if isinstance(impl, str):
            return None if impl == model else "differs"
        mt = model.split(" ")
        if mt[0] != "ROWS" or len(mt) - 1 != len(impl):
            return "row count differs"
        ms = [x.split(":") for x in mt[1:]]
        pos = {x[0]: str(i) for i, x in enumerate(ms)}      # model idx (pre-order number) -> row position
        ipos = {x[0]: str(i) for i, x in enumerate(impl)}
        for i, (r, x) in enumerate(zip(impl, ms)):
            if [ipos.get(r[0]), ipos.get(r[1], r[1])] != [pos.get(x[0]), pos.get(x[1], x[1])] or r[2:7] != x[2:7]:
                return f"row {i} differs"
            if r[7] != x[7]:
                if "_" in (r[7], x[7]) or not core.close(core.b2f(r[7]), core.b2f(x[7])):
                    return f"kss of row {i} differs"
        return None
    raise core.Infra("unknown observable kind " + kind)


# ------------------------------------------------------------------ generators
def gen_points(rng, n, m, kind, scale):
    if kind == "uniform":
        a = rng.random((n, m)) * scale
    elif kind == "normal":
        a = rng.normal(0, 1, (n, m)) * scale
    elif kind == "int_small":
        a = rng.integers(0, 4, (n, m)).astype(float)
    elif kind == "int_wide":
        a = rng.integers(-20, 21, (n, m)).astype(float)
    elif kind == "dyadic":
        a = rng.integers(0, 33, (n, m)) / 8.0
    elif kind == "dup":
        k = int(rng.integers(1, 6))
        base = rng.integers(0, 9, (k, m)) / 2.0 if rng.random() < .5 else rng.random((k, m)) * scale
        a = base[rng.integers(0, k, n)] if n else np.zeros((0, m))
    elif kind == "const_axis":
        a = rng.integers(0, 17, (n, m)) / 4.0
        if n:
            a[:, int(rng.integers(0, m))] = float(rng.integers(0, 5))
    elif kind == "clusters":
        c = rng.integers(0, 3, n)
        a = rng.normal(0, .2, (n, m)) + c[:, None] * 4.0
    elif kind == "few_scalars":
        # binary / ternary features: a node can hold many points but only a handful of distinct *scalar* values, so that the
        # third stop condition of build (np.unique(data).size <= count_ubound) is the one that ends the recursion
        vals = np.array([[0.0, 1.0], [0.0, 0.5, 1.0], [-1.0, 1.0], [2.0, 3.0, 5.0]][int(rng.integers(0, 4))])
        a = vals[rng.integers(0, len(vals), (n, m))] if n else np.zeros((0, m))
    else:
        raise ValueError(kind)
    return np.asarray(a, dtype=float).reshape(n, m) + 0.0


KINDS = ["uniform", "normal", "int_small", "int_wide", "dyadic", "dup", "const_axis", "clusters", "few_scalars"]


def tree_mids(tokens):
    out = []
    for i, t in enumerate(tokens):
        if t == "N":
            out.append((int(tokens[i + 1]), core.b2f(tokens[i + 2])))
    return out


def gen_case(rng, idx, big):
    m = int(rng.integers(1, 5))
    r = rng.random()
    if r < .06:
        n = 0
    elif r < .25:
        n = int(rng.integers(1, 5))
    elif r < .6:
        n = int(rng.integers(5, 40))
    elif r < .9:
        n = int(rng.integers(40, 150))
    else:
        n = int(rng.integers(150, 301 if not big else 700))
    kind = KINDS[int(rng.integers(0, len(KINDS)))]
    scale = float([1.0, 10.0, 100.0][int(rng.integers(0, 3))])
    ub = int([1, 2, 5, 100][int(rng.integers(0, 4))])
    if ub == 100 and n <= 100 and rng.random() < .7:
        ub = int([1, 2, 5][int(rng.integers(0, 3))])
    cplb = float([2e-10, .1, .25][int(rng.integers(0, 3))])
    if kind == "few_scalars":
        m, ub, cplb = max(2, m), int([2, 3, 5][int(rng.integers(0, 3))]), 2e-10
    data = gen_points(rng, n, m, kind, scale)
    if isinstance(idx, int) and idx % 11 == 7:
        # a proportion of 1 or more is legal: no cell is ever large enough to be split (cell-size stop rule) -- not a percentage
        cplb = [1.0, 1.5, 25.0][(idx // 11) % 3]
    return {"id": idx, "count_ubound": ub, "cplb": cplb, "m": m, "kind": kind, "n": n,
            "int_dtype": bool(kind in ("int_small", "int_wide") and rng.random() < .3),
            "data": [float(x) for x in data.reshape(-1)]}


def gen_ops(rng, spec, KDQTreePartitioner):
    """fills are generated against the implementation's own tree so that some points sit exactly on split values"""
    m, n = spec["m"], spec["n"]
    data = np.array(spec["data"], dtype=float).reshape(-1, m)
    ops = []
    if rng.random() < .04:
        ops.append(("fill", "a", False, [float(x) for x in gen_points(rng, 3, m, "dyadic", 1.0).reshape(-1)]))
    ops.append(("build",))
    mids = []
    if n:
        try:
            p = KDQTreePartitioner(count_ubound=spec["count_ubound"], cutpoint_proportion_lbound=spec["cplb"])
            p.build(data.copy())
            mids = tree_mids(tree_tokens(p.node))
        except Exception:
            mids = []
    nf = int(rng.integers(0, 7))
    used = set()
    for _ in range(nf):
        tid = ["a", "b", "c", "a", "b", "build"][int(rng.integers(0, 6))]
        reset = bool(rng.random() < .35)
        r = rng.random()
        if r < .12:
            pts = data.copy()
        elif r < .2:
            pts = np.zeros((0, m))
        elif r < .3 and n:
            pts = data[rng.integers(0, n, int(rng.integers(1, n + 1)))]
        else:
            k = int(rng.integers(1, 60))
            kind = spec["kind"] if rng.random() < .6 else KINDS[int(rng.integers(0, len(KINDS)))]
            pts = gen_points(rng, k, m, kind, 1.0)
            if n and rng.random() < .5:
                pts = pts + (data.mean(axis=0) if rng.random() < .5 else 0.0)
            if mids and rng.random() < .6:       # put coordinates exactly on split values
                for _ in range(int(rng.integers(1, 8))):
                    ax, mid = mids[int(rng.integers(0, len(mids)))]
                    pts[int(rng.integers(0, k)), ax] = mid
        used.add(tid)
        ops.append(("fill", tid, reset, [float(x) for x in np.asarray(pts, dtype=float).reshape(-1)]))
        if rng.random() < .08:
            ops.append(("reset", tid))
        if rng.random() < .25:
            ops.append(query_op(rng, used))
    ops.append(query_op(rng, used))
    return ops


def query_op(rng, used):
    ids = sorted({0} | {IDS[u] for u in used})
    kls = [(i, j) for i in ids for j in ids]
    if len(kls) > 5:
        kls = [kls[int(k)] for k in rng.choice(len(kls), 5, replace=False)]
    kls.append((0, 9))
    pl = [(0, None, None), (0, ids[-1], None)]
    if len(ids) > 1:
        pl.append((ids[int(rng.integers(0, len(ids)))], ids[int(rng.integers(0, len(ids)))], None))
    pl.append((0, 9, None))
    pl.append((0, ids[-1], int(rng.integers(0, 4))))
    if rng.random() < .3:
        pl.append((9, None, None))
    return ("query", [list(x) for x in kls], [list(x) for x in pl])


def fixed_cases():
    """boundary inputs that are always run"""
    out = []
    # known finding: coordinates that are adjacent floats make `min + ptp/2` round to the maximum
    out.append({"id": "fx-ulp-1d", "count_ubound": 1, "cplb": 2e-10, "m": 1, "kind": "adjacent-floats", "n": 2, "int_dtype": False,
                "data": [1 + EPS, 1 + 2 * EPS], "ops": [("build",), ("query", [[0, 0]], [[0, None, None]])]})
    out.append({"id": "fx-ulp-2d", "count_ubound": 1, "cplb": 2e-10, "m": 2, "kind": "adjacent-floats", "n": 3, "int_dtype": False,
                "data": [1 + EPS, 0.0, 1 + 2 * EPS, 1.0, 1 + 2 * EPS, 3.0],
                "ops": [("build",), ("fill", "a", False, [5.0, 5.0, 0.0, 0.0]), ("query", [[0, 1]], [[0, 1, None]])]})
    # points exactly on the split value, one point, duplicates only, constant data
    out.append({"id": "fx-onsplit", "count_ubound": 1, "cplb": 2e-10, "m": 1, "kind": "fixed", "n": 3, "int_dtype": False,
                "data": [0.0, 1.0, 2.0], "ops": [("build",), ("fill", "a", False, [1.0, 1.0, 2.0, 0.0, 1.5]),
                                                 ("fill", "a", False, [1.0]), ("fill", "a", True, [0.5, 1.0]),
                                                 ("query", [[0, 1], [1, 0], [1, 1]], [[0, 1, None], [1, 0, None], [0, 1, 1]])]})
    out.append({"id": "fx-one", "count_ubound": 1, "cplb": .25, "m": 2, "kind": "fixed", "n": 1, "int_dtype": False,
                "data": [3.0, 4.0], "ops": [("build",), ("fill", "b", False, [0.0, 0.0, 9.0, 9.0]), ("query", [[0, 2]], [[0, 2, None]])]})
    out.append({"id": "fx-dups", "count_ubound": 2, "cplb": 2e-10, "m": 2, "kind": "fixed", "n": 6, "int_dtype": False,
                "data": [1.0, 2.0] * 6, "ops": [("build",), ("query", [[0, 0]], [[0, None, None]])]})
    out.append({"id": "fx-ub-boundary", "count_ubound": 2, "cplb": 2e-10, "m": 1, "kind": "fixed", "n": 6, "int_dtype": False,
                "data": [0.0, 1.0, 2.0, 3.0, 10.0, 11.0],
                "ops": [("build",), ("fill", "a", False, [5.5, 1.5, 10.5, 0.5]), ("query", [[0, 1]], [[0, 1, None]])]})
    return out


def degenerate_rounding(spec):
    """signature class of the known finding: at the root split the float midpoint min + ptp/2 equals the maximum"""
    m = spec["m"]
    d = np.array(spec["data"], dtype=float).reshape(-1, m)
    if not len(d) or not m:
        return False
    col = d[:, 0]
    mn, mx = float(col.min()), float(col.max())
    return mx > mn and mn + (mx - mn) / 2 >= mx


# ------------------------------------------------------------------ check
def evaluate(ctx, cases):
    lines, index = [], []
    for c in cases:
        for l, o in zip(c.lines, c.obs):
            lines.append(l); index.append((c, o))
    out = core.run_driver(lines)
    bad_case = set()
    for l, mo, (c, (kind, impl)) in zip(lines, out, index):
        if mo == "bad-op" or mo == "bad-new":
            raise core.Infra(f"driver rejected `{l[:80]}`")
        if id(c) in bad_case:
            continue
        ctx.traces += kind != "new"
        why = compare(kind, impl, mo)
        if why:
            bad_case.add(id(c))
            ctx.mismatch(component="KDQTreePartitioner", case=c.spec["id"], op=l[:200], why=why,
                         impl=show_obs(impl), model=mo[:3000], spec=spec_small(c.spec))
    for c in cases:
        for what, kw in c.fails:
            sig = {"class": "kdq-midpoint-rounds-to-max"} if (c.flags & {"recursion", "none-child"}) and degenerate_rounding(c.spec) \
                else {"class": "kdq-clause", "what": what}
            ctx.fail(signature=sig, what=what, details=kw, case=c.spec)


def show_obs(o):
    if isinstance(o, list):
        o = " ".join(x if isinstance(x, str) else ":".join(x) for x in o)
    return str(o)[:3000]


def spec_small(spec):
    s = dict(spec)
    if len(s.get("data", [])) > 400:
        s["data"] = s["data"][:400] + ["..."]
    s["ops"] = [list(o[:3]) + ([f"<{len(o[3])} values>"] if len(o) > 3 else []) if o[0] == "fill" else list(o) for o in s.get("ops", [])]
    return s


def run(ctx):
    from menelaus.partitioners.KDQTreePartitioner import KDQTreePartitioner
    rng = np.random.default_rng(ctx.seed)
    ncases = 260 if ctx.quick else 5000
    ctx.rule = ("a case = one partitioner history (build + up to 6 fills under ids a,b,c,build, with/without reset, optional "
                "reset(0), queries); non-trivial when the built tree has at least one split; distinct = distinct (config, data, ops)")
    cases = []
    for s in fixed_cases():
        cases.append(Case(s).run(KDQTreePartitioner))
    # one history with very long samples: fills of 70 000 and 140 000 rows (accumulating and overwriting an id that already
    # has counts) against a small tree — leaf counts must add up to the points filled however the rows are processed internally
    hrng = np.random.default_rng([ctx.seed, 808])
    hm = 2
    hdata = np.round(hrng.normal(size=(60, hm)) * 8) / 8
    hspec = {"id": 800000, "count_ubound": 8, "cplb": 2e-10, "m": hm, "kind": "huge-fills", "n": 60, "int_dtype": False,
             "data": [float(x) for x in hdata.reshape(-1)]}
    big1 = np.round(hrng.normal(size=(70000, hm)) * 8) / 8
    big2 = np.sort(np.round(hrng.normal(0.5, 1, size=(140000, hm)) * 8) / 8, axis=0)
    hspec["ops"] = [("build",), ("fill", "a", False, [float(x) for x in hdata.reshape(-1)]),
                    ("fill", "a", True, [float(x) for x in big1.reshape(-1)]),
                    ("fill", "a", False, [float(x) for x in big2.reshape(-1)]),
                    ("fill", "b", True, [float(x) for x in big2.reshape(-1)])]
    cases.append(Case(hspec).run(KDQTreePartitioner))
    ctx.count("huge-fill-histories")
    for i in range(ncases):
        crng = np.random.default_rng([ctx.seed, i])
        spec = gen_case(crng, i, big=not ctx.quick)
        spec["ops"] = gen_ops(crng, spec, KDQTreePartitioner)
        cases.append(Case(spec).run(KDQTreePartitioner))
        if ctx.elapsed() > (60 if ctx.quick else 780):
            ctx.count("stopped-early-on-budget")
            break
    # coverage bookkeeping
    splits = 0
    for c in cases:
        sp = c.spec
        tree = next((o for k, o in c.obs if k == "tree"), ["_"])
        nsplit = tree.count("N")
        ctx.case((sp["count_ubound"], sp["cplb"], sp["m"], tuple(sp["data"]), repr(sp["ops"])), nsplit > 0)
        splits += nsplit > 0
        ctx.count(f"dims={sp['m']}"); ctx.count(f"kind={sp['kind']}"); ctx.count(f"count_ubound={sp['count_ubound']}")
        ctx.count(f"cplb={sp['cplb']}")
        n = sp["n"]
        ctx.count("points=" + ("0" if n == 0 else "1-4" if n < 5 else "5-39" if n < 40 else "40-149" if n < 150 else "150+"))
        ctx.count("splits=" + ("0" if nsplit == 0 else "1-3" if nsplit < 4 else "4-15" if nsplit < 16 else "16+"))
        nf = sum(1 for o in sp["ops"] if o[0] == "fill")
        ctx.count(f"fills={nf}")
        ctx.count("fills-with-reset", sum(1 for o in sp["ops"] if o[0] == "fill" and o[2]))
        ctx.count("fills-under-build-id", sum(1 for o in sp["ops"] if o[0] == "fill" and o[1] == "build"))
        ctx.count("fill-of-build-data", sum(1 for o in sp["ops"] if o[0] == "fill" and o[3] == sp["data"]))
        ctx.count("empty-fill", sum(1 for o in sp["ops"] if o[0] == "fill" and not o[3]))
        ctx.count("reset(0)-ops", sum(1 for o in sp["ops"] if o[0] == "reset"))
        if sp.get("int_dtype"):
            ctx.count("integer-dtype-input")
        if tree[0] == "L":
            ctx.count("root-is-leaf")
        if tree[0] in ("RECURSION", "VALUEERROR", "_"):
            ctx.count("build-outcome=" + tree[0])
    for c in cases[6:9]:
        ctx.sample({"spec": spec_small(c.spec), "first_tree": " ".join(next((o for k, o in c.obs if k == "tree"), []))[:300]})
    if splits < len(cases) // 4:
        raise core.Infra("degenerate input distribution: fewer than a quarter of the cases split at all")
    evaluate(ctx, cases)
    ctx.extra["driver_lines"] = sum(len(c.lines) for c in cases)
    ctx.extra["property_clauses_on_impl"] = [
        "children sums per id", "leaves list = leaves of the tree", "axis = depth mod m", "midpoint of held points",
        "stop rule (<= count_ubound never split)", "build counts = points in cell", "fill(build data, new id) = build counts at every node",
        "fill: previous (unless reset/absent) + points in cell, other ids untouched, structure untouched",
        "each filled point counted at the leaf its descent reaches; leaf counts add up", "KL >= 0, KL(equal counts) = 0, KL = spec",
        "corrected distribution sums to one", "plotly rows = nodes (idx, parent, depth, count, diff), kss = two-cell KL"]


def search(ctx, mismatches):
    # every case already went through all property clauses in `run`; a correspondence mismatch that no
    # clause rejects concerns model-only detail (e.g. the unique-value stop rule, exact midpoint arithmetic)
    return []


def replay(ctx, path):
    from menelaus.partitioners.KDQTreePartitioner import KDQTreePartitioner
    r = json.load(open(path))
    specs = []
    if "case" in r:
        specs.append(r["case"])
    for b in r.get("broken_correspondence", []):
        print("correspondence mismatch (spec abbreviated):", json.dumps(b, indent=1, default=str)[:3000])
    rc = 0
    for sp in specs:
        sp["ops"] = [tuple(o) for o in sp["ops"]]
        c = Case(sp).run(KDQTreePartitioner)
        out = core.run_driver(c.lines)
        for l, mo, (kind, impl) in zip(c.lines, out, c.obs):
            why = compare(kind, impl, mo)
            print(("MISMATCH " + why if why else "agree   "), l[:70], "| impl:", str(impl)[:120], "| model:", mo[:120])
        for what, kw in c.fails:
            rc = 1
            print("PROPERTY FAILS:", what, kw)
    return rc
