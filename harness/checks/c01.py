"""
C01 — lifecycle contract.  The contract is the Lean acceptor `MV.Lifecycle.violated`
(Model/Lifecycle.lean); Props/C01.lean proves that the Lean detector models are accepted by it
on every history.  Here the *same* acceptor (through mdriver) is run on traces of the 15 real
detectors over multi-drift histories: a rejected row is a concrete failing input.
"""
import numpy as np
import core
from impl import zoo

TRUST = ["warm-up signals that are not public (EDDM's error count, ADWIN's width, completion of kdq reference windows) are "
         "reconstructed from the inputs / public retraining_recs by the acceptor, never read from private fields",
         "MD3 is exercised with a deterministic threshold classifier (its protocol is C19's subject)"]


# minimised past misses (DESIGN §11.7): (config, history) per detector family, replayed on every run
CORPUS = {
    # a known target with an early downward level shift: an alarm inside the burn-in is only possible
    # when a direction-specific branch loses its `since > burn_in` guard
    "CUSUM": [
        (dict(target=0.0, sd_hat=1.0, burn_in=30, delta=0.25, threshold=5.0, direction="negative"),
         [0.125, -0.25] * 2 + [-3.0 - (i % 4) / 8.0 for i in range(120)]),
        (dict(target=0.0, sd_hat=1.0, burn_in=30, delta=0.25, threshold=5.0, direction="positive"),
         [0.125, -0.25] * 2 + [3.0 + (i % 4) / 8.0 for i in range(120)]),
        (dict(target=0.0, sd_hat=1.0, burn_in=30, delta=0.25, threshold=5.0, direction=None),
         [0.125, -0.25] * 2 + [-3.0 - (i % 4) / 8.0 for i in range(120)]),
    ],
    "PageHinkley": [
        (dict(delta=0.01, threshold=1.0, burn_in=30, direction="negative"), [0.0, 1.0] * 2 + [-4.0 - (i % 4) / 8.0 for i in range(120)]),
        (dict(delta=0.01, threshold=1.0, burn_in=30, direction="positive"), [0.0, 1.0] * 2 + [4.0 + (i % 4) / 8.0 for i in range(120)]),
    ],
}


def md3_trace(rng, n):
    """MD3 with a deterministic classifier: returns (cfgdesc, rows)"""
    import pandas as pd
    from sklearn.base import BaseEstimator, ClassifierMixin
    from menelaus.concept_drift import MD3

    class Fixed(BaseEstimator, ClassifierMixin):
        """deterministic linear classifier: fit() learns nothing, so k-fold clones agree with it"""
        def fit(self, X, y):
            self.coef_ = np.array([[1.0, 1.0]]); self.intercept_ = np.array([0.0]); self.classes_ = np.array([0, 1])
            return self
        def predict(self, X):
            X = np.asarray(X, dtype=float)
            return (X[:, 0] + X[:, 1] > 0).astype(int)
    d = 2
    def mk(m, shift=0.0):
        X = rng.normal(0, 1, (m, d)) + shift
        y = (X[:, 0] + X[:, 1] > 2 * shift).astype(int)
        df = pd.DataFrame(X, columns=["a", "b"]); df["y"] = y
        return df
    ref = mk(40)
    clf = Fixed().fit(ref[["a", "b"]], ref["y"])
    olen = int(rng.choice([3, 5]))
    det = MD3(clf=clf, sensitivity=float(rng.choice([0.5, 1.0, 2.0])), k=2, oracle_data_length_required=olen)
    det.set_reference(ref, target_name="y")
    rows, shift = [], 0.0
    for i in range(n):
        if rng.random() < 0.02:
            shift = float(rng.choice([0.0, 1.5, 3.0]))
        s = mk(1, shift)
        if det.waiting_for_oracle:
            # answer the oracle; afterwards drift_state may be "drift"
            while det.waiting_for_oracle:
                lab = mk(1, shift)
                if rng.random() < 0.5:
                    lab["y"] = 1 - lab["y"]
                det.give_oracle_label(lab)
            # the label calls are not updates: the row of the last update is re-observed
            st, t, sr, _ = zoo.obs(det)
            rows[-1] = (st, t, sr, None, False, False)
            continue
        det.update(s[["a", "b"]])
        st, t, sr, _ = zoo.obs(det)
        rows.append((st, t, sr, None, False, False))
    return {"oracle_len": olen}, rows


def run(ctx):
    rng = np.random.default_rng(ctx.seed)
    per = 10 if ctx.quick else 60
    ctx.rule = ("for each of the 15 public detectors: configurations from boundary menus x piecewise-stationary histories built to "
                "produce several drifts; every update's (drift_state,total,since,retraining_recs) row is judged by the Lean lifecycle "
                "acceptor; a case is non-trivial when it contains >= 2 reported drifts (reaches a third epoch); distinct = distinct (detector, config, history)")
    # reading a detector between updates (properties, statistics accessors, export / plotting frames) changes neither its
    # counters nor anything it reports later (impl/zoo.accessor_failures)
    for _f in zoo.accessor_failures(ctx, [f.name for f in zoo.FAMILIES], per_family=1 if ctx.quick else 4):
        ctx.fail(signature={"clause": "reading-does-not-change-the-detector"}, **_f)
    lines, meta = [], []   # meta[i] = None | (case_idx, step)
    cases = []
    for fam in zoo.FAMILIES:
        corpus = CORPUS.get(fam.name, [])
        for k in range(-len(corpus), per):
            crng = np.random.default_rng([ctx.seed, core.shash(fam.name), abs(k)])
            cfg = fam.config(crng)
            if fam.kind == "stream":
                n = int(crng.choice([300, 800, 1500])) if fam.name != "PCACD" else int(crng.choice([400, 900]))
                if fam.name == "LinearFourRates":
                    n = int(crng.choice([150, 300]))
            else:
                n = int(crng.choice([10, 20, 35]))
            hist = fam.history(crng, cfg, n)
            if k < 0:      # corpus cases (minimised past misses) run first
                cfg, hist = corpus[-k - 1]
                cfg = dict(cfg)
                ctx.count(f"{fam.name}:corpus-cases")
            det = fam.make(cfg)
            no_setref = fam.name == "KdqTreeBatch" and bool(crng.integers(0, 2))
            items = hist[1:] if (fam.kind == "batch" and no_setref) else (fam.start(det, cfg, hist) or hist)
            kind, a, b, restart, inc = fam.lifecycle(cfg)
            st0 = zoo.obs(det)
            case = {"detector": fam.name, "config": cfg, "n": len(items), "no_set_reference": no_setref}
            cases.append(case)
            ci = len(cases) - 1
            lines.append(f"new lifecycle {kind} {a} {b} {restart} {inc} {1 if fam.has_recs else 0}"); meta.append(None)
            lines.append(f"init {st0[1]} {st0[2]}"); meta.append(None)
            rows, drifts, epoch_pos, exc = [], 0, 0, None
            prev_drift = None
            for i, it in enumerate(items):
                epoch_pos = 1 if prev_drift == "drift" else epoch_pos + 1
                try:
                    fam.feed(det, it)
                except Exception as e:
                    exc = f"{type(e).__name__}: {e}"
                    break
                d, t, s, r = zoo.obs(det)
                err = fam.name == "EDDM" and it[0] != it[1]
                ref_done = (fam.name == "KdqTreeStreaming" and epoch_pos == cfg["window_size"]) or \
                           (fam.name == "KdqTreeBatch" and no_setref and i == 0)
                if d not in (None, "warning", "drift"):
                    ctx.fail(detector=fam.name, config=cfg, step=i, what=f"drift_state {d!r} outside None/warning/drift")
                    break
                lines.append(f"o {core.dstr(d)} {t} {s} {core.recs_str(r)} {int(err)} {int(ref_done)}")
                meta.append((ci, i))
                rows.append([core.dstr(d), t, s, core.recs_str(r)])
                drifts += d == "drift"
                prev_drift = d
            case["drifts"] = drifts
            case["rows"] = rows
            if exc is not None and fam.name == "CUSUM" and "Standard deviation is 0" in exc:
                # documented rejection of a constant estimation window (degenerate, DESIGN §6): the history ends here
                ctx.count("CUSUM:sd-zero-rejection")
            elif exc is not None:
                # an accepted update must not raise: the contract quantifies over accepted updates
                ctx.fail(detector=fam.name, config=cfg, step=len(rows), history_seed=[ctx.seed, fam.name, k],
                         what="update raised " + exc, last_rows=rows[-3:])
            ctx.case((fam.name, repr(cfg), k), drifts >= 2)
            ctx.count(f"{fam.name}:cases")
            ctx.count(f"{fam.name}:drifts", drifts)
            ctx.count(f"{fam.name}:third-epoch", int(drifts >= 2))
            ctx.traces += 1
    # MD3
    for k in range(per):
        crng = np.random.default_rng([ctx.seed, 77, k])
        desc, rows = md3_trace(crng, 150 if ctx.quick else 400)
        cases.append({"detector": "MD3", "config": desc, "rows": [[core.dstr(r[0]), r[1], r[2], "_,_"] for r in rows]})
        ci = len(cases) - 1
        lines.append("new lifecycle md3 0 1 1 1 0"); meta.append(None)
        lines.append("init 0 0"); meta.append(None)
        drifts = 0
        for i, (d, t, s, r, e, rd) in enumerate(rows):
            lines.append(f"o {core.dstr(d)} {t} {s} _,_ 0 0"); meta.append((ci, i))
            drifts += d == "drift"
        cases[ci]["drifts"] = drifts
        ctx.case(("MD3", k), drifts >= 2)
        ctx.count("MD3:cases"); ctx.count("MD3:drifts", drifts); ctx.count("MD3:third-epoch", int(drifts >= 2))
        ctx.traces += 1

    out = core.run_driver(lines)
    seen = set()
    for line, o, m in zip(lines, out, meta):
        if m is None:
            if o != "ok":
                raise core.Infra(f"driver rejected `{line}`: {o}")
            continue
        ci, step = m
        if o != "ok" and ci not in seen:
            seen.add(ci)
            c = cases[ci]
            ctx.fail(detector=c["detector"], config=c["config"], step=step, clause=o, row=c["rows"][step],
                     previous_rows=c["rows"][max(0, step - 3):step], case=ci,
                     what=f"lifecycle contract clause `{o}` rejected at update {step}")
    for c in cases[:2] + [c for c in cases if c["detector"] in ("HDDDM", "KdqTreeStreaming")][:2]:
        ctx.sample({"detector": c["detector"], "config": c["config"], "drifts": c["drifts"], "first_rows": c["rows"][:5]})
    # generator quality: every family must reach a third epoch in some case
    weak = [f.name for f in zoo.FAMILIES if ctx.stats.get(f"{f.name}:third-epoch", 0) == 0]
    ctx.extra["families_without_third_epoch"] = weak
    if len(weak) > 4:
        raise core.Infra(f"degenerate input distribution: no multi-drift history for {weak}")


def replay(ctx, path):
    return core.generic_replay(ctx, path, run)
