"""
C16 — only agreement between label and prediction matters to error-based detectors;
documented-unused arguments are unused.

Everything here is a twin-run relation executed on the REAL classes (the Lean side,
Props/C16.lean, proves the relation for any step function that is handed the agreement
bit / the confusion cell / no further argument — that the classes have this shape is
what these runs establish):

  A. DDM, EDDM, STEPD, ADWINAccuracy: canonical 0/1 int run  vs  the same outcome
     sequence under re-encodings of the labels (other ints, strings, booleans, floats,
     numpy scalar types, >= 3 classes with the same agreement pattern, the complementary
     pair, 1-element list / tuple / ndarray / 2-d ndarray / Series, mixed containers);
     LinearFourRates: the same 0/1 cells as bool, numpy ints / bool_ and 1-element
     containers.  Full traces of every public observable are compared for equality.
  B. junk in the unused arguments: X for the five concept-drift detectors; y_true / y_pred
     for ADWIN, CUSUM, PageHinkley, KdqTreeStreaming, KdqTreeBatch, HDDDM, CDBD, NNDVI,
     PCACD (set_reference and update).  Full traces compared with the junk-free run.

Stochastic detectors: the global numpy state is re-seeded before every call on each side.
"""
import json, warnings
import numpy as np
import core

TRUST = [
    "twin runs on the real classes only (no model in the loop); the Lean theorems are about any step function of the agreement bit / cell",
    "label values are hashable scalars or 1-element containers of them; y_true / y_pred = None, NaN labels (NaN != NaN) and cross-type pairs such as (1, '1') are outside the property",
    "LinearFourRates: labels must be 0/1-valued integers or booleans (they index the confusion matrix); strings / floats are rejected by numpy indexing",
    "stochastic detectors (LFR, kdq-tree, NN-DVI): np.random.seed(schedule[i]) before every call on each side",
    "observables = every public instance attribute / property and zero-argument accessor (mean, variance, *_accuracy, to_dataframe) after every call",
]


# ---------------------------------------------------------------- observables
ACCESSORS = ("mean", "variance", "recent_accuracy", "past_accuracy", "overall_accuracy")


import pandas as pd


def canon(v, depth=0):
    t = type(v)
    if v is None or t is str or t is bool or t is int:
        return v
    if t is float:
        return v.hex()
    if isinstance(v, (str, bool)):
        return v
    if isinstance(v, (int, np.integer)):
        return int(v)
    if isinstance(v, (float, np.floating)):
        return float(v).hex()
    if isinstance(v, np.bool_):
        return bool(v)
    if depth > 4:
        return "<deep>"
    if isinstance(v, (list, tuple)):
        return [canon(x, depth + 1) for x in v]
    if isinstance(v, np.ndarray):
        if v.size > 4000:
            return ["ndarray", list(v.shape), float(np.nansum(v.astype(float))).hex() if v.dtype != object else "obj"]
        return ["ndarray", list(v.shape), [canon(x, depth + 1) for x in v.ravel().tolist()]]
    if isinstance(v, dict):
        return {str(k): canon(x, depth + 1) for k, x in v.items()}
    if isinstance(v, (pd.DataFrame, pd.Series)):
        return ["frame", list(v.shape), [canon(x, depth + 1) for x in np.asarray(v).ravel().tolist()]]
    if isinstance(v, pd.Index):
        return ["index", [str(x) for x in v]]
    return "<" + type(v).__name__ + ">"


_PROPS = {}


def snapshot(d, final=False):
    t = type(d)
    if t not in _PROPS:
        _PROPS[t] = ([n for n in dir(t) if not n.startswith("_") and isinstance(getattr(t, n, None), property)],
                     [n for n in ACCESSORS if callable(getattr(t, n, None))])
    props, accs = _PROPS[t]
    out = {}
    for n, v in vars(d).items():
        if n[0] != "_":
            out[n] = canon(v)
    for n in props:
        try:
            out[n] = canon(getattr(d, n))
        except Exception as ex:
            out[n] = "EXC:" + type(ex).__name__
    for n in accs:
        try:
            out[n + "()"] = canon(getattr(d, n)())
        except Exception as ex:
            out[n + "()"] = "EXC:" + type(ex).__name__
    if final and callable(getattr(d, "to_dataframe", None)):
        try:
            out["to_dataframe()"] = canon(d.to_dataframe())
        except Exception as ex:
            out["to_dataframe()"] = "EXC:" + type(ex).__name__
    return out


def run_calls(make, calls, seeds):
    """calls: list of (method, args, kwargs); returns the list of snapshots (one per call)"""
    tr = []
    with warnings.catch_warnings():
        warnings.simplefilter("ignore")
        try:
            np.random.seed(seeds[0])
            d = make()
        except Exception as ex:
            return [{"EXC": type(ex).__name__ + " in constructor"}]
        for i, (meth, args, kw) in enumerate(calls):
            np.random.seed(seeds[i + 1])
            try:
                getattr(d, meth)(*args, **kw)
                tr.append(snapshot(d, final=(i == len(calls) - 1)))
            except Exception as ex:
                tr.append({"EXC": type(ex).__name__})
                break
    return tr


def first_diff(a, b):
    for k in range(max(len(a), len(b))):
        if k >= len(a) or k >= len(b):
            return k, "trace length", None, None
        if a[k] != b[k]:
            keys = [n for n in sorted(set(a[k]) | set(b[k])) if a[k].get(n) != b[k].get(n)]
            return k, keys[0], a[k].get(keys[0]), b[k].get(keys[0])
    return None


# ---------------------------------------------------------------- A. label encodings
def enc_scalar(table):
    return lambda yt, yp, r: (table[yt], table[yp])


def enc_multiclass(classes):
    def f(yt, yp, r):
        a = classes[int(r.integers(len(classes)))]
        if yt == yp:
            return a, a
        b = classes[int(r.integers(len(classes)))]
        while b == a:
            b = classes[int(r.integers(len(classes)))]
        return a, b
    return f


_POS = {}


def enc_first_then(first, later):
    """history-dependent encoding: the very first pair of a run uses the classes `first` (e.g. a short string, an int, a
    bool, a float32), every later pair the classes `later` (longer strings with the same prefix, floats, other ints, close
    float64 values) — a detector that remembers anything about the type / width of the first label it saw (dtype pinning,
    fixed-width string arrays) merges or truncates the later ones."""
    def f(yt, yp, r):
        key = id(r)
        ent = _POS.get(key)
        if ent is None or ent[0] is not r:
            ent = [r, 0]
            _POS.clear()
            _POS[key] = ent
        ent[1] += 1
        return enc_multiclass(first if ent[1] == 1 else later)(yt, yp, r)
    return f


def wrap(box_t, box_p, inner=None):
    inner = inner or (lambda yt, yp, r: (yt, yp))

    def f(yt, yp, r):
        a, b = inner(yt, yp, r)
        return box_t(a), box_p(b)
    return f


def agreement_encodings():
    import pandas as pd
    ident = lambda v: v
    return [
        ("other ints", enc_scalar({0: 7, 1: -3})),
        ("strings", enc_scalar({0: "cat", 1: "dog"})),
        ("bools", enc_scalar({0: False, 1: True})),
        ("floats", enc_scalar({0: 0.5, 1: 2.25})),
        ("np.int64", enc_scalar({0: np.int64(0), 1: np.int64(1)})),
        ("np.uint8", enc_scalar({0: np.uint8(200), 1: np.uint8(3)})),
        ("np.float32", enc_scalar({0: np.float32(0.1), 1: np.float32(-7.5)})),
        ("np.str_", enc_scalar({0: np.str_("a"), 1: np.str_("b")})),
        ("complementary pair", lambda yt, yp, r: (1 - yt, 1 - yp)),
        # distinct labels that are numerically *close* (a tolerance-based comparison would merge them)
        ("close ints 100000/100001", enc_scalar({0: 100000, 1: 100001})),
        ("close ints 20240101/20240102", enc_scalar({0: 20240101, 1: 20240102})),
        ("close ints 2**53/2**53+2", enc_scalar({0: 2**53, 1: 2**53 + 2})),
        ("close np.int64 2**53/2**53+2", enc_scalar({0: np.int64(2**53), 1: np.int64(2**53 + 2)})),
        ("close np.int64 100000/100001", enc_scalar({0: np.int64(100000), 1: np.int64(100001)})),
        ("tiny floats 1e-9/2e-9", enc_scalar({0: 1e-9, 1: 2e-9})),
        ("tiny floats 0.0/1e-12", enc_scalar({0: 0.0, 1: 1e-12})),
        ("large floats 1e16/1e16+2", enc_scalar({0: 1e16, 1: 1e16 + 2.0})),
        ("close floats 1.0/1.0+2**-40", enc_scalar({0: 1.0, 1: 1.0 + 2.0**-40})),
        ("close classes 7/7+1e-10/7+2e-10, same agreement", enc_multiclass([7.0, 7.0 + 1e-10, 7.0 + 2e-10])),
        ("5 int classes, same agreement", enc_multiclass([0, 1, 2, 3, 4])),
        ("4 string classes, same agreement", enc_multiclass(["n", "e", "s", "w"])),
        ("3 float classes, same agreement", enc_multiclass([0.0, 1.5, -2.0])),
        ("short string first, then longer strings with that prefix", enc_first_then(["c1", "c2"], ["c10", "c11", "c1", "c100"])),
        ("short np.str_ first, then longer", enc_first_then([np.str_("a"), np.str_("b")], [np.str_("ab"), np.str_("abc"), np.str_("a")])),
        ("ints first, then fractions", enc_first_then([0, 1], [0.25, 0.5, 0.75, 1])),
        ("bools first, then other ints", enc_first_then([False, True], [2, 3, 4])),
        ("float32 first, then float64 values equal in float32", enc_first_then([np.float32(1.0), np.float32(2.0)],
                                                                                 [1.0, 1.0 + 2.0**-30, 1.0 + 2.0**-29])),
        ("np.int8 first, then ints differing by 256", enc_first_then([np.int8(1), np.int8(2)], [1, 257, 513])),
        ("1-element arrays: short string first, then longer", wrap(lambda v: np.array([v]), lambda v: np.array([v]),
                                                                   enc_first_then(["c1", "c2"], ["c10", "c11", "c1"]))),
        ("strings that are the same number but different text", enc_multiclass(["1", "01", "1.0", "1e0", "+1"])),
        ("strings that read as special floats", enc_multiclass(["nan", "inf", "-inf", "NaN"])),
        ("long digit strings differing in the last digit", enc_multiclass(["12345678901234567890", "12345678901234567891", "12345678901234567892"])),
        ("object-dtype array vs numeric array", wrap(lambda v: np.array([v], dtype=object), lambda v: np.array([v]), enc_scalar({0: 3, 1: 8}))),
        ("numeric array vs object-dtype Series", wrap(lambda v: np.array([v]), lambda v: pd.Series([v], dtype=object), enc_scalar({0: 3, 1: 8}))),
        ("object-dtype arrays of mixed classes", wrap(lambda v: np.array([v], dtype=object), lambda v: np.array([v], dtype=object), enc_multiclass([1, "1", 1.5]))),
        # class values that libraries like to treat as sentinels ("unlabelled", "missing", falsy): here they are ordinary classes
        ("signed -1/+1", enc_scalar({0: -1, 1: 1})),
        ("signed +1/-1 (the true class is mostly -1)", enc_scalar({0: 1, 1: -1})),
        ("3 classes -1/0/1, same agreement", enc_multiclass([-1, 0, 1])),
        ("floats -1.0/0.0", enc_scalar({0: -1.0, 1: 0.0})),
        ("np.int8 -1/1", enc_scalar({0: np.int8(-1), 1: np.int8(1)})),
        ("1-element arrays of -1/+1", wrap(lambda v: np.array([v]), lambda v: np.array([v]), enc_scalar({0: -1, 1: 1}))),
        ("empty string / blank", enc_scalar({0: "", 1: " "})),
        ("sentinel-like ints -999/-9999", enc_scalar({0: -999, 1: -9999})),
        ("extreme ints 2**31-1/-2**31", enc_scalar({0: 2**31 - 1, 1: -2**31})),
        ("np.uint8 255/0", enc_scalar({0: np.uint8(255), 1: np.uint8(0)})),
        ("strings 'None'/'-1'/'0'", enc_multiclass(["None", "-1", "0", ""])),
        # 64-bit unsigned ids beyond 2**53 (hashed class ids): distinct as integers, equal after a detour through float64
        ("np.uint64 2**63+1/2**63+2", enc_scalar({0: np.uint64(2**63 + 1), 1: np.uint64(2**63 + 2)})),
        ("np.uint64 ids beyond 2**53, 3 classes", enc_multiclass([np.uint64(2**60 + 1), np.uint64(2**60 + 2), np.uint64(2**60 + 3)])),
        ("1-element uint64 arrays beyond 2**53", wrap(lambda v: np.array([v], dtype=np.uint64), lambda v: np.array([v], dtype=np.uint64),
                                                     enc_scalar({0: 2**63 + 1, 1: 2**63 + 2}))),
        # pandas categoricals whose category lists differ between y_true and y_pred (predictions inferred from model output:
        # a class missing, another order): the labels are the category VALUES, not the integer codes
        ("categorical Series, different category lists", wrap(lambda v: pd.Series(pd.Categorical([v], categories=["a", "b", "c"])),
                                                             lambda v: pd.Series(pd.Categorical([v], categories=["c", "a", "b"])),
                                                             enc_multiclass(["a", "b", "c"]))),
        ("pd.Categorical, y_pred with a category missing / extra", wrap(lambda v: pd.Categorical([v], categories=["x", "y", "z"]),
                                                                       lambda v: pd.Categorical([v], categories=[c for c in ["w", "z", "y", "x"] if c != "w" or True]),
                                                                       enc_multiclass(["x", "y", "z"]))),
        ("categorical Series of ints, reversed categories", wrap(lambda v: pd.Series(pd.Categorical([v], categories=[1, 2, 3])),
                                                                lambda v: pd.Series(pd.Categorical([v], categories=[3, 2, 1])),
                                                                enc_multiclass([1, 2, 3]))),
        ("float labels in 1x1 ndarrays", wrap(lambda v: np.array([[v]]), lambda v: np.array([[v]]), enc_scalar({0: 0.5, 1: 2.25}))),
        ("float labels in one-cell DataFrames", wrap(lambda v: pd.DataFrame({"y": [v]}), lambda v: pd.DataFrame({"y": [v]}), enc_scalar({0: 1.0, 1: 0.0}))),
        ("3 float classes in 1x1 ndarrays", wrap(lambda v: np.array([[v]]), lambda v: np.array([[v]]), enc_multiclass([0.0, 1.0, 2.5]))),
        ("1-element lists", wrap(lambda v: [v], lambda v: [v])),
        ("1-element tuples of strings", wrap(lambda v: (v,), lambda v: (v,), enc_scalar({0: "x", 1: "y"}))),
        ("1-element ndarrays", wrap(lambda v: np.array([v]), lambda v: np.array([v]))),
        ("1x1 ndarrays", wrap(lambda v: np.array([[v]]), lambda v: np.array([[v]]))),
        ("1-element Series", wrap(lambda v: pd.Series([v]), lambda v: pd.Series([v]))),
        # one-element Series cut out of a longer one: the row label is not 0 (the label is the VALUE, whatever the index says)
        ("1-element Series with row label 7 / 'r3'", wrap(lambda v: pd.Series([v], index=[7]), lambda v: pd.Series([v], index=["r3"]))),
        ("1-element Series slice vs scalar", wrap(lambda v: pd.Series([0, v, 0], index=[10, 11, 12]).iloc[1:2], lambda v: v, enc_scalar({0: 4, 1: 9}))),
        ("list vs scalar", wrap(lambda v: [v], ident, enc_scalar({0: 10, 1: 20}))),
        ("Series of strings vs ndarray", wrap(lambda v: pd.Series([v]), lambda v: np.array([v]), enc_multiclass(["p", "q", "r"]))),
    ]


def cell_encodings():
    import pandas as pd
    return [
        ("bools", enc_scalar({0: False, 1: True})),
        ("np.int64", enc_scalar({0: np.int64(0), 1: np.int64(1)})),
        ("np.int8", enc_scalar({0: np.int8(0), 1: np.int8(1)})),
        ("np.bool_", enc_scalar({0: np.bool_(False), 1: np.bool_(True)})),
        ("1-element lists", wrap(lambda v: [v], lambda v: [v])),
        ("1-element ndarrays", wrap(lambda v: np.array([v]), lambda v: np.array([v]))),
        ("1x1 ndarrays of bool", wrap(lambda v: np.array([[bool(v)]]), lambda v: np.array([[bool(v)]]))),
        ("1-element Series", wrap(lambda v: pd.Series([v]), lambda v: pd.Series([v]))),
    ]


def label_detectors():
    from menelaus.concept_drift import DDM, EDDM, STEPD, ADWINAccuracy, LinearFourRates
    return [
        ("DDM", lambda: DDM(n_threshold=20, warning_scale=2, drift_scale=3), 320, "agreement"),
        ("EDDM", lambda: EDDM(n_threshold=10, warning_thresh=0.95, drift_thresh=0.9), 320, "agreement"),
        ("STEPD", lambda: STEPD(window_size=15, alpha_warning=0.05, alpha_drift=0.003), 320, "agreement"),
        ("ADWINAccuracy", lambda: ADWINAccuracy(delta=0.2, new_sample_thresh=8, window_size_thresh=10, subwindow_size_thresh=5), 320, "agreement"),
        ("LinearFourRates", lambda: LinearFourRates(burn_in=8, num_mc=20, time_decay_factor=0.6, warning_level=0.1, detect_level=0.05), 160, "cell"),
    ]


def outcome_sequence(rng, n):
    """canonical 0/1 pairs, piecewise-stationary error rate (low / high alternating)"""
    pairs, level_hi = [], bool(rng.integers(2))
    while len(pairs) < n:
        seg = int(rng.integers(50, 120))
        p_err = float(rng.choice([0.55, 0.7, 0.85])) if level_hi else float(rng.choice([0.02, 0.05, 0.1]))
        for _ in range(seg):
            yt = int(rng.integers(2))
            pairs.append((yt, 1 - yt if rng.random() < p_err else yt))
        level_hi = not level_hi
    return pairs[:n]


JUNK = None


def junk_values():
    import pandas as pd
    global JUNK
    if JUNK is None:
        JUNK = [
            ("str", lambda: "junk"), ("list of 3 strings", lambda: ["a", "b", "c"]), ("3x3 ndarray", lambda: np.ones((3, 3))),
            ("object()", lambda: object()), ("nan", lambda: float("nan")), ("dict", lambda: {"k": 1}),
            ("DataFrame 2x1", lambda: pd.DataFrame({"a": [1, 2]})), ("-1", lambda: -1), ("lambda", lambda: (lambda x: x)),
            ("ndarray of other width", lambda: np.arange(7.0).reshape(1, 7)), ("empty list", lambda: []),
        ]
    return JUNK


def part_a(ctx, rng):
    n_seq = 12 if ctx.quick else 40
    n_seq_lfr = 5 if ctx.quick else 24
    for name, make, n, mode in label_detectors():
        encs = agreement_encodings() if mode == "agreement" else cell_encodings()
        k = 0
        attempts = 0
        while k < (n_seq if mode == "agreement" else n_seq_lfr):
            attempts += 1
            if attempts > 20 * n_seq:
                raise core.Infra(f"{name}: cannot generate outcome sequences with >= 2 drifts")
            pairs = outcome_sequence(rng, n)
            seeds = [int(s) for s in rng.integers(0, 2**31 - 1, size=len(pairs) + 1)]
            base = run_calls(make, [("update", (yt, yp), {}) for yt, yp in pairs], seeds)
            drifts = sum(1 for o in base if o.get("drift_state") == "drift")
            if drifts < 2:
                ctx.count(f"A:{name}:regenerated(<2 drifts)")
                continue
            k += 1
            ctx.count(f"A:{name}:sequences")
            ctx.count(f"A:{name}:drifts", drifts)
            if any("EXC" in o for o in base):
                ctx.fail(signature={"class": "c16-canonical-run-raises", "detector": name},
                         what=f"{name}: the canonical 0/1 run raises", detector=name, pairs=pairs[:len(base)], impl=base[-1])
                continue
            for ei, (ename, enc) in enumerate(encs):
                if ctx.quick and mode == "agreement" and (ei + k) % 2 == 0:
                    continue        # quick tier: every sequence runs half of the encodings (alternating), budget ~60 s
                r = np.random.default_rng([ctx.seed, k, len(ename)])
                enc_pairs = [enc(yt, yp, r) for yt, yp in pairs]
                tr = run_calls(make, [("update", p, {}) for p in enc_pairs], seeds)
                ctx.traces += 1
                ctx.case(("A", name, ename, tuple(pairs)), True)
                ctx.count(f"A:encoding:{ename}")
                d = first_diff(base, tr)
                if d is not None:
                    step = d[0]
                    ctx.fail(signature={"class": "c16-label-encoding", "detector": name, "encoding": ename},
                             what=f"{name}: outputs change under the re-encoding `{ename}` of the labels (same "
                                  f"{'agreement' if mode == 'agreement' else 'confusion cells'}) at update {step}, observable {d[1]}",
                             detector=name, encoding=ename, canonical_pairs=pairs[:step + 1],
                             encoded_pairs=[[repr(a), repr(b)] for a, b in enc_pairs[:step + 1]],
                             np_random_seeds=seeds[:step + 2], step=step, observable=d[1], canonical=d[2], encoded=d[3])
            # a bare number as X (a univariate stream's observation) while the labels arrive in 1-element containers, by keyword
            # and by position: X is documented as unused, whatever the shapes of the three arguments
            sr = np.random.default_rng([ctx.seed, k, 98])
            box = [lambda v: np.array([v]), lambda v: [v], lambda v: np.array([[v]])][k % 3]
            xs_menu = [0, 1, 0.5, -1.0, 2, np.float64(1.0), np.int64(0)]
            calls = []
            for j, (yt, yp) in enumerate(pairs):
                xv = xs_menu[int(sr.integers(len(xs_menu)))]
                if j % 2 == 0:
                    calls.append(("update", (), {"y_true": box(yt), "y_pred": box(yp), "X": xv}))
                else:
                    calls.append(("update", (box(yt), box(yp), xv), {}))
            tr = run_calls(make, calls, seeds)
            ctx.traces += 1
            ctx.case(("A-Xscalar", name, tuple(pairs)), True)
            ctx.count("B:scalar X with boxed labels")
            d = first_diff(base, tr)
            if d is not None:
                ctx.fail(signature={"class": "c16-unused-argument", "detector": name, "argument": "X"},
                         what=f"{name}: outputs change when a bare number is passed as X and the labels in 1-element containers, at update {d[0]}, observable {d[1]}",
                         detector=name, canonical_pairs=pairs[:d[0] + 1], np_random_seeds=seeds[:d[0] + 2],
                         step=d[0], observable=d[1], without=d[2], with_junk=d[3])
            # junk in X
            jr = np.random.default_rng([ctx.seed, k, 99])
            jv = junk_values()
            calls = []
            for yt, yp in pairs:
                jn, jf = jv[int(jr.integers(len(jv)))]
                calls.append(("update", (yt, yp), {"X": jf()}))
            tr = run_calls(make, calls, seeds)
            ctx.traces += 1
            ctx.case(("A-X", name, tuple(pairs)), True)
            ctx.count("B:junk X (concept drift)")
            d = first_diff(base, tr)
            if d is not None:
                ctx.fail(signature={"class": "c16-unused-argument", "detector": name, "argument": "X"},
                         what=f"{name}: outputs change when junk is passed as X at update {d[0]}, observable {d[1]}",
                         detector=name, canonical_pairs=pairs[:d[0] + 1], np_random_seeds=seeds[:d[0] + 2],
                         step=d[0], observable=d[1], without=d[2], with_junk=d[3])
    ctx.sample({"detector": "DDM", "encodings": [e for e, _ in agreement_encodings()]})
    ctx.sample({"detector": "LinearFourRates", "encodings": [e for e, _ in cell_encodings()]})


# ---------------------------------------------------------------- B. y_true / y_pred of change / data-drift detectors
def data_detectors():
    from menelaus.change_detection import ADWIN, CUSUM, PageHinkley
    from menelaus.data_drift import KdqTreeStreaming, KdqTreeBatch, HDDDM, CDBD, NNDVI, PCACD

    def stream1(rng, n):
        x = np.concatenate([rng.normal(0, 1, n // 2), rng.normal(2.5, 1, n - n // 2)])
        return [("update", (float(v),), {}) for v in x]

    def stream2(rng, n):
        x = np.vstack([rng.normal(0, 1, (n // 2, 2)), rng.normal(3, 1, (n - n // 2, 2))])
        return [("update", (x[i:i + 1].copy(),), {}) for i in range(n)]

    def batches(rng, nb, rows, cols):
        out = [("set_reference", (rng.normal(0, 1, (rows, cols)),), {})]
        for b in range(nb):
            out.append(("update", (rng.normal(0 if (b // 3) % 2 == 0 else 2.5, 1, (rows, cols)),), {}))
        return out

    return [
        ("ADWIN", lambda: ADWIN(delta=0.1), lambda r: stream1(r, 400)),
        ("CUSUM", lambda: CUSUM(burn_in=30, threshold=5), lambda r: stream1(r, 300)),
        ("PageHinkley", lambda: PageHinkley(burn_in=30, threshold=10), lambda r: stream1(r, 300)),
        ("KdqTreeStreaming", lambda: KdqTreeStreaming(window_size=40, persistence=0.1, bootstrap_samples=20, count_ubound=8),
         lambda r: stream2(r, 260)),
        ("KdqTreeBatch", lambda: KdqTreeBatch(bootstrap_samples=20, count_ubound=8), lambda r: batches(r, 8, 60, 2)),
        ("HDDDM", lambda: HDDDM(subsets=3), lambda r: batches(r, 10, 60, 2)),
        ("CDBD", lambda: CDBD(subsets=3), lambda r: batches(r, 10, 60, 1)),
        ("NNDVI", lambda: NNDVI(k_nn=5, sampling_times=30), lambda r: batches(r, 6, 30, 2)),
        ("PCACD", lambda: PCACD(window_size=40, divergence_metric="intersection"), lambda r: stream2(r, 300)),
    ]


def part_b(ctx, rng):
    reps = 2 if ctx.quick else 12
    jv = junk_values()
    for name, make, gen in data_detectors():
        for rep in range(reps):
            calls = gen(np.random.default_rng([ctx.seed, rep, len(name)]))
            seeds = [int(s) for s in rng.integers(0, 2**31 - 1, size=len(calls) + 1)]
            base = run_calls(make, calls, seeds)
            drifts = sum(1 for o in base if o.get("drift_state") == "drift")
            ctx.count(f"B:{name}:drifts", drifts)
            if any("EXC" in o for o in base):
                ctx.fail(signature={"class": "c16-canonical-run-raises", "detector": name},
                         what=f"{name}: the junk-free run raises", detector=name, step=len(base) - 1, impl=base[-1])
                continue
            for which in ("y_true", "y_pred", "both"):
                jr = np.random.default_rng([ctx.seed, rep, len(which)])
                jcalls, used = [], []
                for meth, args, kw in calls:
                    kw2 = dict(kw)
                    for a in (("y_true", "y_pred") if which == "both" else (which,)):
                        jn, jf = jv[int(jr.integers(len(jv)))]
                        kw2[a] = jf()
                        used.append(jn)
                    jcalls.append((meth, tuple(np.array(x, copy=True) if isinstance(x, np.ndarray) else x for x in args), kw2))
                tr = run_calls(make, jcalls, seeds)
                ctx.traces += 1
                ctx.case(("B", name, rep, which), True)
                ctx.count(f"B:junk {which}")
                d = first_diff(base, tr)
                if d is not None:
                    ctx.fail(signature={"class": "c16-unused-argument", "detector": name, "argument": which},
                             what=f"{name}: outputs change when junk is passed as {which} at call {d[0]} "
                                  f"({calls[min(d[0], len(calls) - 1)][0]}), observable {d[1]}",
                             detector=name, argument=which, junk=used[:2 * (d[0] + 1)], data_generator_seed=[ctx.seed, rep, len(name)],
                             np_random_seeds=seeds[:d[0] + 2], step=d[0], observable=d[1], without=d[2], with_junk=d[3])
        if ctx.stats.get(f"B:{name}:drifts", 0) == 0:
            raise core.Infra(f"{name}: the junk-free runs never reached a drift")


def run(ctx):
    rng = np.random.default_rng(ctx.seed)
    ctx.rule = ("A: case = (detector, encoding, outcome sequence); every outcome sequence has >= 2 drifts in the canonical run "
                "(others are regenerated), so every case is non-trivial; B: case = (detector, history, junk placement); the junk-free "
                "run of every detector reaches drift at least once.  distinct = distinct tuples")
    part_a(ctx, rng)
    part_b(ctx, rng)


def search(ctx, mismatches):
    return []


def replay(ctx, path):
    r = json.load(open(path))
    print(json.dumps(r, indent=1)[:6000])
    if r.get("signature", {}).get("class") != "c16-label-encoding":
        return 0
    name, ename = r["detector"], r["encoding"]
    make = dict((n, m) for n, m, _, _ in label_detectors())[name]
    pairs = [tuple(p) for p in r["canonical_pairs"]]
    seeds = r["np_random_seeds"]
    base = run_calls(make, [("update", p, {}) for p in pairs], seeds)
    # the encoded pairs are stored as repr(); simple scalars / containers are re-created with eval
    import pandas as pd  # noqa: F401  (names used by eval)
    from numpy import array, int64, uint8, int8, float32, str_, bool_  # noqa: F401
    try:
        enc = [(eval(a), eval(b)) for a, b in r["encoded_pairs"]]
    except Exception:
        print("replay: the encoded pairs cannot be re-created from their repr")
        return 0
    tr = run_calls(make, [("update", p, {}) for p in enc], seeds)
    d = first_diff(base, tr)
    if d is not None:
        print(f"VIOLATION property=C16 replay={path}  ({name} under `{ename}`: differs at update {d[0]} on {d[1]}: {d[2]} vs {d[3]})")
        return 1
    print("replay: canonical and encoded runs agree")
    return 0
