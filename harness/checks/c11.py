"""
C11 — PCA-CD.  Correspondence between menelaus.data_drift.PCACD and the Lean model
(Model/PCACD.lean + Model/PageHinkley.lean) on multivariate streams with level /
variance / correlation shifts, plus the property's clauses evaluated directly on
the implementation traces.

Oracle values (everything sklearn / scipy compute inside PCACD) are recomputed
here from the raw stream with the public API of StandardScaler, PCA,
KernelDensity and scipy's jensenshannon, following the calls of `update`; no
private field of the detector is read for them.  Which oracle an update needs is
decided by the MODEL: the driver prints the `need` of the next update and rejects
an operation with another tag, and a drift reported by the model starts a new
reference epoch on the harness side (the driver is re-run from the start of the
stream in rounds; speculative operations after a new drift are discarded).
Observables compared after every update: drift_state, samples_since_reset,
total_samples, num_pcs, length and last value of the score history
(`_change_score`, read as an observable only); once per detector: step,
ph_threshold, bins.
"""
import json, time
import numpy as np
import core

TRUST = [
    "sklearn StandardScaler / PCA(ev_threshold, full SVD) / KernelDensity(epanechnikov) and scipy jensenshannon are oracles: "
    "num_pcs, window projections, per-sample projections and (metric 'kl') the per-component KDE Jensen-Shannon value are "
    "recomputed by the harness from the raw stream with the same public calls and handed to the model",
    "Model/Scaler.lean models StandardScaler (mean_, population var_, scale_ = sqrt(var_) with scale 1 for a zero-variance column, transform, "
    "inverse_transform): tied to sklearn by a differential run on dyadic windows with constant columns (scaler_part); sklearn additionally "
    "treats a variance within rounding error of 0 as 0 (_is_constant_feature), which exact dyadic data never exercise",
    "the score history is read from the private list `_change_score` (as an observable, never as an oracle)",
    "numpy's summation order inside np.sum (histogram normalisation, intersection) is modelled as a left fold; compared with rel 1e-9",
    "thin-margin rule: a drift decision that differs while the Page-Hinkley margin |diff - theta| is in (0, 1e-9) on the model's or "
    "the implementation's statistics is truncated, an exact tie on both sides is decisive",
    "excluded configurations: window_size = 0, round(sample_period*window_size) <= 0, NaN/inf data, windows in which every feature is constant",
]

CHUNK = 64          # samples by which a case is extended per driver round
KL_SCORES = 12      # ... or until that many scheduled KDE evaluations (metric kl)


# ------------------------------------------------------------------ streams
def make_stream(spec):
    """deterministic stream from its spec (dict)"""
    rng = np.random.default_rng(spec["seed"])
    d, n, w = spec["d"], spec["n"], spec["w"]
    scales = np.array(spec["scales"][:d], dtype=float)
    A = rng.normal(size=(d, d))
    q, _ = np.linalg.qr(A)
    mix = q * scales            # column j scaled: principal axes with decreasing variance
    if spec["kind"] == "repeat":
        block = rng.normal(size=(w, d)) @ mix.T
        reps = -(-n // w)
        X = np.tile(block, (reps, 1))[:n]
        return np.round(X * 1024) / 1024
    Z = rng.normal(size=(n, d))
    X = Z @ mix.T
    for (at, what, j, amount) in spec["shifts"]:
        if what == "level":
            X[at:, j] += amount
        elif what == "var":
            X[at:, j] *= amount
        elif what == "corr":
            # feature j becomes a (noisy) copy of feature j2 with sign `amount`
            j2 = (j + 1) % d
            X[at:, j] = amount * X[at:, j2] + 0.25 * Z[at:, j]
        elif what == "freeze":
            # feature j is exactly constant on rows at .. at+amount-1 (a stuck sensor): zero variance in a whole window
            X[at:at + int(amount), j] = X[at, j]
    return np.round(X * 1024) / 1024


# ------------------------------------------------------------------ implementation side
def run_impl(PCACD, cfg, X):
    """trace of the real detector through public attributes (+ the score history)"""
    np.random.seed(cfg["w"])
    try:
        det = PCACD(window_size=cfg["w"], ev_threshold=cfg["ev"], delta=cfg["delta"],
                    divergence_metric={"i": "intersection", "k": "kl"}[cfg["metric"]],
                    sample_period=cfg["sp"], online_scaling=cfg["scaling"])
        params = (int(det.step), float(det.ph_threshold), int(det.bins))
    except Exception as ex:
        return ("EXC:" + type(ex).__name__,), []
    obs = []
    for i in range(len(X)):
        try:
            det.update(X[i:i + 1].copy())
            hist = det._change_score
            obs.append((core.dstr(det.drift_state), int(det.samples_since_reset), int(det.total_samples),
                        "_" if det.num_pcs is None else str(int(det.num_pcs)), len(hist),
                        float(np.asarray(hist[-1]).ravel()[0])))
        except Exception as ex:  # a mutated tree may raise anywhere
            obs.append(("EXC:" + type(ex).__name__,))
            break
    return params, obs


# ------------------------------------------------------------------ oracle side
def bits(a):
    return " ".join(core.f2b(v) for v in np.asarray(a, dtype=float).ravel())


class OraclePlan:
    """Builds the operation lines of one case.  Follows the calls of PCACD.update with public
    sklearn / scipy / pandas API on its own copies of the data."""

    def __init__(self, cfg, X, step):
        self.cfg, self.X, self.step = cfg, X, step
        self.w = cfg["w"]
        self.ops = []                  # ops[n-1] = line of update n
        self.known_drifts = []
        self.reset_at = None           # update that is discarded (first update after a drift)
        self.fill_start = self.w + 1   # first update appended to the test window in this epoch
        self.B = 2 * self.w            # update at which both windows are full
        self.ref = None                # reference window (DataFrame) of epochs after a drift
        self.ref_ids = (1, self.w)
        self.rows, self.proj = [], []  # scaled rows / projections of updates fill_start, fill_start+1, …
        self.built = False
        self.done = False
        self.kde_evals = 0

    # -- what the code computes with sklearn
    def _frame(self, lo, hi):
        import pandas as pd
        f = pd.DataFrame()
        for n in range(lo, hi + 1):
            f = pd.concat([f, pd.DataFrame(self.X[n - 1:n])])
        return f

    def _kde(self, col):
        import pandas as pd
        from sklearn.neighbors import KernelDensity
        s = pd.Series(np.asarray(col, dtype=float))
        bw = 1.06 * np.std(s, ddof=1) * (len(s) ** (-1 / 5))
        k = KernelDensity(bandwidth=bw, kernel="epanechnikov").fit(s.values.reshape(-1, 1))
        return np.exp(k.score_samples(s.values.reshape(-1, 1)))

    def _build(self):
        import pandas as pd
        from sklearn.decomposition import PCA
        from sklearn.preprocessing import StandardScaler
        ref = self._frame(1, self.w) if self.ref is None else self.ref
        test = self._frame(self.fill_start, self.B)
        if self.cfg["scaling"]:
            self.scaler = StandardScaler()
            ref = pd.DataFrame(self.scaler.fit_transform(ref))
            test = pd.DataFrame(self.scaler.transform(test))
        self.pca = PCA(self.cfg["ev"])
        self.pca.fit(ref)
        k = len(self.pca.components_)
        rp = np.asarray(self.pca.transform(ref))
        tp = np.asarray(self.pca.transform(test))
        self.k = k
        self.rows = [np.asarray(test)[i:i + 1] for i in range(self.w)]
        self.proj = [tp[i] for i in range(self.w)]
        self.built = True
        if self.cfg["metric"] == "i":
            return f"b {k} " + bits(rp.T) + " " + bits(tp.T)
        self.ref_kde = [self._kde(rp[:, i]) for i in range(k)]
        return f"b {k}"

    def _slide(self, n):
        import pandas as pd
        from scipy.spatial.distance import jensenshannon
        x = self.X[n - 1:n]
        nxt = pd.DataFrame(self.scaler.transform(x)) if self.cfg["scaling"] else pd.DataFrame(x)
        pr = np.asarray(self.pca.transform(np.array(nxt).reshape(1, -1)))
        self.rows.append(np.asarray(nxt))
        self.proj.append(pr[0])
        if self.cfg["metric"] == "i":
            return "p " + bits(pr[0])
        if (n - 1) % self.step == 0 and n - 1 != 0:
            win = np.array(self.proj[-self.w:])
            self.kde_evals += 1
            js = [jensenshannon(self.ref_kde[i], self._kde(win[:, i])) for i in range(self.k)]
            return "j " + bits(js)
        return "u"

    def _op(self, n):
        if n == self.reset_at or n < self.fill_start or n < self.B:
            return "u"
        if n == self.B:
            return self._build()
        return self._slide(n)

    def extend(self):
        """append speculative operations (as if no further drift happened)"""
        start_evals = self.kde_evals
        for _ in range(CHUNK):
            n = len(self.ops) + 1
            if n > len(self.X):
                break
            self.ops.append(self._op(n))
            if self.kde_evals - start_evals >= KL_SCORES:
                break

    def drift_at(self, t):
        """the model reported a drift at update t: drop what was speculated after it and start the
        next epoch: reference window := the test window of that moment"""
        import pandas as pd
        del self.ops[t:]
        keep = t - self.fill_start + 1
        del self.rows[keep:]
        del self.proj[keep:]
        win = np.vstack(self.rows[-self.w:])
        if self.cfg["scaling"]:
            self.ref = pd.DataFrame(self.scaler.inverse_transform(pd.DataFrame(win)))
        else:
            self.ref = pd.DataFrame(win)
        self.known_drifts.append(t)
        self.ref_ids = (t - self.w + 1, self.w)
        self.reset_at = t + 1
        self.fill_start = t + 2
        self.B = t + 1 + self.w
        self.built = False
        self.rows, self.proj = [], []


def parse_out(o):
    t = o.split()
    if len(t) != 12:
        return None
    return {"drift": t[0], "since": int(t[1]), "total": int(t[2]), "numpcs": t[3], "nscores": int(t[4]),
            "score": core.b2f(t[5]), "margin": None if t[6] == "_" else core.b2f(t[6]), "need": t[7],
            "ref": (int(t[8]), int(t[9])), "test": (int(t[10]), int(t[11]))}


def new_line(cfg):
    return "new pcacd %d %s %s %s %d" % (cfg["w"], core.f2b(cfg["sp"]), core.f2b(cfg["delta"]), cfg["metric"],
                                        1 if cfg["scaling"] else 0)


def run_model(cases):
    """cases: list of (cfg, X).  Returns per case (params, [parsed outputs], plan)."""
    out = core.run_driver([l for cfg, _ in cases for l in (new_line(cfg), "cfg")])
    params = []
    for i, (cfg, _) in enumerate(cases):
        if out[2 * i] != "ok":
            raise core.Infra(f"driver rejected {new_line(cfg)}: {out[2 * i]}")
        s, thr, b = out[2 * i + 1].split()
        params.append((int(s), core.b2f(thr), int(b)))
    plans = [OraclePlan(cfg, X, params[i][0]) for i, (cfg, X) in enumerate(cases)]
    results = [None] * len(cases)
    rounds = 0
    while True:
        todo = [i for i, p in enumerate(plans) if not p.done]
        if not todo:
            break
        rounds += 1
        if rounds > 2000:
            raise core.Infra("oracle rounds do not converge")
        lines, spans = [], []
        for i in todo:
            plans[i].extend()
            lines.append(new_line(cases[i][0]))
            spans.append((i, len(lines), len(plans[i].ops)))
            lines.extend(plans[i].ops)
        out = core.run_driver(lines)
        for i, a, m in spans:
            p = plans[i]
            res, new_drift = [], None
            for n in range(1, m + 1):
                o = out[a + n - 1]
                r = parse_out(o)
                if r is None:
                    raise core.Infra(f"model rejected operation {n} of case {i} ({p.ops[n - 1][:20]}…): `{o}` — "
                                     "the harness' oracle schedule and the model's `need` disagree")
                res.append(r)
                if r["drift"] == "D" and n not in p.known_drifts:
                    new_drift = n
                    break
            if new_drift is not None:
                p.drift_at(new_drift)
            elif m == len(p.X):
                p.done = True
                results[i] = res
    return params, results, plans, rounds


# ------------------------------------------------------------------ property clauses on implementation traces
def clauses(PageHinkley, cfg, X, params, obs):
    """the property's statements evaluated on the implementation trace alone.
    Returns (list of (what, step, detail), {update: margin of the monitor's comparison on the implementation's scores})."""
    w, (step, thr, _) = cfg["w"], params
    bad = []
    margins = {}
    B = 2 * w                      # update at which the windows of the current epoch are full
    reset_at = None
    prev_n = 1
    mon = PageHinkley(delta=cfg["delta"], threshold=round(0.01 * w), burn_in=0)
    for n, o in enumerate(obs, start=1):
        if len(o) == 1:
            bad.append(("update raised " + o[0], n, None)); break
        drift, since, total, numpcs, ns, sc = o
        if total != n:
            bad.append(("total_samples is not the number of updates", n, total)); break
        sliding = n > B
        if not sliding:
            if drift != "N":
                bad.append(("drift reported while the windows are not full", n, None)); break
            if ns != prev_n:
                bad.append(("a score was computed while the windows are not full", n, None)); break
            if n == reset_at and since != 0:
                bad.append(("samples_since_reset does not restart at 0 after a drift", n, since)); break
        else:
            due = (n - 1) % step == 0
            if due != (ns == prev_n + 1) or ns not in (prev_n, prev_n + 1):
                bad.append(("score schedule: a score must be computed exactly when (total_samples-1) % step == 0", n,
                            {"due": due, "len_before": prev_n, "len_after": ns})); break
            if due:
                if cfg.get("kind") == "repeat" and cfg["metric"] == "i" and abs(sc) > 1e-9:
                    bad.append(("intersection score is not 0 although the test window repeats the reference window", n, sc)); break
                if cfg["metric"] == "i" and sc < 0:
                    bad.append(("negative intersection score (max(1 - intersection, 0.0) is never negative)", n, sc)); break
                if not (-1e-12 <= sc <= 1 + 1e-12):
                    bad.append(("change score outside [0, 1]", n, sc)); break
                mon.update(sc)
                alarm = mon.drift_state == "drift"
                row = mon.to_dataframe().iloc[-1]
                margins[n] = abs(float(np.asarray(row["page_hinkley_differences"]).ravel()[0])
                                 - float(np.asarray(row["theta_threshold"]).ravel()[0]))
                if alarm != (drift == "D"):
                    bad.append(("drift differs from the alarm of PageHinkley(delta, round(.01*window_size), burn_in=0) fed with the scores",
                                n, {"drift_state": drift, "monitor_alarm": alarm})); break
            elif drift != "N":
                bad.append(("drift reported on an update without a score", n, None)); break
            if drift == "D" and cfg.get("kind") == "repeat" and cfg["metric"] == "i":
                # exact arithmetic: all scores 0, the monitor's sum only decreases, never an alarm
                bad.append(("drift reported although the test window only ever repeats the reference window", n,
                            {"score": sc, "ph_threshold": thr}))
                break
            if drift == "D":
                reset_at, B = n + 1, n + 1 + w
                mon = PageHinkley(delta=cfg["delta"], threshold=round(0.01 * w), burn_in=0)
        if n != reset_at and since != (obs[n - 2][1] + 1 if n > 1 else 1):
            bad.append(("samples_since_reset does not count the updates of the epoch", n, since)); break
        prev_n = ns
    return bad, margins


# ------------------------------------------------------------------ cases
SCALES = [[3.0, 1.0, 0.3, 0.1], [2.0, 1.5, 1.0, 0.5], [4.0, 0.5, 0.4, 0.05], [1.0, 1.0, 1.0, 1.0]]
DELTAS = [0.1, 0.05, 0.01, 0.005, 0.25, 0.0]      # 0 is a legal magnitude of acceptable change
PERIODS = {20: [0.05, 0.125, 0.03, 0.25, 0.1], 50: [0.05, 0.03, 0.1, 0.02, 0.25], 100: [0.05, 0.125, 0.075, 0.01, 1.5, 0.025]}


def gen_case(rng, idx, w, metric, kind):
    d = int(rng.integers(2, 5))
    n = {20: 16, 50: 10, 100: 8}[w] * w + int(rng.integers(0, w))
    shifts = []
    if kind == "shift":
        at = 2 * w + int(rng.integers(w // 4, w))
        while at < n - w // 2:
            what = ["level", "var", "corr"][int(rng.integers(0, 3))]
            j = int(rng.integers(0, d))
            amount = {"level": float(rng.choice([-4.0, 3.0, 6.0])), "var": float(rng.choice([3.0, 0.25, 4.0])),
                      "corr": float(rng.choice([-1.0, 1.0]))}[what]
            shifts.append((at, what, j, amount))
            at += int(rng.integers(3 * w // 2, 3 * w))
        if metric == "i" and rng.random() < .4:      # (histogram metric only: a KDE of a constant projection has bandwidth 0, sklearn refuses it)
            # a feature that is exactly constant over the whole first reference window and comes alive while the test window
            # fills (or later): StandardScaler's zero-variance rule (scale 1) decides what the next reference window holds
            shifts.insert(0, (0, "freeze", int(rng.integers(0, d)), float(w + int(rng.integers(1, 2 * w)))))
            if rng.random() < .5 and shifts[-1][0] + 2 * w < n:
                shifts.append((shifts[-1][0] + w // 2, "freeze", int(rng.integers(0, d)), float(w + int(rng.integers(1, w)))))
    spec = {"kind": kind, "seed": int(rng.integers(1, 2 ** 31)), "d": d, "n": n, "w": w,
            "scales": SCALES[int(rng.integers(0, len(SCALES)))], "shifts": shifts}
    cfg = {"w": w, "ev": float(rng.choice([0.5, 0.9, 0.99])), "delta": float(rng.choice(DELTAS)),
           "metric": metric, "sp": float(rng.choice(PERIODS[w])), "scaling": bool(rng.integers(0, 2)), "kind": kind}
    if kind == "repeat":
        cfg["delta"] = float(rng.choice([0.1, 0.05, 0.01]))
    return cfg, spec


def case_list(ctx):
    rng = np.random.default_rng(ctx.seed)
    reps = 1 if ctx.quick else 20
    cases = []
    idx = 0
    for _ in range(reps):
        for w in (20, 50, 100):
            for metric in ("i", "k"):
                for kind in ("shift", "shift", "repeat") if metric == "i" else ("shift", "shift"):
                    cases.append(gen_case(rng, idx, w, metric, kind)); idx += 1
    # both values of online_scaling on the same stream / configuration (twins)
    twins = []
    for cfg, spec in cases[: (6 if ctx.quick else 40)]:
        c2 = dict(cfg); c2["scaling"] = not cfg["scaling"]
        twins.append((c2, spec))
    return cases + twins


def corpus_cases():
    """corpus/C11/*.json: cases kept from earlier runs (witnesses of known findings, regression seeds); run first"""
    import glob, os
    out = []
    for path in sorted(glob.glob(os.path.join(core.ROOT, "corpus", "C11", "*.json"))):
        r = json.load(open(path))
        cfg = dict(r["config"]); cfg["kind"] = r["stream_spec"]["kind"]
        out.append((cfg, r["stream_spec"]))
    return out


def param_sweep(ctx, PCACD):
    """step / ph_threshold / bins for many (window_size, sample_period): Python round() vs the model's pyRound"""
    periods = [0.05, 0.125, 0.03, 0.25, 0.1, 0.02, 0.01, 0.075, 1.5, 0.5, 0.375, 0.0625, 0.015, 0.3]
    ws = list(range(1, 130)) + [150, 250, 350, 450, 1000, 2500, 10000]
    lines, exp = [], []
    for w in ws:
        for sp in periods:
            try:
                det = PCACD(window_size=w, sample_period=sp, divergence_metric="intersection")
                e = (int(det.step), float(det.ph_threshold), int(det.bins))
            except Exception as ex:
                e = ("EXC:" + type(ex).__name__,)
            lines += [new_line({"w": w, "sp": sp, "delta": 0.1, "metric": "i", "scaling": True}), "cfg"]
            exp.append((w, sp, e))
    out = core.run_driver(lines)
    for i, (w, sp, e) in enumerate(exp):
        ctx.count("param-configs")
        if out[2 * i] == "bad-new":
            # the model refuses step <= 0
            if len(e) == 3 and e[0] >= 1:
                ctx.fail(signature={"component": "PCACD", "kind": "parameters"}, window_size=w, sample_period=sp,
                         impl=list(e), model="rejected (step <= 0)", what="derived parameters differ")
            else:
                ctx.count("param-step<=0")
            continue
        s, thr, b = out[2 * i + 1].split()
        m = (int(s), core.b2f(thr), int(b))
        ctx.case(("param", w, sp), True)
        if e != m:
            ctx.fail(signature={"component": "PCACD", "kind": "parameters"}, window_size=w, sample_period=sp,
                     impl=list(e), model=list(m),
                     what="step / ph_threshold / bins differ from min(100, round(sample_period*w)) / round(.01*w) / floor(sqrt(w))")


# ------------------------------------------------------------------ comparison
def compare(ctx, cfg, spec, X, iparams, obs, mparams, res, plan, imargins):
    payload = dict(config={k: cfg[k] for k in ("w", "ev", "delta", "metric", "sp", "scaling")}, stream_spec=spec)
    sig = {"component": "PCACD", "kind": "trace"}
    if len(iparams) == 1 or tuple(iparams) != tuple(mparams):
        ctx.fail(signature={"component": "PCACD", "kind": "parameters"}, impl=list(iparams), model=list(mparams),
                 what="step / ph_threshold / bins differ", **payload)
        return
    ndrift = 0
    for n, (o, r) in enumerate(zip(obs, res), start=1):
        if len(o) == 1:
            ctx.fail(signature=sig, step=n, impl=o[0], model=r, what="update raised on an accepted sample",
                     stream_prefix=X[:n].tolist(), **payload)
            return
        drift, since, total, numpcs, ns, sc = o
        if drift != r["drift"] and r["margin"] is not None and (
                0.0 < r["margin"] < 1e-9 or 0.0 < imargins.get(n, 0.0) < 1e-9):
            # thin margin of the Page-Hinkley comparison `diff > theta`, on the model's statistics or on those a
            # PageHinkley instance derives from the implementation's own scores.  An exact tie on BOTH sides is NOT
            # thin: with ph_threshold = 0 (window_size <= 50) theta = 0 and diff = sum - min = 0 hold exactly whenever
            # the running sum sets a new minimum, which is what makes `>` versus `>=` observable.
            ctx.thin += 1
            ctx.count("thin:" + ("repeat" if cfg.get("kind") == "repeat" else "other"))
            return
        exact_i = (drift, since, total, numpcs, ns)
        exact_m = (r["drift"], r["since"], r["total"], r["numpcs"], r["nscores"])
        if exact_i != exact_m or not core.close(sc, r["score"]):
            ctx.fail(signature=sig, step=n, impl=list(o), model=[*exact_m, r["score"]],
                     observables="drift_state samples_since_reset total_samples num_pcs len(_change_score) _change_score[-1]",
                     what="implementation and model differ (first differing update)",
                     stream_prefix=X[:n].tolist(), **payload)
            return
        if sc != r["score"]:
            ctx.count("score-last-bits-differ-metric-" + cfg["metric"])
        if drift == "D":
            ndrift += 1
    # the model's windows hold the sample positions the harness took the oracle data from
    return ndrift


def run_cases(ctx, cases, PCACD, PageHinkley):
    streams = [make_stream(spec) for _, spec in cases]
    t0 = time.time()
    impl = [run_impl(PCACD, cfg, X) for (cfg, _), X in zip(cases, streams)]
    ctx.extra["impl_s"] = round(ctx.extra.get("impl_s", 0) + time.time() - t0, 2)
    t0 = time.time()
    mparams, results, plans, rounds = run_model([(cfg, X) for (cfg, _), X in zip(cases, streams)])
    ctx.extra["model_s"] = round(ctx.extra.get("model_s", 0) + time.time() - t0, 2)
    ctx.extra["driver_rounds"] = ctx.extra.get("driver_rounds", 0) + rounds
    for (cfg, spec), X, (ip, obs), mp, res, plan in zip(cases, streams, impl, mparams, results, plans):
        ctx.traces += 1
        bad, imargins = ([], {})
        if len(ip) == 3:
            try:
                bad, imargins = clauses(PageHinkley, cfg, X, ip, obs)
            except Exception as ex:   # a mutated PageHinkley may raise
                bad = [("the embedded monitor's class raised " + type(ex).__name__, None, None)]
        nd = compare(ctx, cfg, spec, X, ip, obs, mp, res, plan, imargins)
        # epoch bookkeeping of the model = where the harness took the oracle data from
        for t in plan.known_drifts:
            if t < len(res):
                r = res[t]   # output of update t+1 (the discarded one)
                if r["ref"] != (t - cfg["w"] + 1, cfg["w"]) or r["test"][1] != 0 or r["since"] != 0:
                    ctx.mismatch(component="PCACD", case=repr(cfg), step=t + 1, impl="harness epoch bookkeeping",
                                 model=r, what="reference window after a drift is not the former test window")
        drifts = len(plan.known_drifts)
        if len(ip) == 3:
            for what, n, detail in bad:
                sig = {"component": "PCACD", "kind": "clause", "what": what}
                ctx.fail(signature=sig, what=what, step=n, detail=detail,
                         config={k: cfg[k] for k in ("w", "ev", "delta", "metric", "sp", "scaling")}, stream_spec=spec,
                         stream_prefix=X[:n].tolist() if n else None)
        key = (json.dumps(cfg, sort_keys=True), spec["seed"])
        nscores = res[-1]["nscores"] - 1 if res else 0
        ctx.case(key, nscores >= 3)
        ctx.count(f"w={cfg['w']}"); ctx.count(f"metric={cfg['metric']}"); ctx.count(f"scaling={cfg['scaling']}")
        ctx.count(f"ev={cfg['ev']}"); ctx.count(f"kind={spec['kind']}"); ctx.count(f"d={spec['d']}")
        ctx.count("drifts=%s" % (drifts if drifts < 4 else "4+"))
        ctx.count("updates", len(X)); ctx.count("scores", nscores)
        pcs = sorted({r["numpcs"] for r in res if r["numpcs"] != "_"})
        for k in pcs:
            ctx.count(f"num_pcs={k}")
        if len(pcs) > 1:
            ctx.count("num_pcs-changes-after-drift")
        for s in spec["shifts"]:
            ctx.count("shift-" + s[1])
        ctx.sample({"config": cfg, "stream_spec": spec, "drifts_at": plan.known_drifts, "scores": nscores,
                    "num_pcs": pcs}, limit=4)
    return impl, results, plans


def twin_clause(ctx, cases, impl):
    """online_scaling on / off on the same stream: identical control flow up to the first drift of either run
    (same updates silent, same updates scored)"""
    by = {}
    for (cfg, spec), (ip, obs) in zip(cases, impl):
        key = (spec["seed"], cfg["w"], cfg["ev"], cfg["delta"], cfg["metric"], cfg["sp"])
        by.setdefault(key, []).append((cfg, spec, obs))
    for key, runs in by.items():
        if len(runs) != 2:
            continue
        (c1, spec, o1), (c2, _, o2) = runs
        ctx.count("scaling-twins")
        for n, (a, b) in enumerate(zip(o1, o2), start=1):
            if len(a) == 1 or len(b) == 1:
                break
            if (a[1], a[2], a[4], a[3] == "_") != (b[1], b[2], b[4], b[3] == "_"):
                ctx.fail(signature={"component": "PCACD", "kind": "scaling-twin"}, step=n, on=list(a if c1["scaling"] else b),
                         off=list(b if c1["scaling"] else a), config={k: c1[k] for k in ("w", "ev", "delta", "metric", "sp")},
                         stream_spec=spec,
                         what="counters / schedule differ between online_scaling=True and False before any drift")
                break
            if a[0] == "D" or b[0] == "D":
                break


def scaler_part(ctx):
    """Model/Scaler.lean (what PCACD's online scaling does to a window: fit, transform, inverse_transform incl. the zero-variance
    rule) against sklearn's StandardScaler on dyadic windows (sums exact), some columns exactly constant, some riding on 2^20;
    and the round trip inverse_transform(transform(x)) = x that `Props/C11Scaler.lean` proves over the reals."""
    import pandas as pd
    from sklearn.preprocessing import StandardScaler
    rng = np.random.default_rng([ctx.seed, 1111])
    cases = []
    for k in range(60 if ctx.quick else 600):
        r, c = int(rng.integers(2, 61)), int(rng.integers(1, 5))
        W = np.round(rng.normal(size=(r, c)) * float(rng.choice([1.0, 8.0, 0.25])) * 64) / 64
        for j in range(c):
            u = rng.random()
            if u < .25:
                W[:, j] = float(rng.integers(-3, 4)) / 4.0            # exactly constant column: scale 1
            elif u < .35:
                W[:, j] += 2.0 ** 20
        rows = np.round(rng.normal(size=(3, c)) * 64) / 64 + W[0]
        cases.append((W, rows))
    lines = []
    for W, rows in cases:
        lines += ["new scaler", "fit %d %d %s" % (W.shape[0], W.shape[1], bits(W))]
        lines += ["tr " + bits(x) for x in rows]
    out = core.run_driver(lines)
    pos, second = 0, []
    for W, rows in cases:
        sc = StandardScaler()
        try:
            Z = sc.fit_transform(pd.DataFrame(W))
            tr = [np.asarray(sc.transform(pd.DataFrame(x.reshape(1, -1)))).ravel() for x in rows]
            back = [np.asarray(sc.inverse_transform(pd.DataFrame(t.reshape(1, -1)))).ravel() for t in tr]
        except Exception as ex:
            ctx.fail(signature={"component": "StandardScaler", "kind": "raised"}, what="sklearn StandardScaler raised " + type(ex).__name__, window=W.tolist())
            pos += 2 + len(rows); continue
        parts = out[pos + 1].split(" | ")
        pos += 2
        ctx.case(("scaler", W.tobytes()), True)
        ctx.count("scaler-windows"); ctx.count("scaler-constant-columns", int((W.std(axis=0) == 0).sum()))
        if len(parts) != 3:
            ctx.mismatch(component="Scaler", case=W.tolist(), step=0, impl="fit", model=out[pos - 1], what="model rejected the window"); pos += len(rows); continue
        m_mean, m_var, m_scale = ([core.b2f(t) for t in p.split()] for p in parts)
        spread = max(1.0, float(np.abs(W).max()))
        ok = (all(abs(a - b) <= 1e-9 * spread for a, b in zip(m_mean, sc.mean_))
              and all(abs(a - b) <= 1e-9 * max(1.0, abs(b)) + 1e-12 * spread * spread for a, b in zip(m_var, sc.var_))
              and all((a == 1.0) == (b == 1.0) and abs(a - b) <= 1e-9 * max(1.0, abs(b)) for a, b in zip(m_scale, sc.scale_)))
        if not ok:
            ctx.mismatch(component="Scaler", case=W.tolist(), step=0, impl=[sc.mean_.tolist(), sc.var_.tolist(), sc.scale_.tolist()],
                         model=[m_mean, m_var, m_scale], what="mean_ / var_ / scale_ (zero-variance rule) differ from Model/Scaler.lean")
        for x, t, b in zip(rows, tr, back):
            mt = [core.b2f(v) for v in out[pos].split()]
            pos += 1
            if len(mt) != len(t) or not all(abs(a - bb) <= 1e-9 * max(1.0, abs(bb)) + 1e-6 * (spread > 1e5) for a, bb in zip(mt, t)):
                ctx.mismatch(component="Scaler", case=W.tolist(), step=1, impl=t.tolist(), model=mt, what="transform(row) differs from Model/Scaler.lean")
            # the theorem's statement on the real scaler: the un-standardised row is the raw row
            if not all(abs(a - bb) <= 1e-9 * spread for a, bb in zip(b, x)):
                ctx.fail(signature={"component": "StandardScaler", "kind": "round-trip"}, window=W.tolist(), row=x.tolist(), back=b.tolist(),
                         what="inverse_transform(transform(row)) is not the row (Props/C11Scaler.lean inverse_transform_row)")


def run(ctx):
    scaler_part(ctx)
    # detector objects are independent of one another (a consequence of "the outputs are a function of the detector's own
    # parameters and history"): solo trace = trace when a second object of the class is updated alternately (impl/zoo.py)
    from impl import zoo as _zoo
    for _f in _zoo.isolation_failures(ctx, ['PCACD']):
        ctx.fail(signature={"clause": "detector-objects-independent"}, **_f)
    from menelaus.data_drift import PCACD
    from menelaus.change_detection import PageHinkley
    ctx.rule = ("a case = (configuration, stream); configurations from window_size {20,50,100} x ev_threshold {.5,.9,.99} x delta menu x "
                "metric {intersection, kl} x sample_period menu x online_scaling; streams of 2-4 correlated features with level / "
                "variance / correlation shifts every 1.5-3 windows, or a reference block repeated (test window = reference window); "
                "non-trivial = at least 3 change scores were computed; plus the exhaustive parameter sweep (window_size x sample_period)")
    param_sweep(ctx, PCACD)
    cases = corpus_cases() + case_list(ctx)
    impl, results, plans = run_cases(ctx, cases, PCACD, PageHinkley)
    twin_clause(ctx, cases, impl)
    if ctx.stats.get("drifts=0", 0) == len(cases):
        raise core.Infra("degenerate input distribution: no case with a drift")
    multi = sum(v for k, v in ctx.stats.items() if k.startswith("drifts=") and k not in ("drifts=0", "drifts=1"))
    if multi == 0:
        raise core.Infra("degenerate input distribution: no case with a second drift")


def search(ctx, mismatches):
    return []


def replay(ctx, path):
    from menelaus.data_drift import PCACD
    from menelaus.change_detection import PageHinkley
    r = json.load(open(path))
    if "stream_spec" not in r:
        print(json.dumps(r, indent=1)); return 0
    cfg = dict(r["config"]); cfg["kind"] = r["stream_spec"]["kind"]
    core.lake_build()
    run_cases(ctx, [(cfg, r["stream_spec"])], PCACD, PageHinkley)
    for f in ctx.failing:
        print("FAILS:", f.get("what"), "at update", f.get("step"), "impl", f.get("impl"), "model", f.get("model"))
    print("replay: %d failing input(s)" % len(ctx.failing))
    return 1 if ctx.failing else 0
