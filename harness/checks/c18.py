"""
C18 — batch detectors ignore the order of rows inside a batch.

Executed on the real classes: every batch of a sequence (reference included) is permuted
(random permutations, reversal, rotation) and the permuted run is compared with the original
run under the same per-call numpy seed schedule: HDDDM/CDBD distances (detect_batch 2 and 3)
and complete decision traces (detect_batch 3), KdqTreeBatch per-node counts / divergence and
decisions, NNSpacePartitioner distance and NNDVI decisions.  Props/C18.lean proves the
permutation invariance of the Lean models' summaries (histogram counts, min/max, kd-tree
build and fill counts, pooled set and membership vectors).
"""
import numpy as np
import core
from impl import zoo

TRUST = ["HDDDM/CDBD with detect_batch=2 use a positional bootstrap (DataFrame.sample) for the first threshold, so only distances are compared "
         "there, and only while the decision traces agree (as the property states)"]


def perms(rng, m):
    yield "reverse", np.arange(m)[::-1]
    yield "rotate", np.roll(np.arange(m), int(rng.integers(1, max(2, m))))
    for i in range(3):
        yield f"random{i}", rng.permutation(m)


def kdq_counts(det):
    """multiset of (depth, reference count, count difference) over the nodes of the public tree"""
    try:
        df = det.to_plotly_dataframe()
    except Exception as e:
        return "EXC:" + type(e).__name__
    cols = [c for c in ("depth", "cell_count", "count_diff") if c in df.columns]
    rows = sorted(tuple(float(x) for x in r) for r in df[cols].to_numpy())
    kss = sorted(round(float(x), 9) for x in df["kss"]) if "kss" in df.columns else []
    return rows, kss


def _labelled(b, style):
    """the batch as the caller's pipeline delivers it: ndarray, or a DataFrame whose row labels repeat / are not 0..n-1
    (concatenated frames, filtered frames): a batch is its rows, whatever their labels"""
    import pandas as pd
    if not style:
        return b.copy()
    n = len(b)
    idx = [i // 2 for i in range(n)] if style == 1 else [i % 3 for i in range(n)] if style == 2 else list(range(100, 100 + n))
    return pd.DataFrame(b.copy(), index=idx)


def run_hdm(fam, cfg, batches, seeds, extra=None):
    det = fam.make(cfg)
    style = (extra or {}).get("frame_style", 0)
    np.random.seed(seeds[0]); det.set_reference(_labelled(batches[0], style))
    states, dists = [], []
    for b, s in zip(batches[1:], seeds[1:]):
        np.random.seed(s); det.update(_labelled(b, style))
        states.append(det.drift_state); dists.append(float(det.current_distance))
    return states, dists


def run_kdq(fam, cfg, batches, seeds, extra=None):
    det = fam.make(cfg)
    np.random.seed(seeds[0]); det.set_reference(batches[0].copy())
    states, counts = [], []
    reref = (extra or {}).get("reref")        # (position, the reference again -- in this run's row order --, seed)
    for j, (b, s) in enumerate(zip(batches[1:], seeds[1:])):
        if reref is not None and j == reref[0]:
            np.random.seed(reref[2]); det.set_reference(reref[1].copy())     # the user installs the same reference once more
        np.random.seed(s); det.update(b.copy())
        crit = getattr(det, "_critical_dist", None)     # (private; read as an observable only, skipped when absent)
        states.append(det.drift_state); counts.append((kdq_counts(det), None if crit is None else round(float(crit), 12)))
    return states, counts


def run_nndvi(fam, cfg, batches, seeds, extra=None):
    from menelaus.partitioners import NNSpacePartitioner
    det = fam.make(cfg)
    np.random.seed(seeds[0]); det.set_reference(batches[0].copy())
    states, dists = [], []
    once = (extra or {}).get("seed_once")      # the caller seeds numpy once per run, not before every call
    for b, s in zip(batches[1:], seeds[1:]):
        ref = np.array(det.reference_batch)
        st = np.random.get_state()
        p = NNSpacePartitioner(cfg["k_nn"]); p.build(ref, b)
        dists.append(float(NNSpacePartitioner.compute_nnps_distance(p.nnps_matrix, p.v1, p.v2)))
        np.random.set_state(st)                # the harness' own recomputation must not move the stream the detector draws from
        if not once:
            np.random.seed(s)
        det.update(b.copy())
        states.append(det.drift_state)
    return states, dists


def run(ctx):
    per = 6 if ctx.quick else 50
    ctx.rule = ("for HDDDM, CDBD (detect_batch 2,3), KdqTreeBatch, NNDVI: batch sequences (equal and unequal sizes, duplicated rows on integer grids) x "
                "5 row permutations of every batch (reversal, rotation, 3 random); original vs permuted run under the same seed schedule; non-trivial = "
                "the original run reports >= 1 drift; distinct = (detector, config, sequence, permutation)")
    for name in ("HDDDM", "CDBD", "KdqTreeBatch", "NNDVI"):
        fam = zoo.BY_NAME[name]
        for k in range(per):
            crng = np.random.default_rng([ctx.seed, 18, core.shash(name), k])
            cfg = fam.config(crng)
            if name in ("HDDDM", "CDBD"):
                cfg["detect_batch"] = int(crng.choice([2, 3]))
            hist = fam.history(crng, cfg, int(crng.choice([6, 10, 14])))
            batches = [h[0] for h in hist]; seeds = [h[1] for h in hist]
            if name != "NNDVI" and k % 6 == 5:
                # a long drift-free history of LARGE batches (size-dependent shortcuts, caps on the accumulated
                # reference, sampling of big inputs): 6 batches of 2500-4000 rows from one distribution
                d = batches[0].shape[1]
                batches = [np.round(crng.normal(0, 1, (int(crng.integers(2500, 4001)), d)) * 64) / 64 for _ in range(6)]
                seeds = [int(crng.integers(0, 2**31)) for _ in batches]
                ctx.count(f"{name}:large-batch-cases")
            if name != "NNDVI" and k % 6 == 2:
                # a small reference followed by HUGE test batches (tens of thousands of rows: chunked / blocked processing,
                # internal row limits); the rows of a batch differ, so which rows come last matters to any positional shortcut
                d = batches[0].shape[1]
                sizes = [300, 40000, 70000, 300] if k == 2 else [300, int(crng.integers(33000, 50000)), 300]
                batches = [np.round(crng.normal(0.1 * i, 1, (m, d)) * 64) / 64 for i, m in enumerate(sizes)]
                batches = [b[np.argsort(b[:, 0], kind="stable")] for b in batches]     # ordered rows: the tail is not a fair sample
                seeds = [int(crng.integers(0, 2**31)) for _ in batches]
                ctx.count(f"{name}:huge-batch-cases")
            if name == "KdqTreeBatch" and k % 6 == 4:
                # a HUGE reference (tens of thousands of rows, ordered) followed by ordinary test batches: sub-sampled or blocked
                # construction of the reference summary (tree / histograms) must not depend on where a row stands
                d = batches[0].shape[1]
                sizes = [int(crng.integers(22000, 32000)), 600, 600]
                batches = [np.round(crng.normal(0.15 * i, 1, (m, d)) * 64) / 64 for i, m in enumerate(sizes)]
                batches = [b[np.argsort(b[:, 0], kind="stable")] for b in batches]
                seeds = [int(crng.integers(0, 2**31)) for _ in batches]
                cfg = dict(cfg, count_ubound=100)        # a few hundred leaves: the public tree frame stays cheap to read
                ctx.count(f"{name}:huge-reference-cases")
            runner = {"HDDDM": run_hdm, "CDBD": run_hdm, "KdqTreeBatch": run_kdq, "NNDVI": run_nndvi}[name]
            extra0 = {}
            if name == "NNDVI" and k % 2 == 1:
                # a log replayed from its start: the first test batch IS the reference (in the permuted run: the same rows in another
                # order), numpy seeded once for the whole run -- how many random numbers an update consumes must not depend on row order
                batches = [batches[0], batches[0].copy()] + list(batches[1:])
                seeds = [seeds[0], seeds[0] + 1] + list(seeds[1:])
                extra0["seed_once"] = True
                ctx.count(f"{name}:replayed-reference-seeded-once")
            if name in ("HDDDM", "CDBD") and k % 3 == 1:
                extra0["frame_style"] = 1 + (k // 3) % 3
                ctx.count(f"{name}:frames-with-repeated-or-shifted-row-labels")
            reref_pos = reref_seed = None
            if name == "KdqTreeBatch" and k % 2 == 1 and len(batches) > 3:
                # the same reference installed a second time in mid-history (in the permuted run: the same rows in yet another
                # order): whatever an implementation remembers about "the array I built the tree from" must not matter
                # (position 0: right after the first installation, before any drift can have replaced the reference)
                reref_pos, reref_seed = (0 if k % 4 == 1 else int(crng.integers(1, len(batches) - 1))), int(crng.integers(0, 2**31))
                extra0["reref"] = (reref_pos, batches[0], reref_seed)
                ctx.count(f"{name}:reference-installed-twice")
            try:
                st0, ob0 = runner(fam, cfg, batches, seeds, extra0)
            except Exception as e:
                ctx.count(f"{name}:original-run-raised"); continue
            ctx.traces += 1
            for pname, _ in perms(crng, 3):
                prng = np.random.default_rng([ctx.seed, 18, k, core.shash(pname)])
                pb = []
                for b in batches:
                    m = len(b)
                    if pname == "reverse":
                        idx = np.arange(m)[::-1]
                    elif pname == "rotate":
                        idx = np.roll(np.arange(m), int(prng.integers(1, max(2, m))))
                    else:
                        idx = prng.permutation(m)
                    pb.append(b[idx])
                extra1 = dict(extra0)
                if reref_pos is not None:
                    extra1["reref"] = (reref_pos, batches[0][prng.permutation(len(batches[0]))], reref_seed)
                try:
                    st1, ob1 = runner(fam, cfg, pb, seeds, extra1)
                except Exception as e:
                    ctx.fail(detector=name, config=cfg, permutation=pname, what=f"permuted run raised {type(e).__name__}: {e}",
                             batches=_dump(batches[:4]))
                    continue
                ctx.traces += 1
                ctx.case((name, repr(cfg), k, pname), "drift" in st0)
                ctx.count(f"{name}:pairs"); ctx.count(f"{name}:with-drift", int("drift" in st0))
                decisions_apply = not (name in ("HDDDM", "CDBD") and cfg["detect_batch"] != 3)
                for i in range(len(st0)):
                    same_obs = (core.close(ob0[i], ob1[i]) if isinstance(ob0[i], float) else ob0[i] == ob1[i])
                    if not same_obs:
                        ctx.fail(detector=name, config=cfg, permutation=pname, step=i,
                                 what=f"divergence measured on batch {i} changed under a row permutation: {ob0[i]} vs {ob1[i]}"[:600],
                                 batches=_dump(batches[: i + 2]), seeds=seeds[: i + 2])
                        break
                    if st0[i] != st1[i]:
                        if decisions_apply:
                            ctx.fail(detector=name, config=cfg, permutation=pname, step=i,
                                     what=f"drift decision on batch {i} changed under a row permutation: {st0[i]!r} vs {st1[i]!r}",
                                     batches=_dump(batches[: i + 2]), seeds=seeds[: i + 2])
                        break   # (detect_batch=2: positional bootstrap; later references differ legitimately)
            if k == 0:
                ctx.sample({"detector": name, "config": cfg, "batch_sizes": [len(b) for b in batches], "states": [core.dstr(s) for s in st0]})
    weak = [n for n in ("HDDDM", "CDBD", "KdqTreeBatch", "NNDVI") if ctx.stats.get(f"{n}:with-drift", 0) == 0]
    ctx.extra["families_without_drift"] = weak
    if len(weak) > 1:
        raise core.Infra(f"degenerate input distribution: no drifting sequence for {weak}")


def _dump(batches):
    """batches for a replay file; huge ones are summarised (they are regenerated from the seed by --replay)"""
    if any(len(b) > 5000 for b in batches):
        return {"sizes": [len(b) for b in batches], "note": "huge-batch case: regenerated from (seed, detector, case index) by the replay"}
    return [b.tolist() for b in batches]


def replay(ctx, path):
    return core.generic_replay(ctx, path, run)
