"""
C04 — CUSUM and Page-Hinkley apply their sequential tests to the current observations.

Three parties per case:
  I  the real classes (menelaus.change_detection.CUSUM / PageHinkley), driven through public API,
  M  the Lean model (Model/Cusum.lean, Model/PageHinkley.lean) executed at Float by mdriver,
  S  an independent declarative recomputation in Python on the implementation's trace:
     CUSUM  — exact rational arithmetic: s_h = C_n - min_{k<=n} C_k over the cumulative sums of the
              standardised current-epoch observations minus delta (= max suffix sum, Props/C04
              `cusum_inv`), target / sd from the first burn_in observations or from the last burn_in
              observations before the epoch;
     PH     — vectorised numpy: running means = cumsum/n, m_n = sum (x_j - mean_j - delta), extrema
              over m_1..m_n and 0, test `diff > threshold * mean`, alarm only past the burn-in.
I vs M differences are correspondence mismatches; I vs S differences are failing inputs (ctx.fail).
A fresh-twin run (a new detector fed only the current epoch) is compared bit for bit as well.
"""
import json, math, os, warnings
from fractions import Fraction
import numpy as np
import core

TRUST = [
    "numpy np.mean / np.std (pairwise summation) are compared on dyadic-grid data (multiples of 1/8, |x| <= 8) where sums are exact; "
    "np.std is modelled as sqrt(mean((x-mean)^2)) with IEEE sqrt",
    "excluded configurations (modelled as raising, exercised only in fixed corpus cases): CUSUM(burn_in=0) without target, "
    "CUSUM(target given, sd_hat=None); PageHinkley(direction not in {'positive','negative'}) is outside the model",
    "streams contain no NaN/inf; generators keep burn-in windows non-constant (the sd_hat == 0 ValueError branch is covered "
    "by burn_in=1 cases and fixed corpus cases)",
    "decisions whose margin is below 1e-9 and whose operands are not exactly equal on both sides are truncated (thin margin), not reported",
]

DIRS_C = [None, "positive", "negative"]
DSYM = {None: "B", "positive": "P", "negative": "N"}
COLS = ["change_scores", "page_hinkley_values", "page_hinkley_differences", "theta_threshold",
        "drift_detected", "maximum_sum_values", "minimum_sum_values", "mean_values"]
# order of the model's row: x sum diff theta check mx mn mean  (= COLS order)


# ------------------------------------------------------------------ generators
def gen_stream(rng, b, nseg, lo=2, hi=12):
    xs = []
    level = int(rng.integers(-16, 17))
    for _ in range(nseg):
        L = int(rng.integers(b + lo, 3 * b + hi))
        amp = int(rng.choice([1, 2, 4, 8]))
        noise = rng.integers(-amp, amp + 1, size=L)
        xs += [(level + int(k)) / 8.0 for k in noise]
        shift = int(rng.choice([-1, 1])) * int(rng.choice([2, 4, 8, 16, 32]))
        level = max(-32, min(32, level + shift))
        if abs(level) == 32:
            level = int(rng.integers(-8, 9))
    for i in range(1, len(xs)):           # no two equal neighbours: burn-in windows are never constant
        if xs[i] == xs[i - 1]:
            xs[i] += 0.125 if xs[i] < 4 else -0.125
    return xs


def wrap(form, x):
    import pandas as pd
    if form == 0:
        return float(x)
    if form == 1:
        return np.float64(x)
    if form == 2:
        return [x]
    if form == 3:
        return np.array([x])
    if form == 4:
        return np.array([[x]])
    if form == 6:       # integral values in a small integer dtype (a row of an int16 / int32 column)
        return np.array([x]).astype(np.int16 if abs(x) < 30000 else np.int32)
    if form == 7:
        return np.int32(x)
    return pd.DataFrame({"a": [x]})


def cusum_cfgs(rng, n):
    out = []
    for i in range(n):
        b = [1, 2, 5, 30][i % 4]
        known = (i // 4) % 2 == 0
        delta = float(rng.choice([0.0, 0.125, 0.25, 0.5, 0.005]))
        thr = float(rng.choice([0.0, 0.5, 1.0, 2.0, 5.0]))
        direction = DIRS_C[(i // 8) % 3]
        if known:
            target, sd = float(rng.choice([-1.0, 0.0, 0.5, 2.0])), float(rng.choice([0.5, 1.0, 2.0, 1.5]))
        else:
            target, sd = None, (None if rng.random() < 0.7 else 1.0)   # sd_hat without target is ignored by the code
        out.append(dict(det="cusum", target=target, sd=sd, burn_in=b, delta=delta, threshold=thr,
                        direction=direction, form=int(rng.integers(0, 6)) if i % 5 == 0 else 0))
    return out


def ph_cfgs(rng, n):
    out = []
    for i in range(n):
        b = [1, 2, 5, 30][i % 4]
        out.append(dict(det="ph", burn_in=b, delta=float(rng.choice([0.0, 0.125, 0.25, 0.5, 0.01])),
                        threshold=float(rng.choice([0.0, 0.5, 1.0, 2.0, 20.0])),
                        direction=["positive", "negative"][(i // 4) % 2],
                        form=int(rng.integers(0, 6)) if i % 5 == 0 else 0, dense=(i % 3 == 0)))
    return out


# ------------------------------------------------------------------ implementation traces
def fnum(v):
    return float(np.asarray(v, dtype=float).ravel()[0])


def exc_tag(ex):
    return "V" if isinstance(ex, ValueError) else "O"


def impl_cusum(CUSUM, cfg, xs):
    """per step: (outcome, drift, total, since, target, sd)"""
    try:
        d = CUSUM(target=cfg["target"], sd_hat=cfg["sd"], burn_in=cfg["burn_in"], delta=cfg["delta"],
                  threshold=cfg["threshold"], direction=cfg["direction"])
    except Exception as ex:
        return [("EXC-init:" + type(ex).__name__, "?", -1, -1, None, None)] * len(xs)
    tr = []
    for x in xs:
        try:
            d.update(wrap(cfg.get("form", 0), x))
            out = "ok"
        except Exception as ex:
            out = exc_tag(ex)
        try:
            ds = d.drift_state
            st = core.dstr(ds) if ds in (None, "warning", "drift") else "X"
            t = None if d.target is None else fnum(d.target)
            s = None if d.sd_hat is None else fnum(d.sd_hat)
            tr.append((out, st, int(d.total_samples), int(d.samples_since_reset), t, s))
        except Exception as ex:
            tr.append(("EXC-read:" + type(ex).__name__, "?", -1, -1, None, None))
    return tr


def frame_rows(det):
    df = det.to_dataframe()
    if list(df.columns) != COLS:
        raise ValueError("columns " + repr(list(df.columns)))
    cols = [[fnum(v) for v in df[c]] for c in COLS]
    return [tuple(c[i] for c in cols) for i in range(len(df))]


def impl_ph(PageHinkley, cfg, xs):
    """per step: (outcome, drift, total, since, row, dense_last_row, nrows); rows are taken from the
    frame at the end of each epoch (alarm step / last step); dense cases also read the frame every step"""
    try:
        d = PageHinkley(delta=cfg["delta"], threshold=cfg["threshold"], burn_in=cfg["burn_in"],
                        direction=cfg["direction"])
    except Exception as ex:
        return [["EXC-init:" + type(ex).__name__, "?", -1, -1, None, None, None]] * len(xs)
    tr = []
    start = 0
    for i, x in enumerate(xs):
        try:
            d.update(wrap(cfg.get("form", 0), x))
            out = "ok"
        except Exception as ex:
            out = exc_tag(ex)
        try:
            ds = d.drift_state
            st = core.dstr(ds) if ds in (None, "warning", "drift") else "X"
            rec = [out, st, int(d.total_samples), int(d.samples_since_reset), None, None, None]
            if cfg.get("dense"):
                rows = frame_rows(d)
                rec[5], rec[6] = (rows[-1] if rows else None), len(rows)
            tr.append(rec)
            if st == "D" or i == len(xs) - 1:
                rows = frame_rows(d)
                since = rec[3]
                if len(rows) != since or since > i + 1:
                    rec[0] = f"frame-rows:{len(rows)}"
                else:
                    for j, r in enumerate(rows):
                        tr[i - since + 1 + j][4] = r
        except Exception as ex:
            tr.append(["EXC-read:" + type(ex).__name__, "?", -1, -1, None, None, None])
    return tr


# ------------------------------------------------------------------ declarative specs on implementation traces
def margin(a, b):
    a, b = float(a), float(b)
    if math.isinf(a) or math.isinf(b) or a != a or b != b:
        return 1.0
    return abs(a - b) / max(1.0, abs(a), abs(b))


def _rtol(xs, n):
    """absolute tolerance of the comparisons with the exact-rational specification: 1e-12, or the first-order rounding bound of n
    binary64 operations on values of the stream's magnitude (a running mean of observations near 4e7 carries ~1e-8 of rounding,
    which the cumulative sums inherit; for the ordinary dyadic streams this stays at 1e-12 and the relative 1e-9 rule decides)"""
    scale = max([abs(float(x)) for x in xs] + [1.0])
    return max(1e-12, 16 * 2.0 ** -52 * scale * max(1, n))


def spec_cusum(cfg, xs, tr, model=None):
    """
    Checks every step of an implementation trace against the declarative CUSUM test.
    Returns (failure | None, thin_step | None, per-step info).  Epoch boundaries are read from the
    trace (the update after an alarm starts a new epoch); everything else is recomputed from xs.
    `model` (optional) = per-step (sh, sl) floats of the Lean model, used only to decide whether a
    comparison sitting exactly on the threshold was evaluated without rounding.
    """
    b = cfg["burn_in"]
    delta, thr = Fraction(cfg["delta"]), Fraction(cfg["threshold"])
    known = cfg["target"] is not None
    t = Fraction(float(cfg["target"])) if known else None
    d = Fraction(float(cfg["sd"])) if (known and cfg["sd"] is not None) else None
    tf = float(cfg["target"]) if known else None
    sf = float(cfg["sd"]) if cfg["sd"] is not None else None
    start, first = 0, True
    cu = cl = mu = ml = Fraction(0)
    wedged = False
    info = []

    def est(win):
        fr = [Fraction(v) for v in win]
        m = sum(fr) / len(fr)
        var = sum((v - m) * (v - m) for v in fr) / len(fr)
        mf = float(m)
        s = math.sqrt(float(var))
        return Fraction(mf), Fraction(s), mf, s

    for i, x in enumerate(xs):
        out, st, total, since, it, isd = tr[i]
        if i > 0 and tr[i - 1][1] == "D":
            t, d, tf, sf = est(xs[max(0, i - b):i] if b > 0 else xs[:i])
            start, first = i, False
            cu = cl = mu = ml = Fraction(0)
        n = i - start + 1
        if first and not known and n == b:
            t, d, tf, sf = est(xs[:i + 1])
        exp_out, exp_drift, status, sh, sl = "ok", "N", "clear", None, None
        if wedged:
            exp_out = "V"
        elif t is None:
            pass
        elif d == 0:
            if n > b:
                exp_out, wedged = "V", True
        else:
            z = (Fraction(x) - t) / d
            cu += z - delta
            cl += -z - delta
            mu, ml = min(mu, cu), min(ml, cl)
            sh, sl = cu - mu, cl - ml           # max suffix sums (empty suffix included)
            if n > b:
                tests = {None: [sh, sl], "positive": [sh], "negative": [sl]}[cfg["direction"]]
                if any(v > thr for v in tests):
                    exp_drift = "D"
                for k, v in enumerate(tests):
                    if margin(v, thr) < 1e-9:
                        mv = None
                        if model is not None:
                            mv = model[i][0 if (cfg["direction"] != "negative" and k == 0) else 1]
                        exact = mv is not None and mv == mv and not math.isinf(mv) and Fraction(mv) == v
                        if not exact:
                            status = "thin"
                        elif status == "clear":
                            status = "exact"
        info.append((exp_out, exp_drift, status, sh, sl, tf, sf))
        what = None
        if out != exp_out:
            what = f"update returned {out}, specification says {exp_out}"
        elif (total, since) != (i + 1, n):
            what = f"counters (total, since) = ({total}, {since}), expected ({i + 1}, {n})"
        elif st == "D" and since <= b:
            what = "alarm during the burn-in"
        elif (it is None) != (tf is None) or (it is not None and not core.close(it, tf, abs_=_rtol(xs, 1))):
            what = f"target = {it}, mean of the estimation window = {tf}"
        elif (isd is None) != (sf is None) or (isd is not None and not core.close(isd, sf, abs_=_rtol(xs, 8))):
            what = f"sd_hat = {isd}, population std of the estimation window = {sf}"
        elif st != exp_drift:
            if status == "thin":
                return None, i, info
            what = (f"drift_state {st}, cumulative-sum test on the standardised current observations says {exp_drift} "
                    f"(s_h={None if sh is None else float(sh)}, s_l={None if sl is None else float(sl)}, threshold={float(thr)})")
        if what:
            return dict(step=i, what=what, impl=list(tr[i]), spec=dict(outcome=exp_out, drift=exp_drift,
                        s_h=None if sh is None else float(sh), s_l=None if sl is None else float(sl),
                        target=tf, sd_hat=sf, epoch_start=start, n_in_epoch=n)), None, info
    return None, None, info


def spec_ph(cfg, xs, tr):
    """PH test from the definition, per epoch of the implementation trace.  Returns (failure|None, thin|None, alarms)."""
    b, delta, thr = cfg["burn_in"], cfg["delta"], cfg["threshold"]
    bounds = [0] + [i + 1 for i in range(len(xs) - 1) if tr[i][1] == "D"] + [len(xs)]
    for a, e in zip(bounds[:-1], bounds[1:]):
        E = np.array(xs[a:e], dtype=float)
        n = np.arange(1, len(E) + 1)
        mean = np.cumsum(E) / n
        m = np.cumsum(E - mean - delta)
        mn = np.minimum.accumulate(np.minimum(m, 0.0))
        mx = np.maximum.accumulate(np.maximum(m, 0.0))
        diff = (m - mn) if cfg["direction"] == "positive" else (mx - m)
        theta = thr * mean
        chk = diff > theta
        spec_rows = [E, m, diff, theta, chk, mx, mn, mean]
        for j in range(len(E)):
            i = a + j
            out, st, total, since, row, last, nrows = tr[i]
            what = None
            if out != "ok":
                what = f"update returned {out}"
            elif (total, since) != (i + 1, j + 1):
                what = f"counters (total, since) = ({total}, {since}), expected ({i + 1}, {j + 1})"
            elif st == "D" and since <= b:
                what = "alarm during the burn-in"
            elif row is None:
                what = "to_dataframe() has no row for this update"
            elif cfg.get("dense") and (nrows != j + 1 or last is None or any(
                    not (u == v or (u != u and v != v)) for u, v in zip(last, row))):
                what = "to_dataframe() during the epoch differs from the frame at the end of the epoch"
            else:
                for k, c in enumerate(COLS):
                    if k == 4:
                        continue
                    if not core.close(row[k], float(spec_rows[k][j]), abs_=_rtol(xs, j + 2)):
                        what = f"{c} = {row[k]}, definition gives {float(spec_rows[k][j])}"
                        break
            if what is None:
                # decision: the frame's drift_detected and the drift state
                ichk = bool(row[4])
                tie_exact = (row[2] == float(diff[j]) and row[3] == float(theta[j]))
                if ichk != bool(chk[j]) or (st == "D") != bool(chk[j] and j + 1 > b):
                    if margin(diff[j], theta[j]) < 1e-9 and not tie_exact:
                        return None, i, None
                    if ichk != bool(chk[j]):
                        what = f"drift_detected = {ichk}, test ph_difference > threshold*mean gives {bool(chk[j])}"
                    else:
                        what = (f"drift_state {st}, Page-Hinkley test (past burn-in: {j + 1 > b}, "
                                f"ph_difference {float(diff[j])} > theta {float(theta[j])}: {bool(chk[j])})")
            if what:
                return dict(step=i, what=what, impl=[out, st, total, since, row],
                            spec=dict(row=[float(r[j]) for r in spec_rows], epoch_start=a, n_in_epoch=j + 1)), None, None
    return None, None, len(bounds) - 2 + (1 if tr and tr[-1][1] == "D" else 0)


# ------------------------------------------------------------------ fresh twins (epoch only)
def twin_cusum(CUSUM, cfg, xs, tr):
    """after each alarm: a fresh detector given the continuing detector's public target / sd_hat and fed
    only the new epoch must show the same drift states (bit-for-bit the same float operations)"""
    alarms = [i for i in range(len(xs) - 1) if tr[i][1] == "D"]
    for a in alarms[:3]:
        s = a + 1
        if tr[s][0] != "ok" or tr[s][4] is None:
            continue
        c2 = dict(cfg, target=tr[s][4], sd=tr[s][5], form=0)
        e = s
        while e < len(xs) and (e == s or tr[e - 1][1] != "D") and tr[e][0] == "ok":
            e += 1
        t2 = impl_cusum(CUSUM, c2, xs[s:e])
        for j in range(e - s):
            if (t2[j][0], t2[j][1], t2[j][3]) != (tr[s + j][0], tr[s + j][1], tr[s + j][3]):
                return dict(step=s + j, what="a fresh CUSUM configured with the re-estimated target / sd_hat and fed only the current "
                            "epoch decides differently from the continuing detector", impl=list(tr[s + j]), twin=list(t2[j]),
                            twin_cfg=c2, epoch_start=s)
    return None


def twin_ph(PageHinkley, cfg, xs, tr):
    alarms = [i for i in range(len(xs) - 1) if tr[i][1] == "D"]
    for a in alarms[:3]:
        s = a + 1
        e = s
        while e < len(xs) and (e == s or tr[e - 1][1] != "D"):
            e += 1
        t2 = impl_ph(PageHinkley, dict(cfg, form=0, dense=False), xs[s:e])
        for j in range(e - s):
            same_row = t2[j][4] is not None and tr[s + j][4] is not None and all(
                u == v or (u != u and v != v) for u, v in zip(t2[j][4], tr[s + j][4]))
            if (t2[j][0], t2[j][1], t2[j][3]) != (tr[s + j][0], tr[s + j][1], tr[s + j][3]) or not same_row:
                return dict(step=s + j, what="a fresh PageHinkley fed only the current epoch differs from the continuing detector",
                            impl=list(tr[s + j][:5]), twin=list(t2[j][:5]), epoch_start=s)
    return None


# ------------------------------------------------------------------ model lines / comparison
def opt(v):
    return "_" if v is None else core.f2b(v)


def lines_for(cfg, xs):
    if cfg["det"] == "cusum":
        head = (f"new cusum {opt(cfg['target'])} {opt(cfg['sd'])} {cfg['burn_in']} {core.f2b(cfg['delta'])} "
                f"{core.f2b(cfg['threshold'])} {DSYM[cfg['direction']]}")
    else:
        head = (f"new ph {core.f2b(cfg['delta'])} {core.f2b(cfg['threshold'])} {cfg['burn_in']} "
                f"{'P' if cfg['direction'] == 'positive' else 'N'}")
    return [head] + ["u " + core.f2b(x) for x in xs]


def parse_cusum(o):
    p = o.split()
    if len(p) != 8:
        raise core.Infra("unexpected cusum driver line: " + o)
    return (p[0], p[1], int(p[2]), int(p[3]), None if p[4] == "_" else core.b2f(p[4]),
            None if p[5] == "_" else core.b2f(p[5]), core.b2f(p[6]), core.b2f(p[7]))


def parse_ph(o):
    p = o.split()
    if len(p) != 11:
        raise core.Infra("unexpected ph driver line: " + o)
    row = [core.b2f(v) for v in p[3:]]
    row[4] = float(int(p[7]))
    return (p[0], int(p[1]), int(p[2]), tuple(row))


def optclose(a, b):
    if a is None or b is None:
        return a is None and b is None
    return core.close(a, b)


def compare_cusum(ctx, cid, cfg, xs, tr, mo, info):
    """I vs M, step by step; returns 'thin' / 'mismatch' / 'ok'"""
    for i in range(len(xs)):
        out, st, total, since, it, isd = tr[i]
        m = mo[i]
        at = _rtol(xs[:i + 1], max(since, cfg["burn_in"]))
        oc = lambda a, b: optclose(a, b) or (a is not None and b is not None and abs(a - b) <= at)
        if (out, total, since) != (m[0], m[2], m[3]) or not oc(it, m[4]) or not oc(isd, m[5]):
            ctx.mismatch(component="cusum", case=cid, step=i, cfg=cfg, stream=xs[:i + 1], impl=list(tr[i]), model=list(m))
            return "mismatch"
        if st != m[1]:
            status = info[i][2] if info and i < len(info) else "clear"
            c = cfg
            marg = min([margin(m[6], c["threshold"])] * (c["direction"] != "negative")
                       + [margin(m[7], c["threshold"])] * (c["direction"] != "positive"))
            same_consts = it == m[4] and isd == m[5]
            if marg < 1e-9 and not (status == "exact" and same_consts):
                ctx.thin += 1
                return "thin"
            ctx.mismatch(component="cusum", case=cid, step=i, cfg=cfg, stream=xs[:i + 1], impl=list(tr[i]), model=list(m))
            return "mismatch"
    return "ok"


def compare_ph(ctx, cid, cfg, xs, tr, mo):
    for i in range(len(xs)):
        out, st, total, since, row, last, nrows = tr[i]
        m = mo[i]
        bad = out != "ok" or (total, since) != (m[1], m[2]) or row is None
        if not bad:
            # the sums are differences of values of the stream's magnitude: two correct evaluation orders differ by the
            # first-order rounding bound (_rtol), e.g. ~1e-8 for observations near 4e7, 1e-12 for the ordinary dyadic streams
            at = _rtol(xs[:i + 1], since)
            bad = any(not (core.close(row[k], m[3][k]) or abs(row[k] - m[3][k]) <= at) for k in range(8) if k != 4)
        if bad:
            ctx.mismatch(component="ph", case=cid, step=i, cfg=cfg, stream=xs[:i + 1], impl=[out, st, total, since, row], model=list(m))
            return "mismatch"
        if bool(row[4]) != bool(m[3][4]) or st != m[0]:
            tie_exact = row[2] == m[3][2] and row[3] == m[3][3]
            if margin(m[3][2], m[3][3]) < 1e-9 and not tie_exact:
                ctx.thin += 1
                return "thin"
            ctx.mismatch(component="ph", case=cid, step=i, cfg=cfg, stream=xs[:i + 1], impl=[out, st, total, since, row], model=list(m))
            return "mismatch"
    return "ok"


# ------------------------------------------------------------------ fixed cases
def fixed_cases():
    c = []
    base = dict(det="cusum", target=None, sd=None, burn_in=3, delta=0.25, threshold=1.0, direction=None, form=0)
    # sd_hat == 0 ValueError branch: constant burn-in window (estimated), constant re-estimation window
    c.append((dict(base), [1.0] * 8))
    c.append((dict(base, target=0.0, sd=1.0, burn_in=2, threshold=2.0), [0, 0, 1, 1, 1, 1, 1, 5, 5, 5, 5]))
    c.append((dict(base, target=0.0, sd=0.0, burn_in=2), [1, -1, 0, 2, 2]))            # given sd_hat = 0: inf / nan inside burn-in
    c.append((dict(base, burn_in=1), [1, 2, 3, 4]))                                    # burn_in = 1 estimated: sd of one sample
    c.append((dict(base, target=0.0, sd=1.0, burn_in=1, threshold=0.0), [0.5, 0.5, 3, 3, 3, 3]))
    # rejected configurations
    c.append((dict(base, target=0.0, sd=None), [1, 2, 3]))
    c.append((dict(base, burn_in=0), [1, 2, 3]))
    # F1 regression: level shift, alarms must stop once the new level is the reference
    xs = [((-1) ** i) * 0.5 for i in range(40)] + [8 + ((-1) ** i) * 0.5 for i in range(120)]
    c.append((dict(base, burn_in=5, threshold=5.0, delta=0.005), xs))
    c.append((dict(base, burn_in=30, threshold=5.0, delta=0.005, direction="positive"), xs))
    # exact ties s == threshold (strictness), all directions
    for d in DIRS_C:
        c.append((dict(base, target=0.0, sd=1.0, burn_in=2, delta=0.0, threshold=2.0, direction=d),
                  [0, 0, 1, 1, 0.5, 0.5, -1, -1, -1, -1, -1, 0, 3, -3, -3]))
    ph = dict(det="ph", burn_in=2, delta=0.0, threshold=0.0, direction="positive", form=0, dense=True)
    c.append((dict(ph), [1, 1, 1, 1, 2, 2, 0, 0, 3]))                                   # diff == theta == 0 ties
    c.append((dict(ph, direction="negative"), [1, 1, 1, 1, 0, 0, 2, 2, -1]))
    c.append((dict(ph, threshold=1.0, delta=0.25), [-1.0] * 6 + [1, 2, 3, 4]))         # negative running mean (documented formula)
    c.append((dict(ph, burn_in=30, threshold=20.0, delta=0.01), [0.5 * (i % 3) for i in range(60)] + [50.0] * 40))
    p = os.path.join(core.ROOT, "corpus", "C04")
    if os.path.isdir(p):
        for f in sorted(os.listdir(p)):
            if f.endswith(".json"):
                r = json.load(open(os.path.join(p, f)))
                c.append((r["cfg"], [float(v) for v in r["stream"]]))
    return [(cfg, [float(v) for v in xs]) for cfg, xs in c]


def exhaustive_cases(quick):
    import itertools
    L = 5 if quick else 7
    alpha = [-1.0, 0.0, 1.0]
    streams = [list(s) for s in itertools.product(alpha, repeat=L)]
    cases = []
    for b in (1, 2):
        for delta in (0.0, 0.5):
            for thr in (0.0, 1.0):
                for d in DIRS_C:
                    cfg = dict(det="cusum", target=0.0, sd=1.0, burn_in=b, delta=delta, threshold=thr, direction=d, form=0)
                    cases += [(cfg, s) for s in streams]
                for d in ("positive", "negative"):
                    cfg = dict(det="ph", burn_in=b, delta=delta, threshold=thr, direction=d, form=0, dense=False)
                    cases += [(cfg, s) for s in streams]
    return cases


# ------------------------------------------------------------------ evaluation of a list of cases
def evaluate(ctx, cases, tag, twins=True, with_model=True):
    from menelaus.change_detection import CUSUM, PageHinkley
    lines, spans, traces = [], [], []
    for cfg, xs in cases:
        tr = impl_cusum(CUSUM, cfg, xs) if cfg["det"] == "cusum" else impl_ph(PageHinkley, cfg, xs)
        traces.append(tr)
        if with_model:
            ls = lines_for(cfg, xs)
            spans.append((len(lines), len(lines) + len(ls)))
            lines += ls
    out = core.run_driver(lines) if with_model else []
    stats = dict(alarms=[], failures=0)
    for ci, ((cfg, xs), tr) in enumerate(zip(cases, traces)):
        cid = f"{tag}-{ci}"
        mo = None
        if with_model:
            a, e = spans[ci]
            if out[a] != "ok":
                raise core.Infra(f"driver rejected `{lines[a]}`: {out[a]}")
            mo = [(parse_cusum if cfg["det"] == "cusum" else parse_ph)(o) for o in out[a + 1:e]]
        alarms = sum(1 for r in tr if r[1] == "D")
        rejected_cfg = cfg["det"] == "cusum" and ((cfg["target"] is not None and cfg["sd"] is None) or cfg["burn_in"] == 0)
        fail = thin = None
        info = None
        if cfg["det"] == "cusum":
            if not rejected_cfg:
                fail, thin, info = spec_cusum(cfg, xs, tr, None if mo is None else [(m[6], m[7]) for m in mo])
                if fail is None and thin is None and twins:
                    fail = twin_cusum(CUSUM, cfg, xs, tr)
            verdict = compare_cusum(ctx, cid, cfg, xs, tr, mo, info) if mo is not None else "ok"
            for r in tr:
                if r[0] == "V":
                    ctx.count("cusum-update-raised-ValueError(sd_hat==0)"); break
            if rejected_cfg:
                ctx.count("cusum-rejected-configuration")
        else:
            fail, thin, _ = spec_ph(cfg, xs, tr)
            if fail is None and thin is None and twins:
                fail = twin_ph(PageHinkley, cfg, xs, tr)
            verdict = compare_ph(ctx, cid, cfg, xs, tr, mo) if mo is not None else "ok"
        if thin is not None:
            ctx.thin += 1
        if fail is not None:
            stats["failures"] += 1
            ctx.fail(signature={"class": "c04-" + cfg["det"] + "-spec"}, detector=cfg["det"], cfg=cfg, stream=xs[:fail["step"] + 1],
                     full_stream_len=len(xs), **fail)
        ctx.traces += 1 if with_model else 0
        ctx.case((tag, json.dumps(cfg, sort_keys=True), tuple(xs)), alarms >= 1)
        ctx.count(f"{cfg['det']}-cases")
        ctx.count(f"{cfg['det']}-burn_in={cfg['burn_in']}")
        ctx.count(f"{cfg['det']}-direction={cfg['direction']}")
        ctx.count(f"{cfg['det']}-threshold={cfg['threshold']}")
        if cfg["det"] == "cusum":
            ctx.count("cusum-known-target" if cfg["target"] is not None else "cusum-estimated-target")
        ctx.count(f"{cfg['det']}-alarms:" + ("0" if alarms == 0 else "1-4" if alarms < 5 else "5-19" if alarms < 20 else "20+"))
        ctx.count("updates", len(xs))
        ctx.count("alarms", alarms)
        if verdict == "thin" or thin is not None:
            ctx.count("thin-cases")
        if info:
            ctx.count("cusum-exact-threshold-ties", sum(1 for r in info if r[2] == "exact"))
        stats["alarms"].append((cfg, alarms, any(r[0] != "ok" for r in tr)))
    return stats


def int_stream(rng, b, nseg, level):
    """integral observations of large magnitude (sums of a handful of them leave the range of their small integer dtype)"""
    return [float(int(level) + int(round(8 * x))) for x in gen_stream(rng, b, nseg)]


def random_cases(rng, n_c, n_p, nseg):
    cases = []
    for cfg in cusum_cfgs(rng, n_c):
        cases.append((cfg, gen_stream(rng, cfg["burn_in"], nseg)))
    for cfg in ph_cfgs(rng, n_p):
        cases.append((cfg, gen_stream(rng, cfg["burn_in"], nseg)))
    # observations handed over in small integer dtypes (int16 near 9000, int32 near 4e7): the statistics are those of the values
    for k, (form, level) in enumerate(((6, 9000), (6, 40000000), (7, 40000000), (6, -9000))):
        c = ph_cfgs(rng, 8)[k * 2 + 1]; c.update(form=form, burn_in=[2, 5][k % 2])
        cases.append((c, int_stream(rng, c["burn_in"], max(3, nseg // 2), level)))
        c = cusum_cfgs(rng, 8)[k * 2 + 1]; c.update(form=form, burn_in=[2, 5][k % 2], target=None, sd=None)
        cases.append((c, int_stream(rng, c["burn_in"], max(3, nseg // 2), level)))
    # the same kind of stream in tiny units (an exact power-of-two scale: 2^-40 ~ 1e-12, 2^-340 ~ 4e-103): the CUSUM test works on
    # standardised observations and is unit-free -- a standard deviation of 1e-12 is not "0"
    for k, sc in enumerate((2.0 ** -40, 2.0 ** -340, 2.0 ** -40, 2.0 ** -340)):
        c = dict(cusum_cfgs(rng, 16)[k * 4 + 1 if k < 2 else k * 4 + 2]); c.update(form=0, burn_in=[5, 30][k % 2])
        if c["target"] is not None:
            c["target"], c["sd"] = c["target"] * sc, c["sd"] * sc
        cases.append((c, [x * sc for x in gen_stream(rng, c["burn_in"], nseg)]))
    # a burn-in far longer than any plausible internal buffer (first-epoch and post-drift estimates read exactly burn_in observations)
    for b in (520, 800):
        c = cusum_cfgs(rng, 4)[1]; c.update(burn_in=b, target=None, sd=None, threshold=5.0, delta=0.25, form=0)
        cases.append((c, gen_stream(rng, b, 3, lo=20, hi=60)))
    return cases


def run(ctx):
    # detector objects are independent of one another (a consequence of "the outputs are a function of the detector's own
    # parameters and history"): solo trace = trace when a second object of the class is updated alternately (impl/zoo.py)
    from impl import zoo as _zoo
    for _f in _zoo.isolation_failures(ctx, ['CUSUM', 'PageHinkley']):
        ctx.fail(signature={"clause": "detector-objects-independent"}, **_f)
    warnings.simplefilter("ignore")
    np.seterr(all="ignore")
    rng = np.random.default_rng(ctx.seed)
    ctx.rule = ("fixed + corpus cases; exhaustive: every stream in {-1,0,1}^L (L=5 quick / 7 thorough) x burn_in {1,2} x delta {0,.5} x "
                "threshold {0,1} x all directions (CUSUM with known target 0 / sd 1, PageHinkley); random: piecewise-stationary dyadic "
                "streams (multiples of 1/8, 8-10 level shifts sized 0.25..4, segment length burn_in+2..3*burn_in+12) x burn_in {1,2,5,30} "
                "x delta x threshold (incl. 0) x direction x known/estimated target x 6 input container forms. A case is non-trivial when "
                "the implementation alarmed at least once; distinct = distinct (config, stream).")
    n_c, n_p, nseg = (192, 192, 9) if ctx.quick else (1300, 1300, 12)
    evaluate(ctx, fixed_cases(), "fixed")
    evaluate(ctx, exhaustive_cases(ctx.quick), "exh", twins=False)
    st = evaluate(ctx, random_cases(rng, n_c, n_p, nseg), "rnd")
    # input distribution must not degenerate: most cases that cannot wedge have >= 5 alarms
    elig = [(c, a) for c, a, raised in st["alarms"] if not raised]
    many = sum(1 for c, a in elig if a >= 5)
    ctx.extra["random_cases_without_raise"] = len(elig)
    ctx.extra["random_cases_with_5+_alarms"] = many
    for det in ("cusum", "ph"):
        sub = [a for c, a in elig if c["det"] == det]
        ctx.extra[f"{det}_median_alarms"] = float(np.median(sub)) if sub else 0.0
        if not sub or sum(1 for a in sub if a >= 5) < 0.5 * len(sub):
            raise core.Infra(f"input distribution degenerated: {det} cases with >=5 alarms: "
                             f"{sum(1 for a in sub if a >= 5)}/{len(sub)}")
    if not ctx.stats.get("cusum-update-raised-ValueError(sd_hat==0)"):
        raise core.Infra("sd_hat == 0 branch not reached")
    cases = random_cases(np.random.default_rng(ctx.seed), 2, 2, 2)
    for cfg, xs in (cases[0], cases[2]):
        ctx.sample({"cfg": cfg, "stream_head": xs[:12], "len": len(xs)})
    from menelaus.change_detection import CUSUM, PageHinkley
    manual_reset_part(ctx, CUSUM, PageHinkley)


def manual_reset_part(ctx, CUSUM, PageHinkley):
    """A manual reset() between updates (documented public API; StreamingEnsemble.reset() does it to every member): the epoch
    restarts -- counter, drift state, cumulative sums / Page-Hinkley statistics -- and nothing else changes; in particular CUSUM
    keeps the target / sd_hat it was given or has estimated (Model/Cusum.lean `reset`, Model/PageHinkley.lean `reset`)."""
    rng = np.random.default_rng([ctx.seed, 404])
    lines, cases = [], []
    for k in range(120 if ctx.quick else 1200):
        det = "cusum" if k % 3 else "ph"
        cfg = dict((cusum_cfgs(rng, 24) if det == "cusum" else ph_cfgs(rng, 8))[k % (24 if det == "cusum" else 8)])
        cfg["det"], cfg["form"] = det, 0
        xs = gen_stream(rng, max(cfg["burn_in"], 2), int(rng.integers(3, 7)))
        items = list(xs)
        for _ in range(int(rng.integers(1, 4))):
            items.insert(int(rng.integers(1, len(items))), "R")
        if det == "cusum":
            d = CUSUM(target=cfg["target"], sd_hat=cfg["sd"], burn_in=cfg["burn_in"], delta=cfg["delta"], threshold=cfg["threshold"], direction=cfg["direction"])
        else:
            d = PageHinkley(delta=cfg["delta"], threshold=cfg["threshold"], burn_in=cfg["burn_in"], direction=cfg["direction"])
        tr = []
        for it in items:
            try:
                d.reset() if isinstance(it, str) else d.update(it)
                out = "ok"
            except Exception as ex:
                out = exc_tag(ex)
            t = sd = None
            if det == "cusum":
                t = None if d.target is None else fnum(d.target)
                sd = None if d.sd_hat is None else fnum(d.sd_hat)
            st = d.drift_state
            tr.append((out, core.dstr(st) if st in (None, "warning", "drift") else "X", int(d.total_samples), int(d.samples_since_reset), t, sd))
            if out != "ok":
                break
        head = lines_for(cfg, [])[0]
        start = len(lines) + 1
        lines += [head] + ["reset" if isinstance(it, str) else "u " + core.f2b(it) for it in items[:len(tr)]]
        cases.append((det, cfg, items, tr, start))
    out = core.run_driver(lines)
    for det, cfg, items, tr, start in cases:
        ctx.traces += 1
        ctx.count("manual-reset:" + det)
        nd = sum(1 for t in tr if t[1] == "D")
        ctx.case(("manual-reset", det, json.dumps(cfg, sort_keys=True, default=str), len(items)), nd > 0)
        for i, t in enumerate(tr):
            p = out[start + i].split()
            if det == "cusum":
                m = (p[0], p[1], int(p[2]), int(p[3]), None if p[4] == "_" else core.b2f(p[4]), None if p[5] == "_" else core.b2f(p[5]))
                same = (t[0], t[2], t[3]) == (m[0], m[2], m[3]) and optclose(t[4], m[4]) and optclose(t[5], m[5])
                dec_same = t[1] == m[1]
                marg = min(margin(core.b2f(p[6]), cfg["threshold"]), margin(core.b2f(p[7]), cfg["threshold"]))
            else:
                m = ("ok", p[0], int(p[1]), int(p[2]), None, None)
                same = (t[0], t[2], t[3]) == (m[0], m[2], m[3])
                dec_same = t[1] == m[1]
                marg = margin(core.b2f(p[5]), core.b2f(p[6])) if len(p) == 11 else 1.0
            if same and dec_same:
                if t[0] != "ok":
                    break
                continue
            if same and not dec_same and marg < 1e-9:
                ctx.thin += 1
                break
            ctx.fail(signature={"class": "c04-manual-reset", "detector": det},
                     what=f"{det}: after a manual reset() between updates the detector differs from its specification at item {i} "
                          "(a reset restarts the epoch and touches nothing else)",
                     detector=det, config={k: v for k, v in cfg.items()}, items=[x if isinstance(x, str) else float(x) for x in items[:i + 1]],
                     impl=list(t), model=list(m))
            break


def search(ctx, mismatches):
    """neighbourhood of the mismatching configurations through the declarative specs (implementation only)"""
    from menelaus.change_detection import CUSUM, PageHinkley
    found, seen = [], set()
    rng = np.random.default_rng(ctx.seed + 1)
    sub = core.Ctx(ctx.prop, ctx.tier, ctx.seed)
    for m in mismatches[:10]:
        cfg = m.get("cfg")
        if not cfg or json.dumps(cfg, sort_keys=True) in seen:
            continue
        seen.add(json.dumps(cfg, sort_keys=True))
        if cfg.get("form", 0) in (6, 7):
            # integer-dtype input forms carry integral observations only (a fractional value would be truncated by the harness
            # itself, not by the library); keep the magnitude of the mismatching stream
            lvl = float(np.median(np.asarray(m.get("stream") or [9000.0], dtype=float)))
            cases = [(cfg, int_stream(rng, cfg["burn_in"], 6, lvl)) for _ in range(10)]
        else:
            cases = [(cfg, gen_stream(rng, cfg["burn_in"], 10)) for _ in range(10)]
        evaluate(sub, cases, "search", with_model=False)
    return sub.failing[:5]


def replay(ctx, path):
    warnings.simplefilter("ignore")
    np.seterr(all="ignore")
    r = json.load(open(path))
    items = [r] if "cfg" in r else r.get("broken_correspondence", [])
    rc = 0
    for it in items:
        cfg, xs = it["cfg"], [float(v) for v in it["stream"]]
        sub = core.Ctx(ctx.prop, ctx.tier, ctx.seed)
        core.lake_build()
        evaluate(sub, [(cfg, xs)], "replay")
        print(json.dumps({"cfg": cfg, "stream": xs, "failing": sub.failing, "mismatches": sub.mismatches}, indent=1, default=str))
        if sub.failing or sub.mismatches:
            rc = 1
    print("replay:", "still failing" if rc else "passes")
    return rc
