#!/venv/bin/python
"""tools/register.py --driver Module:mkName ... --import Module ...   (adds lines to lean/Driver.lean and lean/MenelausVerif.lean)"""
import sys, re
args = sys.argv[1:]
drv = [a for i, a in enumerate(args) if i > 0 and args[i - 1] == "--driver"]
imps = [a for i, a in enumerate(args) if i > 0 and args[i - 1] == "--import"]
p = "/verif/lean/Driver.lean"; s = open(p).read()
for d in drv:
    mod, mk = d.split(":")
    line = f"import MenelausVerif.Driver.{mod}\n"
    if line not in s:
        s = s.replace("open MV.Driver\n", "open MV.Driver\n", 1)
        idx = s.index("open MV.Driver")
        s = s[:idx] + line + s[idx:]
    m = re.search(r"  \[(.*?)\]\n", s)
    names = [x.strip() for x in m.group(1).split(",")]
    if mk not in names:
        names.append(mk)
        s = s[:m.start()] + "  [" + ", ".join(names) + "]\n" + s[m.end():]
open(p, "w").write(s)
p = "/verif/lean/MenelausVerif.lean"; s = open(p).read()
for i in imps:
    line = f"import MenelausVerif.{i}\n"
    if line not in s:
        s += line
open(p, "w").write(s)
print(open("/verif/lean/Driver.lean").read().split("def mkMachine")[0])
