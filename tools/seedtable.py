#!/venv/bin/python
"""regenerates seeded/README.md: which checks catch which seeded changes"""
import glob, json, os
rows = []
for d in sorted(glob.glob("/verif/seeded/*/meta.json")):
    m = json.load(open(d)); name = os.path.basename(os.path.dirname(d))
    caught = []
    for c, r in m.get("checks_run", {}).items():
        ok = r["exit"] == 1 and r["violation_lines"] > 0
        nf = ok and r.get("first") and "no-failing-input-found" in r["first"]
        caught.append(f"{c}: {'caught' + (' (correspondence only)' if nf else '') if ok else ('exit 2' if r['exit'] == 2 else 'MISSED')}")
    rows.append((name, m["property"], ", ".join(m.get("files_changed", []))[:70], m["what"].replace("|", "/")[:230], m["needs"].replace("|", "/")[:200], "; ".join(caught)))
with open("/verif/seeded/README.md", "w") as f:
    f.write("# Seeded changes (written by independent sub-agents from the property text only) and which checks catch them\n\n"
            "Each directory holds `patch.diff` (against /repo), `demo.py` (passes on the unchanged tree, fails with the patch) and `meta.json` "
            "(what was confirmed: demo clean/patched, the existing suite with the patch, and the outcome of the listed checks run with "
            "`VERIF_REPO=<patched worktree>`).  Regenerate with `tools/seedtable.py`; re-confirm one with `tools/keepseed.py seeded/<id> [checks…]`.\n\n"
            "| seed | property | files | change | needs | outcome (quick tier) |\n|---|---|---|---|---|---|\n")
    for r in rows:
        f.write("| " + " | ".join(r) + " |\n")
print(len(rows), "seeds;", sum("MISSED" in r[5] and "caught" not in r[5] for r in rows), "not caught by any listed check")
