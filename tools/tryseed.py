#!/venv/bin/python
"""
tools/tryseed.py <seed-dir> [<Cxx> ...] [--suite] [--tier quick|thorough]

Confirms a seeded change (seed-dir contains patch.diff, demo.py, meta.json) in a scratch
worktree of /repo under /tmp (never in /repo itself): demo passes on the clean tree, fails
with the patch; optionally the existing test suite passes with the patch; then runs the listed
checks (default: the property of meta.json) against the patched worktree via VERIF_REPO and
reports whether each one raises a VIOLATION.  Removes the worktree afterwards.
"""
import json, os, subprocess, sys, tempfile, shutil

def sh(cmd, cwd=None, env=None, timeout=3600):
    p = subprocess.run(cmd, shell=True, cwd=cwd, env=env, capture_output=True, text=True, timeout=timeout)
    return p.returncode, p.stdout + p.stderr

def main():
    args = [a for a in sys.argv[1:] if not a.startswith("--")]
    d = os.path.abspath(args[0])
    meta = json.load(open(os.path.join(d, "meta.json")))
    props = args[1:] or [meta["property"]]
    tier = sys.argv[sys.argv.index("--tier") + 1] if "--tier" in sys.argv else "quick"
    wt = tempfile.mkdtemp(prefix="seedwt_", dir="/tmp")
    os.rmdir(wt)
    res = {"seed": d, "property": meta["property"]}
    try:
        rc, out = sh(f"git -C /repo worktree add -q --detach {wt} HEAD")
        assert rc == 0, out
        shutil.copy(os.path.join(d, "demo.py"), os.path.join(wt, "_demo.py"))
        rc, out = sh("/venv/bin/python _demo.py", cwd=wt, timeout=900)
        res["demo_clean"] = "PASS" if rc == 0 else f"FAIL(rc={rc})"
        rc, out = sh(f"git apply {os.path.join(d, 'patch.diff')}", cwd=wt)
        if rc != 0:   # /repo has moved on since the patch was written (later fix: commits): merge
            rc, out = sh(f"git apply --3way {os.path.join(d, 'patch.diff')}", cwd=wt)
            res["applied_with_3way"] = True
        assert rc == 0, "patch does not apply: " + out
        rc, out = sh("/venv/bin/python _demo.py", cwd=wt, timeout=900)
        res["demo_patched"] = "FAIL" if rc != 0 else "PASS(!)"
        res["demo_patched_tail"] = out.strip().splitlines()[-1][:200] if out.strip() else ""
        if "--suite" in sys.argv:
            # deselected: test_find_root_dir fails in any checkout below /tmp (environment), and
            # test_nnsp_compute_nnps_distance_1 is randomly flaky on the unchanged code (unseeded 0/0)
            rc, out = sh("/venv/bin/python -m pytest -q -p no:cacheprovider --no-cov "
                         "--deselect tests/menelaus/utils/test_utils.py::test_find_root_dir "
                         "--deselect tests/menelaus/partitioners/test_nn_space_partitioner.py::test_nnsp_compute_nnps_distance_1 2>&1 | tail -15",
                         cwd=wt, timeout=1800)
            lines = [l for l in out.strip().splitlines() if " passed" in l or " failed" in l or " error" in l]
            res["suite"] = lines[-1] if lines else (out.strip().splitlines()[-1] if out.strip() else "")
        os.remove(os.path.join(wt, "_demo.py"))
        for p in props:
            env = dict(os.environ, VERIF_REPO=wt, VERIF_OUT=wt + "_out")
            rc, out = sh(f"./vcheck {p} {tier}", cwd="/verif", env=env, timeout=3600)
            viol = [l for l in out.splitlines() if l.startswith("VIOLATION")]
            res[f"check_{p}"] = {"exit": rc, "violation_lines": len(viol), "first": viol[0] if viol else None,
                                 "summary": [l for l in out.splitlines() if l.startswith("[" + p + "]")][-1:] }
    finally:
        sh(f"git -C /repo worktree remove --force {wt}")
        res["replays_dir"] = wt + "_out/replays"
    print(json.dumps(res, indent=1))

if __name__ == "__main__":
    main()
