#!/venv/bin/python
"""
tools/trybenign.py <dir> [--all] [--jobs N]

<dir> holds patch.diff + meta.json of a HARMLESS change to mitre/menelaus (a behaviour-preserving rewrite written by an
independent sub-agent).  The patch is applied in a scratch worktree of /repo under /tmp; the existing suite is run with it;
then the quick check of every property anchored in a changed file (or of all 20 with --all) is run against the worktree
(VERIF_REPO).  Every check must exit 0 without a VIOLATION line: an alarm here is a FALSE alarm of the machinery.
Files patch.diff / meta.json (+ outcome) are filed under /verif/benign/<name>/.  The worktree is removed afterwards.
"""
import json, os, shutil, subprocess, sys, tempfile
from concurrent.futures import ThreadPoolExecutor

def sh(cmd, cwd=None, env=None, timeout=3600):
    p = subprocess.run(cmd, shell=True, cwd=cwd, env=env, capture_output=True, text=True, timeout=timeout)
    return p.returncode, p.stdout + p.stderr

def props_for(files):
    out = []
    for l in open("/verif/properties.jsonl"):
        p = json.loads(l)
        if set(p["anchors"]["files"]) & set(files):
            out.append(p["id"])
    return out

def main():
    args = [a for a in sys.argv[1:] if not a.startswith("--")]
    d = os.path.abspath(args[0]); name = os.path.basename(d.rstrip("/"))
    jobs = int(sys.argv[sys.argv.index("--jobs") + 1]) if "--jobs" in sys.argv else 5
    meta = json.load(open(os.path.join(d, "meta.json")))
    wt = tempfile.mkdtemp(prefix="benwt_", dir="/tmp"); os.rmdir(wt)
    res = {}
    try:
        rc, out = sh(f"git -C /repo worktree add -q --detach {wt} HEAD"); assert rc == 0, out
        rc, out = sh(f"git apply {os.path.join(d, 'patch.diff')}", cwd=wt)
        if rc != 0:      # /repo has moved on since the patch was written (a later fix: commit): merge
            rc, out = sh(f"git apply --3way {os.path.join(d, 'patch.diff')}", cwd=wt)
        assert rc == 0, "patch does not apply: " + out
        rc, out = sh("git diff --name-only HEAD", cwd=wt)
        files = [f for f in out.split() if f.endswith(".py")]
        rc, out = sh("/venv/bin/python -m pytest -q -p no:cacheprovider --no-cov "
                     "--deselect tests/menelaus/utils/test_utils.py::test_find_root_dir "
                     "--deselect tests/menelaus/partitioners/test_nn_space_partitioner.py::test_nnsp_compute_nnps_distance_1 2>&1 | tail -5", cwd=wt, timeout=1800)
        lines = [l for l in out.strip().splitlines() if " passed" in l or " failed" in l or " error" in l]
        res["suite"] = lines[-1] if lines else out.strip()[-200:]
        props = ["C%02d" % i for i in range(1, 21)] if "--all" in sys.argv else props_for(files)
        def one(p):
            env = dict(os.environ, VERIF_REPO=wt, VERIF_OUT=f"{wt}_out_{p}")
            rc, out = sh(f"./vcheck {p} quick", cwd="/verif", env=env, timeout=3600)
            viol = [l for l in out.splitlines() if l.startswith("VIOLATION")]
            summ = [l for l in out.splitlines() if l.startswith("[" + p + "]")][-1:]
            rep = None
            if viol:
                # keep the replay for triage
                rp = viol[0].split("replay=")[1].split()[0]
                src = os.path.join(f"{wt}_out_{p}", rp)
                if os.path.exists(src):
                    os.makedirs(f"/tmp/benign_replays", exist_ok=True)
                    rep = f"/tmp/benign_replays/{name}-{p}.json"; shutil.copy(src, rep)
            shutil.rmtree(f"{wt}_out_{p}", ignore_errors=True)
            return p, {"exit": rc, "violation_lines": len(viol), "first": viol[0] if viol else None, "summary": summ, "replay_copy": rep,
                       "tail": out.strip().splitlines()[-3:] if rc not in (0, 1) else None}
        with ThreadPoolExecutor(jobs) as ex:
            res["checks"] = dict(ex.map(one, props))
        res["files"] = files
    finally:
        sh(f"git -C /repo worktree remove --force {wt}")
    dst = f"/verif/benign/{name}"
    os.makedirs(dst, exist_ok=True)
    shutil.copy(os.path.join(d, "patch.diff"), os.path.join(dst, "patch.diff"))
    meta["outcome"] = res
    meta["what_i_ran"] = "tools/trybenign.py: patch applied in a scratch worktree of /repo under /tmp, existing suite with the patch, then ./vcheck <id> quick with VERIF_REPO=<worktree> for every property anchored in a changed file; worktree removed afterwards"
    json.dump(meta, open(os.path.join(dst, "meta.json"), "w"), indent=1)
    alarms = {p: r["first"] or f"exit {r['exit']}" for p, r in res.get("checks", {}).items() if r["exit"] != 0 or r["violation_lines"]}
    print(name, meta.get("kind"), "| suite:", res.get("suite"), "| checks:", " ".join(sorted(res.get("checks", {}))), "| ALARMS:", alarms or "none")

if __name__ == "__main__":
    main()
