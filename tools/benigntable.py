#!/venv/bin/python
"""regenerates benign/README.md: harmless rewrites and the outcome of the checks run against them (all must stay quiet)"""
import glob, json, os
rows = []
for d in sorted(glob.glob("/verif/benign/*/meta.json")):
    m = json.load(open(d)); name = os.path.basename(os.path.dirname(d))
    o = m.get("outcome", {})
    ch = o.get("checks", {})
    alarms = [p for p, r in ch.items() if r["exit"] != 0 or r["violation_lines"]]
    rows.append((name, m.get("kind", "?"), ", ".join(os.path.basename(f) for f in o.get("files", m.get("files_changed", []))),
                 m.get("what", "").replace("|", "/").replace("\n", " ")[:260], " ".join(sorted(ch)),
                 "quiet" if not alarms else "ALARM: " + " ".join(alarms), m.get("note", "")))
with open("/verif/benign/README.md", "w") as f:
    f.write("# Harmless changes (behaviour-preserving rewrites written by independent sub-agents) and the checks run against them\n\n"
            "Each directory holds `patch.diff` (against /repo) and `meta.json` (the author's equivalence argument and differential test, "
            "and the outcome of `tools/trybenign.py`: the existing suite with the patch, then the quick check of every property anchored "
            "in a changed file with `VERIF_REPO=<patched worktree>`).  `kind`: `exact` = bit-identical behaviour, `ulp` = algebraically "
            "equivalent float expressions (last-bits differences).  Every check must stay quiet; an alarm is a false alarm of the machinery "
            "and is corrected there (DESIGN §13.2).  The outcome column shows the state after any such correction; `note` says what was corrected.\n\n"
            "| change | kind | files | rewrite | checks run | outcome | note |\n|---|---|---|---|---|---|---|\n")
    for r in rows:
        f.write("| " + " | ".join(r) + " |\n")
print(len(rows), "harmless changes;", sum(r[5] != "quiet" for r in rows), "with an alarm")
