#!/venv/bin/python
"""
tools/ingest_r2.py <Cxx> [extra checks...]  — takes the two changes a round-2 seeding sub-agent left under
/tmp/r2/<Cxx>/out/{1,2}/ (patch.diff, demo.py, notes.md), confirms each with tools/keepseed.py (demo clean /
patched, suite with the patch, the property's quick check against the patched worktree) and files them as
seeded/<Cxx>-4, seeded/<Cxx>-5.
"""
import json, os, re, shutil, subprocess, sys

ROUND = int(os.environ.get("SEED_ROUND", "2"))
BASE = f"/tmp/r{ROUND}"
FIRST = {2: 3, 3: 5, 4: 7}[ROUND]
prop = sys.argv[1]
extra = sys.argv[2:]
for k in (1, 2):
    src = f"{BASE}/{prop}/out/{k}"
    if not os.path.exists(os.path.join(src, "patch.diff")):
        print("missing", src); continue
    name = f"{prop}-{FIRST + k}"
    dst = f"{BASE}/keep/{name}"
    shutil.rmtree(dst, ignore_errors=True)
    os.makedirs(dst)
    for f in ("patch.diff", "demo.py"):
        shutil.copy(os.path.join(src, f), os.path.join(dst, f))
    notes = open(os.path.join(src, "notes.md")).read() if os.path.exists(os.path.join(src, "notes.md")) else ""
    files = re.findall(r"^\+\+\+ b/(\S+)", open(os.path.join(src, "patch.diff")).read(), re.M)
    flat = re.sub(r"\s+", " ", notes)
    def grab(labels):
        for lab in labels:
            m = re.search(lab + r"\W*\s*(.*?)(?= [-*] \*?\*?(?:Why|Needs|What|Not noticed|Ordinary|Verification|Plausib|Manifest)|\Z)", flat, re.I)
            if m and len(m.group(1)) > 20:
                return m.group(1).strip()[:700]
        return ""
    what = grab([r"What(?: was changed| changed)?\*?\*?:", r"Change\*?\*?:"]) or flat[:500]
    needs = grab([r"Needs(?: to manifest)?\*?\*?:", r"(?:Exactly )?what is needed[^:]*:", r"Manifest[^:]*:"]) or flat[500:1000]
    meta = {"property": prop, "round": ROUND, "files_changed": files, "what": what, "needs": needs, "notes": notes[:3000]}
    json.dump(meta, open(os.path.join(dst, "meta.json"), "w"), indent=1)
    p = subprocess.run(["/verif/tools/keepseed.py", dst, prop, *extra], capture_output=True, text=True)
    print(p.stdout.strip()[-600:], p.stderr.strip()[-300:])
