#!/venv/bin/python
"""tools/keepseed.py <seed-dir> [checks...] : confirm (demo clean/patched, suite with patch, checks) and file under /verif/seeded/<name>/"""
import json, os, shutil, subprocess, sys
d = os.path.abspath(sys.argv[1]); name = os.path.basename(d.rstrip("/"))
checks = sys.argv[2:]
out = subprocess.run(["/verif/tools/tryseed.py", d, *checks, "--suite"], capture_output=True, text=True).stdout
try:
    res = json.loads(out)
except Exception:
    print("tryseed failed:", out[-2000:]); sys.exit(1)
dst = f"/verif/seeded/{name}"
os.makedirs(dst, exist_ok=True)
for f in ("patch.diff", "demo.py"):
    if os.path.abspath(d) != os.path.abspath(dst):
        shutil.copy(os.path.join(d, f), os.path.join(dst, f))
meta = json.load(open(os.path.join(d, "meta.json")))
meta["confirmed"] = {k: v for k, v in res.items() if k.startswith("demo") or k == "suite"}
meta["checks_run"] = {k[6:]: v for k, v in res.items() if k.startswith("check_")}
meta["what_i_ran"] = "tools/tryseed.py <dir> --suite : scratch worktree of /repo under /tmp, demo.py on clean tree and with patch.diff applied, full pytest suite with the patch, then ./vcheck <id> quick with VERIF_REPO=<worktree>; worktree removed afterwards"
json.dump(meta, open(os.path.join(dst, "meta.json"), "w"), indent=1)
caught = {k: (v["exit"] == 1 and v["violation_lines"] > 0) for k, v in meta["checks_run"].items()}
print(name, res.get("demo_clean"), res.get("demo_patched"), "| suite:", res.get("suite"), "| caught:", caught)
