#!/bin/sh
# tools/merge_slice.sh <agent-work-dir>   — copy files that are new or changed in a builder's private copy,
# except shared files, whose diffs are only shown.
W="$1/verif"
cd /verif || exit 2
SHARED="lean/Driver.lean lean/MenelausVerif.lean harness/core.py harness/main.py known-findings.txt BUILDING.md DESIGN.md MANIFEST.json harness/mkmanifest.py .gitignore vcheck harness/impl/zoo.py"
(cd "$W" && find . -type f -not -path './lean/.lake/*' -not -path './replays/*' -not -path './evidence/*' -not -name '*.pyc' -not -path '*/__pycache__/*' | sed 's|^\./||') | while read f; do
  skip=0; for s in $SHARED; do [ "$f" = "$s" ] && skip=1; done
  if [ $skip = 1 ]; then
    if ! cmp -s "$W/$f" "/verif/$f"; then echo "== SHARED differs: $f"; fi
    continue
  fi
  if [ ! -e "/verif/$f" ]; then mkdir -p "$(dirname "/verif/$f")"; cp "$W/$f" "/verif/$f"; echo "new: $f";
  elif ! cmp -s "$W/$f" "/verif/$f"; then echo "== EXISTING differs (not copied): $f"; fi
done
