#!/venv/bin/python
"""tools/merge_registry.py <builder-dir> <Cxx> [...] : union the builder copy's lean/theorems/<Cxx>.json into /verif's and
append the builder's extra import lines of lean/MenelausVerif.lean"""
import json, sys
w = sys.argv[1].rstrip("/") + "/verif"
for c in sys.argv[2:]:
    a = json.load(open(f"/verif/lean/theorems/{c}.json")); b = json.load(open(f"{w}/lean/theorems/{c}.json"))
    for k in ("modules", "theorems"):
        for x in b[k]:
            if x not in a[k]:
                a[k].append(x)
    json.dump(a, open(f"/verif/lean/theorems/{c}.json", "w"), indent=1)
    print(c, len(a["theorems"]), "theorems", a["modules"])
mine = open("/verif/lean/MenelausVerif.lean").read()
for line in open(f"{w}/lean/MenelausVerif.lean"):
    if line.startswith("import ") and line not in mine:
        mine += line if mine.endswith("\n") else "\n" + line
        print("added", line.strip())
open("/verif/lean/MenelausVerif.lean", "w").write(mine)
