#!/venv/bin/python
"""
tools/mutate.py — systematic small mutations of the anchored source files, to measure which of them the
property checks detect (complements the hand-written seeded changes under seeded/).

  tools/mutate.py list  <repo-relative file> [...]          # enumerate mutants
  tools/mutate.py run   --out <jsonl> [--jobs N] [--sample K] [--seed S] [--checks-only] <file> [...]

A mutant is one textual edit derived from the AST (comparison strictness / direction, +/- swap, integer
constant +-1, and/or swap, `not` removal, deletion of a `self.x = ...` statement).  For each mutant a private
copy of /repo's working tree (without .git) is made under /tmp/mut/, the edit is applied, and
  1. the existing test suite is run on it (-x, the module's own tests first); mutants the suite kills are not
     "realistic changes that pass the tests" and are only counted;
  2. the quick checks of the properties anchored in that file are run against the copy (VERIF_REPO), the
     property most specific to the file first; the first check that prints a VIOLATION line ends the mutant.
Survivors (suite passes, no check alarms) are either equivalent mutants or gaps in the checks; they are
triaged by hand (see DESIGN.md §12).  Nothing here decides a property; it measures detection power.
"""
import ast, json, os, random, shutil, subprocess, sys, time, hashlib
from concurrent.futures import ThreadPoolExecutor

REPO = "/repo"
VERIF = os.path.dirname(os.path.dirname(os.path.abspath(__file__)))
CMP = {ast.Lt: "<", ast.LtE: "<=", ast.Gt: ">", ast.GtE: ">=", ast.Eq: "==", ast.NotEq: "!="}
CMP_MUT = {"<": ["<=", ">"], "<=": ["<"], ">": [">=", "<"], ">=": [">"], "==": ["!="], "!=": ["=="]}

# file -> checks to try, most specific first (from properties.jsonl anchors, ordered by hand)
PRIMARY = {
    "menelaus/change_detection/adwin.py": ["C03", "C01", "C17"],
    "menelaus/concept_drift/adwin_accuracy.py": ["C03", "C16", "C01"],
    "menelaus/change_detection/cusum.py": ["C04", "C02", "C01", "C17", "C14"],
    "menelaus/change_detection/page_hinkley.py": ["C04", "C02", "C01", "C11"],
    "menelaus/concept_drift/ddm.py": ["C05", "C02", "C01", "C16", "C17"],
    "menelaus/concept_drift/eddm.py": ["C05", "C02", "C01", "C16", "C17"],
    "menelaus/concept_drift/stepd.py": ["C05", "C02", "C01", "C16", "C17"],
    "menelaus/concept_drift/lfr.py": ["C06", "C01", "C16", "C17"],
    "menelaus/concept_drift/md3.py": ["C19", "C01", "C15"],
    "menelaus/data_drift/histogram_density_method.py": ["C07", "C02", "C01", "C18", "C17", "C14"],
    "menelaus/data_drift/hdddm.py": ["C07", "C14"],
    "menelaus/data_drift/cdbd.py": ["C07", "C14"],
    "menelaus/data_drift/kdq_tree.py": ["C09", "C02", "C01", "C18", "C17"],
    "menelaus/partitioners/KDQTreePartitioner.py": ["C08", "C09", "C18"],
    "menelaus/partitioners/NNSpacePartitioner.py": ["C10", "C18"],
    "menelaus/data_drift/nndvi.py": ["C10", "C02", "C01", "C18", "C17"],
    "menelaus/data_drift/pca_cd.py": ["C11", "C01"],
    "menelaus/ensemble/ensemble.py": ["C12"],
    "menelaus/ensemble/election.py": ["C13", "C12"],
    "menelaus/detector.py": ["C14", "C15", "C01"],
    "menelaus/injection/feature_manipulation.py": ["C20", "C15"],
    "menelaus/injection/label_manipulation.py": ["C20", "C15"],
    "menelaus/injection/noise.py": ["C20", "C15"],
    "menelaus/injection/injector.py": ["C20", "C15"],
}


def enumerate_mutants(rel):
    src = open(os.path.join(REPO, rel)).read()
    lines = src.split("\n")
    tree = ast.parse(src)
    muts = []

    def seg(node):
        return (node.lineno, node.col_offset, node.end_lineno, node.end_col_offset)

    def text_between(a_end, b_start):
        (l1, c1), (l2, c2) = a_end, b_start
        if l1 != l2:
            return None
        return lines[l1 - 1][c1:c2]

    docstrings = set()
    for n in ast.walk(tree):
        if isinstance(n, (ast.FunctionDef, ast.ClassDef, ast.Module)) and n.body and isinstance(n.body[0], ast.Expr) \
                and isinstance(getattr(n.body[0], "value", None), ast.Constant) and isinstance(n.body[0].value.value, str):
            docstrings.add(id(n.body[0].value))

    for n in ast.walk(tree):   # parameter defaults are configuration, not logic: not mutated
        if isinstance(n, ast.arguments):
            for d in list(n.defaults) + [k for k in n.kw_defaults if k is not None]:
                for sub in ast.walk(d):
                    docstrings.add(id(sub))

    for n in ast.walk(tree):
        if isinstance(n, ast.Compare) and len(n.ops) == 1 and type(n.ops[0]) in CMP:
            left, right = n.left, n.comparators[0]
            t = text_between((left.end_lineno, left.end_col_offset), (right.lineno, right.col_offset))
            op = CMP[type(n.ops[0])]
            if t is None or op not in t:
                continue
            if isinstance(right, ast.Constant) and right.value is None:
                continue
            for new in CMP_MUT[op]:
                muts.append({"line": left.end_lineno, "col": left.end_col_offset, "old": t, "new": t.replace(op, new, 1),
                             "op": f"cmp {op} -> {new}"})
        elif isinstance(n, ast.BinOp) and isinstance(n.op, (ast.Add, ast.Sub)):
            t = text_between((n.left.end_lineno, n.left.end_col_offset), (n.right.lineno, n.right.col_offset))
            o = "+" if isinstance(n.op, ast.Add) else "-"
            if t is None or t.count(o) != 1:
                continue
            if isinstance(n.left, ast.Constant) and isinstance(n.left.value, str):
                continue
            muts.append({"line": n.left.end_lineno, "col": n.left.end_col_offset, "old": t,
                         "new": t.replace(o, "-" if o == "+" else "+"), "op": f"arith {o} -> {'-' if o == '+' else '+'}"})
        elif isinstance(n, ast.BoolOp):
            a, b = n.values[0], n.values[1]
            t = text_between((a.end_lineno, a.end_col_offset), (b.lineno, b.col_offset))
            o = "and" if isinstance(n.op, ast.And) else "or"
            if t is None or t.count(o) != 1:
                continue
            muts.append({"line": a.end_lineno, "col": a.end_col_offset, "old": t,
                         "new": t.replace(o, "or" if o == "and" else "and"), "op": f"bool {o} -> {'or' if o == 'and' else 'and'}"})
        elif isinstance(n, ast.Constant) and isinstance(n.value, int) and not isinstance(n.value, bool) \
                and id(n) not in docstrings and n.lineno == n.end_lineno and 0 <= n.value <= 3:
            t = lines[n.lineno - 1][n.col_offset:n.end_col_offset]
            if t != str(n.value):
                continue
            for new in ([n.value + 1] + ([n.value - 1] if n.value > 0 else [])):
                muts.append({"line": n.lineno, "col": n.col_offset, "old": t, "new": str(new), "op": f"const {n.value} -> {new}"})
        elif isinstance(n, ast.UnaryOp) and isinstance(n.op, ast.Not) and n.lineno == n.operand.lineno:
            t = lines[n.lineno - 1][n.col_offset:n.operand.col_offset]
            if t.strip() == "not":
                muts.append({"line": n.lineno, "col": n.col_offset, "old": t, "new": "", "op": "drop not"})
        elif isinstance(n, (ast.Assign, ast.AugAssign)) and n.lineno == n.end_lineno:
            tg = n.targets[0] if isinstance(n, ast.Assign) else n.target
            if isinstance(tg, ast.Attribute) and isinstance(tg.value, ast.Name) and tg.value.id == "self":
                t = lines[n.lineno - 1][n.col_offset:n.end_col_offset]
                muts.append({"line": n.lineno, "col": n.col_offset, "old": t, "new": "pass", "op": f"delete `{t[:50]}`"})
    # de-duplicate, stable ids
    seen, out = set(), []
    for m in sorted(muts, key=lambda m: (m["line"], m["col"], m["op"])):
        key = (m["line"], m["col"], m["new"])
        if key in seen:
            continue
        seen.add(key)
        m["file"] = rel
        m["id"] = hashlib.sha1(f"{rel}:{m['line']}:{m['col']}:{m['op']}".encode()).hexdigest()[:10]
        m["source_line"] = lines[m["line"] - 1].strip()[:160]
        out.append(m)
    return out


def apply(m, root):
    p = os.path.join(root, m["file"])
    lines = open(p).read().split("\n")
    l = lines[m["line"] - 1]
    assert l[m["col"]:m["col"] + len(m["old"])] == m["old"], (m, l)
    lines[m["line"] - 1] = l[:m["col"]] + m["new"] + l[m["col"] + len(m["old"]):]
    open(p, "w").write("\n".join(lines))


def sh(cmd, cwd=None, env=None, timeout=1800):
    try:
        p = subprocess.run(cmd, shell=True, cwd=cwd, env=env, capture_output=True, text=True, timeout=timeout)
        return p.returncode, p.stdout + p.stderr
    except subprocess.TimeoutExpired:
        return 124, "timeout"


def related_tests(rel):
    base = os.path.basename(rel)[:-3].lower()
    alias = {"kdqtreepartitioner": "kdqtree_partitioner", "nnspacepartitioner": "nn_space_partitioner"}
    base = alias.get(base, base)
    hits = []
    for dp, _, fs in os.walk(os.path.join(REPO, "tests")):
        for f in fs:
            if f.startswith("test_") and base in f.lower():
                hits.append(os.path.relpath(os.path.join(dp, f), REPO))
    return hits


def run_one(m, args, slot):
    root = f"/tmp/mut/w{slot}_{m['id']}"
    res = dict(m)
    t0 = time.time()
    try:
        shutil.rmtree(root, ignore_errors=True)
        os.makedirs("/tmp/mut", exist_ok=True)
        sh(f"rsync -a --exclude .git --exclude htmlcov --exclude docs --exclude '*.pyc' --exclude __pycache__ {REPO}/ {root}/")
        apply(m, root)
        rc, out = sh(f"/venv/bin/python -c 'import ast,sys; ast.parse(open(sys.argv[1]).read())' {m['file']}", cwd=root)
        if rc != 0:
            res["outcome"] = "does-not-parse"; return res
        env = dict(os.environ, PYTHONPATH=root)
        if not args.checks_only:
            rel_tests = " ".join(related_tests(m["file"]))
            desel = ("--deselect tests/menelaus/utils/test_utils.py::test_find_root_dir "
                     "--deselect tests/menelaus/partitioners/test_nn_space_partitioner.py::test_nnsp_compute_nnps_distance_1")
            if rel_tests:
                rc, out = sh(f"/venv/bin/python -m pytest -x -q -p no:cacheprovider --no-cov {desel} {rel_tests} 2>&1 | tail -5", cwd=root, env=env)
                if " failed" in out or " error" in out or rc != 0 and "passed" not in out:
                    res["outcome"] = "killed-by-suite"; res["suite"] = out.strip().splitlines()[-1][:160] if out.strip() else ""; return res
            rc, out = sh(f"/venv/bin/python -m pytest -x -q -p no:cacheprovider --no-cov {desel} 2>&1 | tail -5", cwd=root, env=env)
            last = out.strip().splitlines()[-1][:160] if out.strip() else ""
            res["suite"] = last
            if " failed" in out or " error" in out or "passed" not in out:
                res["outcome"] = "killed-by-suite"; return res
        res["checks"] = {}
        for c in (args.checks or PRIMARY.get(m["file"], [])):
            env = dict(os.environ, VERIF_REPO=root, VERIF_OUT=root + "_out")
            rc, out = sh(f"./vcheck {c} quick", cwd=VERIF, env=env, timeout=1500)
            viol = [l for l in out.splitlines() if l.startswith("VIOLATION")]
            summ = [l for l in out.splitlines() if l.startswith("[" + c + "]")]
            res["checks"][c] = {"exit": rc, "violations": len(viol), "summary": summ[-1][:200] if summ else out[-300:]}
            if viol:
                res["outcome"] = "caught"; res["caught_by"] = c
                rp = viol[0].split("replay=")[1].split()[0]
                try:
                    rj = json.load(open(os.path.join(root + "_out", rp)))
                    res["replay_kind"] = rj.get("kind"); res["replay_what"] = str(rj.get("what", rj.get("clause", "")))[:200]
                except Exception:
                    pass
                return res
            if rc == 2:
                res.setdefault("infra", []).append(c)
        res["outcome"] = "SURVIVED"
        return res
    except Exception as e:
        res["outcome"] = "error"; res["error"] = repr(e)[:300]; return res
    finally:
        res["wall_s"] = round(time.time() - t0, 1)
        shutil.rmtree(root, ignore_errors=True); shutil.rmtree(root + "_out", ignore_errors=True)


def main():
    import argparse
    ap = argparse.ArgumentParser()
    ap.add_argument("cmd", choices=["list", "run"])
    ap.add_argument("files", nargs="+")
    ap.add_argument("--out"); ap.add_argument("--jobs", type=int, default=4)
    ap.add_argument("--sample", type=int, default=0); ap.add_argument("--seed", type=int, default=1)
    ap.add_argument("--checks-only", action="store_true"); ap.add_argument("--checks", nargs="*")
    ap.add_argument("--lines", help="only mutants on these lines, e.g. 100-140")
    args = ap.parse_args()
    muts = []
    for f in args.files:
        muts += enumerate_mutants(f)
    if args.lines:
        a, b = map(int, args.lines.split("-"))
        muts = [m for m in muts if a <= m["line"] <= b]
    if args.cmd == "list":
        for m in muts:
            print(m["id"], m["file"], m["line"], m["op"], "|", m["source_line"])
        print(len(muts), "mutants"); return
    done = set()
    if args.out and os.path.exists(args.out):
        for l in open(args.out):
            try: done.add(json.loads(l)["id"])
            except Exception: pass
    muts = [m for m in muts if m["id"] not in done]
    if args.sample and len(muts) > args.sample:
        random.Random(args.seed).shuffle(muts); muts = muts[:args.sample]
    print(len(muts), "mutants to run", flush=True)
    slots = list(range(args.jobs))
    import threading
    lock = threading.Lock()

    def work(m):
        with lock:
            s = slots.pop()
        try:
            r = run_one(m, args, s)
        finally:
            with lock:
                slots.append(s)
        with lock:
            with open(args.out, "a") as f:
                f.write(json.dumps(r) + "\n")
            print(r["outcome"], r.get("caught_by", ""), r["file"], r["line"], r["op"], f"{r.get('wall_s')}s", flush=True)

    with ThreadPoolExecutor(max_workers=args.jobs) as ex:
        list(ex.map(work, muts))


if __name__ == "__main__":
    main()
