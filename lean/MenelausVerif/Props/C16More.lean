/-
  C16, continued — the two detectors `Props/C16.lean` left to an *abstract* step function, now
  for their Lean models:

  * **ADWINAccuracy** (`Model/Adwin.lean`, namespace `MV.AdwinAcc`): `AdwinAcc.step c s (y_true, y_pred)`
    takes labels of an arbitrary type with decidable equality (Python: `int(y_true == y_pred)`,
    `adwin_accuracy.py:89`).  `adwinAcc_step_eq` shows that it *is* `C16.labelStep` of a step function
    of the error bit, so `C16.trace_depends_on_agreement` applies: `adwinAcc_agreement` — two label-pair
    histories, over possibly different label types, with equal agreement bits give equal traces of
    complete states, for every configuration and from every starting state; `adwinAcc_relabel` — the
    special case of an injective re-encoding; `adwinAcc_agreement_beq` — the agreement bits computed
    with a lawful `==` instead of `decide (· = ·)`; `adwinAcc_trace_last` — the last state of the trace
    is `AdwinAcc.run` (= `Adwin.run` on the indicators, `C03.adwinAcc_eq_adwin`).
  * **LinearFourRates** (`Model/LFR.lean`): `LFR.step c s y_true y_pred blocks` takes the two 0/1 labels
    (as `Bool`s) and the Monte-Carlo draws its simulations consume.  `cell_only_with` generalises
    `C16.cell_only` to a step with a further input that is passed through unchanged (the draws);
    `lfr_cell_only` — two histories in any two encodings of the 0/1 labels that decode to the same
    confusion cells `(y_pred, y_true)` (and consume the same draws) give equal traces of complete
    states, for every configuration and starting state; `lfr_cell_only_same_draws` — the version
    with the label pairs and the draws given as two parallel lists (this one *is* an instance of
    `C16.cell_only`, the queue of draws being part of the state); `lfr_trace_last` — the last state is
    `LFR.run` on the decoded operations.  `lfr_agreement_not_enough`: for LFR the agreement bit alone
    does *not* determine the trace (a true negative and a true positive agree, but count in
    different cells) — the property text says "cell", not "agreement", for a reason.

  All statements hold for every carrier (no arithmetic law), hence for the executed `Float` instances.
  Nothing is `_partial`.
-/
import MenelausVerif.Props.C16
import MenelausVerif.Model.Adwin
import MenelausVerif.Model.LFR
namespace MV.C16
open MV

/-! ### generic: the last state of a trace -/

/-- the last state of the trace of a non-empty history is the fold of the step over it -/
theorem trace_getLast {σ ι : Type} (step : σ → ι → σ) (s : σ) (xs : List ι) (h : xs ≠ []) :
    (trace step s xs).getLast? = some (xs.foldl step s) := by
  induction xs generalizing s with
  | nil => exact absurd rfl h
  | cons x xs ih =>
    cases xs with
    | nil => simp [trace]
    | cons y ys =>
      have := ih (step s x) (by simp)
      simp only [trace, List.getLast?_cons_cons, List.foldl_cons] at this ⊢
      exact this

theorem trace_length {σ ι : Type} (step : σ → ι → σ) (s : σ) (xs : List ι) :
    (trace step s xs).length = xs.length := by
  induction xs generalizing s with
  | nil => rfl
  | cons x xs ih => simp [trace, ih]

/-- with a lawful `==` the agreement bit is `y_true == y_pred` -/
theorem agree_eq_beq {L : Type} [DecidableEq L] [BEq L] [LawfulBEq L] (p : L × L) :
    agree p = (p.1 == p.2) := by
  unfold agree
  by_cases h : p.1 = p.2
  · simp [h]
  · have : (p.1 == p.2) = false := by
      cases hb : (p.1 == p.2) with
      | false => rfl
      | true => exact absurd (eq_of_beq hb) h
    simp [h, this]

/-! ### ADWINAccuracy -/
section AdwinAcc
variable {α : Type} [Add α] [Sub α] [Mul α] [Div α] [Neg α] [LT α] [DecidableLT α]
  [NatCast α] [HasSqrt α] [HasLogExp α]

/-- ADWIN fed the accuracy indicator of an *error bit*: `1` for a correct prediction, `0` for an error -/
def adwinErrStep (c : Adwin.Cfg α) (s : Adwin.State α) (err : Bool) : Adwin.State α :=
  Adwin.step c s (if err then ((0 : Nat) : α) else ((1 : Nat) : α))

omit [Add α] [Sub α] [Mul α] [Div α] [Neg α] [LT α] [DecidableLT α] [HasSqrt α] [HasLogExp α] in
/-- the indicator `int(y_true == y_pred)` depends on the pair only through the agreement bit -/
theorem indicator_eq {L : Type} [DecidableEq L] (p : L × L) :
    (AdwinAcc.indicator p.1 p.2 : α) = if agree p then ((1 : Nat) : α) else ((0 : Nat) : α) := by
  unfold AdwinAcc.indicator agree
  by_cases h : p.1 = p.2 <;> simp [h]

/-- **the ADWINAccuracy model has the shape C16 is about**: its update is a step function of the
    error bit, applied to the pair's disagreement -/
theorem adwinAcc_step_eq {L : Type} [DecidableEq L] (c : Adwin.Cfg α) :
    (AdwinAcc.step c : Adwin.State α → L × L → Adwin.State α) = labelStep (adwinErrStep c) := by
  funext s p
  unfold AdwinAcc.step labelStep adwinErrStep
  rw [indicator_eq]
  cases agree p <;> rfl

/-- **ADWINAccuracy: only agreement matters.**  For every configuration and every starting state, two
    histories of `(y_true, y_pred)` pairs — over any two label types: ints, strings, booleans, floats,
    three and more classes — with the same agreement bits give the same trace of *complete* detector
    states (window buckets, totals, variance, width, `drift_state`, `retraining_recs`, counters after
    every update). -/
theorem adwinAcc_agreement {L L' : Type} [DecidableEq L] [DecidableEq L'] (c : Adwin.Cfg α)
    (s : Adwin.State α) (ps : List (L × L)) (qs : List (L' × L')) (h : ps.map agree = qs.map agree) :
    trace (AdwinAcc.step c) s ps = trace (AdwinAcc.step c) s qs := by
  rw [adwinAcc_step_eq, adwinAcc_step_eq]
  exact trace_depends_on_agreement _ s ps qs h

/-- … in particular under any injective re-encoding of the labels -/
theorem adwinAcc_relabel {L L' : Type} [DecidableEq L] [DecidableEq L'] (c : Adwin.Cfg α)
    (s : Adwin.State α) (f : L → L') (hf : ∀ a b, f a = f b → a = b) (ps : List (L × L)) :
    trace (AdwinAcc.step c) s (ps.map (fun p => (f p.1, f p.2))) = trace (AdwinAcc.step c) s ps := by
  rw [adwinAcc_step_eq, adwinAcc_step_eq]
  exact injective_relabel _ s f hf ps

/-- the same with the agreement bits computed by `==` (Python's `y_true == y_pred`), for label types
    whose `==` is lawful -/
theorem adwinAcc_agreement_beq {L L' : Type} [DecidableEq L] [DecidableEq L'] [BEq L] [LawfulBEq L]
    [BEq L'] [LawfulBEq L'] (c : Adwin.Cfg α) (s : Adwin.State α) (ps : List (L × L)) (qs : List (L' × L'))
    (h : ps.map (fun p => p.1 == p.2) = qs.map (fun p => p.1 == p.2)) :
    trace (AdwinAcc.step c) s ps = trace (AdwinAcc.step c) s qs := by
  apply adwinAcc_agreement
  have e1 : ps.map agree = ps.map (fun p => p.1 == p.2) := List.map_congr_left (fun p _ => agree_eq_beq p)
  have e2 : qs.map agree = qs.map (fun p => p.1 == p.2) := List.map_congr_left (fun p _ => agree_eq_beq p)
  rw [e1, e2, h]

/-- the last state of the labelled trace is the model's `AdwinAcc.run` (the object of C03) -/
theorem adwinAcc_trace_last {L : Type} [DecidableEq L] (c : Adwin.Cfg α) (ps : List (L × L)) (h : ps ≠ []) :
    (trace (AdwinAcc.step c) Adwin.init ps).getLast? = some (AdwinAcc.run c ps) :=
  trace_getLast _ _ ps h

/-- … which is ADWIN run on the agreement indicators, a function of the agreement bits alone -/
theorem adwinAcc_trace_last_adwin {L : Type} [DecidableEq L] (c : Adwin.Cfg α) (ps : List (L × L)) (h : ps ≠ []) :
    (trace (AdwinAcc.step c) Adwin.init ps).getLast? =
      some (Adwin.run c ((ps.map agree).map (fun b => if b then ((1 : Nat) : α) else ((0 : Nat) : α)))) := by
  rw [trace_getLast _ _ ps h]
  congr 1
  unfold Adwin.run
  rw [List.map_map, List.foldl_map]
  congr 1
  funext s p
  unfold AdwinAcc.step
  rw [indicator_eq]
  rfl

end AdwinAcc

/-! ### LinearFourRates -/

/-- a detector that is handed 0/1 labels in some encoding together with a further input `ξ` (LFR: the
    Monte-Carlo draws of this update) and passes the confusion-matrix cell `(y_pred, y_true)` and that
    input to its step -/
def cellStepWith {σ L ξ : Type} (bit : L → Bool) (step : σ → (Bool × Bool) × ξ → σ) (s : σ)
    (x : (L × L) × ξ) : σ :=
  step s ((bit x.1.2, bit x.1.1), x.2)

/-- `C16.cell_only` for a step with a further input: histories that decode to the same cells and
    carry the same further inputs give the same trace -/
theorem cell_only_with {σ L L' ξ : Type} (bit : L → Bool) (bit' : L' → Bool)
    (step : σ → (Bool × Bool) × ξ → σ) (s : σ) (ps : List ((L × L) × ξ)) (qs : List ((L' × L') × ξ))
    (h : ps.map (fun x => ((bit x.1.2, bit x.1.1), x.2)) = qs.map (fun x => ((bit' x.1.2, bit' x.1.1), x.2))) :
    trace (cellStepWith bit step) s ps = trace (cellStepWith bit' step) s qs := by
  unfold cellStepWith
  rw [trace_map step (fun x : (L × L) × ξ => ((bit x.1.2, bit x.1.1), x.2)),
      trace_map step (fun x : (L' × L') × ξ => ((bit' x.1.2, bit' x.1.1), x.2)), h]

section LFR
variable {α : Type} [Add α] [Sub α] [Mul α] [Div α] [LT α] [DecidableLT α] [LE α] [DecidableLE α]
  [NatCast α] [BEq α] [LFR.HasRound α]

/-- the LFR model as a step function of the cell `(y_pred, y_true)` and the draws -/
def lfrCellStep (c : LFR.Cfg α) (s : LFR.State α) (x : (Bool × Bool) × List LFR.Block) : LFR.State α :=
  LFR.step c s x.1.2 x.1.1 x.2

/-- `LinearFourRates.update(y_true, y_pred)` on labels in an encoding `bit` (which of the two values is
    class 1), with the draws of this update -/
def lfrLabelStep {L : Type} (bit : L → Bool) (c : LFR.Cfg α) (s : LFR.State α)
    (x : (L × L) × List LFR.Block) : LFR.State α :=
  LFR.step c s (bit x.1.1) (bit x.1.2) x.2

/-- **the LFR model has the shape C16 is about**: its update is a step function of the confusion cell
    (and of the draws) -/
theorem lfrLabelStep_eq {L : Type} (bit : L → Bool) (c : LFR.Cfg α) :
    lfrLabelStep bit c = cellStepWith bit (lfrCellStep c) := rfl

/-- **LinearFourRates: only the cell matters.**  For every configuration and every starting state,
    two histories in any two encodings of the 0/1 labels whose pairs decode to the same confusion
    cells `(y_pred, y_true)`, with the same Monte-Carlo draws, give the same trace of complete
    detector states (confusion matrix, the four `P` and `R` statistics, bounds cache, `drift_state`,
    `retraining_recs`, counters, `all_drift_states` after every update). -/
theorem lfr_cell_only {L L' : Type} (bit : L → Bool) (bit' : L' → Bool) (c : LFR.Cfg α) (s : LFR.State α)
    (ps : List ((L × L) × List LFR.Block)) (qs : List ((L' × L') × List LFR.Block))
    (h : ps.map (fun x => ((bit x.1.2, bit x.1.1), x.2)) = qs.map (fun x => ((bit' x.1.2, bit' x.1.1), x.2))) :
    trace (lfrLabelStep bit c) s ps = trace (lfrLabelStep bit' c) s qs := by
  rw [lfrLabelStep_eq, lfrLabelStep_eq]
  exact cell_only_with bit bit' (lfrCellStep c) s ps qs h

/-- the LFR model paired with the queue of draws of the updates to come: a step function of the cell
    alone, i.e. literally the shape of `C16.cellStep` (an exhausted queue supplies no draws) -/
def lfrQueueStep (c : LFR.Cfg α) (sd : LFR.State α × List (List LFR.Block)) (cell : Bool × Bool) :
    LFR.State α × List (List LFR.Block) :=
  (LFR.step c sd.1 cell.2 cell.1 (sd.2.headD []), sd.2.tail)

/-- **instance of `C16.cell_only`**: label pairs and draws given as two lists — the same draws `ds`
    on both sides, label histories that decode to the same cells — give the same trace of (state,
    remaining draws) -/
theorem lfr_cell_only_same_draws {L L' : Type} (bit : L → Bool) (bit' : L' → Bool) (c : LFR.Cfg α)
    (s : LFR.State α) (ds : List (List LFR.Block)) (ps : List (L × L)) (qs : List (L' × L'))
    (h : ps.map (fun p => (bit p.2, bit p.1)) = qs.map (fun p => (bit' p.2, bit' p.1))) :
    trace (cellStep bit (lfrQueueStep c)) (s, ds) ps = trace (cellStep bit' (lfrQueueStep c)) (s, ds) qs :=
  cell_only bit bit' (lfrQueueStep c) (s, ds) ps qs h

/-- the queue formulation runs the same updates as the paired formulation -/
theorem lfrQueue_trace {L : Type} (bit : L → Bool) (c : LFR.Cfg α) (s : LFR.State α)
    (ps : List ((L × L) × List LFR.Block)) :
    (trace (cellStep bit (lfrQueueStep c)) (s, ps.map Prod.snd) (ps.map Prod.fst)).map Prod.fst =
      trace (lfrLabelStep bit c) s ps := by
  induction ps generalizing s with
  | nil => rfl
  | cons x xs ih =>
    simp only [List.map_cons, trace, cellStep, lfrQueueStep, List.headD_cons, List.tail_cons]
    rw [ih]
    rfl

/-- the last state of the labelled trace is the model's `LFR.run` on the decoded operations (the
    object of C06) -/
theorem lfr_trace_last {L : Type} (bit : L → Bool) (c : LFR.Cfg α) (ps : List ((L × L) × List LFR.Block))
    (h : ps ≠ []) :
    (trace (lfrLabelStep bit c) LFR.init ps).getLast? =
      some (LFR.run c (ps.map (fun x => ⟨bit x.1.1, bit x.1.2, x.2⟩))) := by
  rw [trace_getLast _ _ ps h]
  unfold LFR.run
  rw [List.foldl_map]
  rfl

end LFR

/-! ### non-vacuity -/
section Examples

/-- hypotheses of `adwinAcc_agreement`: strings vs. three integer classes, same agreement pattern,
    different label types and different disagreeing values -/
example : ([("cat", "cat"), ("cat", "dog"), ("dog", "dog"), ("dog", "cat")].map agree)
    = ([((2 : Nat), 2), (0, 1), (1, 1), (2, 0)].map agree) := by decide

/-- hypotheses of `lfr_cell_only`: booleans vs. the strings "1"/"0" (decoded by `· == "1"`), same
    cells and same draws -/
example :
    ([((true, true), [[[true, false]]]), ((false, true), ([] : List LFR.Block)), ((false, false), [])].map
        (fun x => (((id : Bool → Bool) x.1.2, (id : Bool → Bool) x.1.1), x.2)))
    = ([((("1", "1") : String × String), [[[true, false]]]), (("0", "1"), ([] : List LFR.Block)), (("0", "0"), [])].map
        (fun x => ((x.1.2 == "1", x.1.1 == "1"), x.2))) := by decide

/-- **for LFR agreement alone is not enough**: a correctly predicted negative and a correctly
    predicted positive have the same agreement bit but count in different cells, and the states differ
    (here: the confusion matrix after one update, at the toy carrier `Int`). -/
theorem lfr_agreement_not_enough :
    let _ : LFR.HasRound Int := ⟨Int.toNat, id⟩
    let c : LFR.Cfg Int := { eta := 1, warnLevel := 0, detectLevel := 0, burnIn := 5, numMc := 1, subsample := 1,
                             tracked := LFR.allRates, roundVal := 0 }
    agree ((0 : Nat), (0 : Nat)) = agree ((1 : Nat), (1 : Nat)) ∧
    ((trace (lfrLabelStep (· == 1) c) LFR.init [((0, 0), [])]).map (·.conf)) ≠
      ((trace (lfrLabelStep (· == 1) c) LFR.init [(((1 : Nat), (1 : Nat)), [])]).map (·.conf)) := by
  decide

end Examples
end MV.C16
