/-
  C03 — a manual `reset()` between updates (public API; `StreamingEnsemble.reset()` calls it on every
  member) does not touch ADWIN's window, its statistics or its check schedule.

  `reset_frame`: only `drift_state` and `retraining_recs` change; `reset_idem`; `step_reset`: the
  update after a manual reset is the update of the un-reset detector (the update clears a pending
  drift state itself), in particular the schedule guard `total_samples % new_sample_thresh = 0` is
  evaluated on the same `total_samples` — a reset never shifts the checks.
  Law-free: valid for every carrier, hence for the executed `Float` instance.
-/
import MenelausVerif.Model.Adwin
set_option linter.unusedSectionVars false
namespace MV.Adwin
open MV

variable {α : Type} [Add α] [Sub α] [Mul α] [Div α] [Neg α] [LT α] [DecidableLT α]
  [NatCast α] [HasSqrt α] [HasLogExp α]

theorem reset_frame (s : State α) :
    (reset s).rows = s.rows ∧ (reset s).W = s.W ∧ (reset s).total = s.total ∧ (reset s).sum = s.sum ∧
    (reset s).var = s.var ∧ (reset s).drift = .none ∧ (reset s).recs = Recs.empty := by
  simp [reset]

theorem reset_idem (s : State α) : reset (reset s) = reset s := by simp [reset]

/-- the update that follows a manual reset is the update the detector would have made anyway -/
theorem step_reset (c : Cfg α) (s : State α) (x : α) (h : s.recs = Recs.empty ∨ s.drift ≠ .none) :
    step c (reset s) x = step c s x := by
  unfold step
  by_cases hd : s.drift = .none
  · have hr : s.recs = Recs.empty := by rcases h with h | h; exact h; exact absurd hd h
    have : reset s = s := by cases s; simp_all [reset]
    simp [this]
  · simp [reset, hd]

/-- the schedule guard after a manual reset is the guard before it -/
theorem scheduled_reset (c : Cfg α) (s : State α) : scheduled c (reset s) = scheduled c s := by
  simp [scheduled, reset]

end MV.Adwin
