/-
  C11 — PCA-CD scores each component on aligned supports and alarms via Page-Hinkley.

  Part 1 (every carrier, no arithmetic law — hence also the executed `Float` instance):
  lifecycle counters, silence until the windows are full, the score schedule,
  drift ⇔ Page-Hinkley alarm, the reference window after a drift, `online_scaling`.
  Part 2 (ordered fields): intersection divergence, aligned supports.
-/
import MenelausVerif.Model.PCACD
import Mathlib.Algebra.Order.Field.Basic
import Mathlib.Tactic.Ring
import Mathlib.Tactic.Linarith
import Mathlib.Tactic.FieldSimp
import Mathlib.Data.Rat.Floor
import Mathlib.Data.List.Induction
import Mathlib.Algebra.Order.BigOperators.Group.List
namespace MV.PCACD
open MV

section Structural
set_option linter.unusedSectionVars false
variable {X α : Type} [Add α] [Sub α] [Mul α] [Div α] [LT α] [DecidableLT α] [LE α] [DecidableLE α]
  [NatCast α] [IntCast α] [HasTrunc α]

/-- run from an arbitrary state -/
def runFrom (c : Cfg α) (s : State X α) (inputs : List (X × Oracle α)) : State X α :=
  inputs.foldl (fun s xo => step c s xo.1 xo.2) s

theorem run_eq (c : Cfg α) (inputs : List (X × Oracle α)) : run c inputs = runFrom c init inputs := rfl

theorem runFrom_append (c : Cfg α) (s : State X α) (a b : List (X × Oracle α)) :
    runFrom c s (a ++ b) = runFrom c (runFrom c s a) b := by
  simp [runFrom, List.foldl_append]

theorem run_append (c : Cfg α) (a b : List (X × Oracle α)) :
    run c (a ++ b) = runFrom c (run c a) b := by
  simp [run_eq, runFrom_append]

theorem runFrom_snoc (c : Cfg α) (s : State X α) (a : List (X × Oracle α)) (xo : X × Oracle α) :
    runFrom c s (a ++ [xo]) = step c (runFrom c s a) xo.1 xo.2 := by
  simp [runFrom, List.foldl_append]

/-! ### one update -/

/-- `total_samples` counts every update -/
theorem step_total (c : Cfg α) (s : State X α) (x : X) (o : Oracle α) :
    (step c s x o).total = s.total + 1 := by
  grind [step, fill, build, slide]

/-- `samples_since_reset`: restarts at 0 on the update that follows a drift (that sample is
    discarded and not counted), otherwise counts the update -/
theorem step_since (c : Cfg α) (s : State X α) (x : X) (o : Oracle α) :
    (step c s x o).since = if s.building = true ∧ s.drift ≠ .none then 0 else s.since + 1 := by
  grind [step, fill, build, slide]


/-! ### the invariant of reachable states -/

/-- what holds in every state reachable from `init` when `window_size ≥ 1` -/
structure Inv (c : Cfg α) (s : State X α) : Prop where
  notWarning : s.drift ≠ .warning
  phNone : s.drift = .none → s.ph.drift = .none
  sliding : s.building = false → s.drift = .none ∧ s.test.length = c.w ∧ s.ref.length = c.w
  filling : s.building = true → s.drift = .none →
    s.test.length < c.w ∧ s.ref.length ≤ c.w ∧ (s.ref.length < c.w → s.test = [])
  drifted : s.drift ≠ .none → s.building = true ∧ s.test.length = c.w ∧ s.ref.length = c.w

theorem inv_init (c : Cfg α) (hw : 0 < c.w) : Inv c (init : State X α) := by
  constructor <;> simp [init, PH.init]; omega

theorem inv_step (c : Cfg α) (hw : 0 < c.w) (s : State X α) (x : X) (o : Oracle α) (h : Inv c s) :
    Inv c (step c s x o) := by
  obtain ⟨h1, h2, h3, h4, h5⟩ := h
  constructor
  · grind [step, fill, build, slide]
  · grind [step, fill, build, slide, PH.reset]
  · grind [step, fill, build, slide]
  · grind [step, fill, build, slide]
  · grind [step, fill, build, slide]


theorem inv_runFrom (c : Cfg α) (hw : 0 < c.w) (inputs : List (X × Oracle α)) (s : State X α)
    (h : Inv c s) : Inv c (runFrom c s inputs) := by
  induction inputs generalizing s with
  | nil => exact h
  | cons xo rest ih => exact ih _ (inv_step c hw s xo.1 xo.2 h)

/-- every reachable state satisfies the invariant -/
theorem inv_run (c : Cfg α) (hw : 0 < c.w) (inputs : List (X × Oracle α)) :
    Inv c (run c inputs : State X α) :=
  inv_runFrom c hw inputs _ (inv_init c hw)

/-! ### schedule and decision of one update -/

/-- SCHEDULE: the score history is extended by exactly one value — the maximum over the
    components — on an update of the sliding phase with `(total_samples - 1) % step = 0`
    (`total_samples - 1 ≠ 0`), and is untouched by every other update. -/
theorem schedule (c : Cfg α) (s : State X α) (x : X) (o : Oracle α) :
    (step c s x o).scores =
      if s.building = false ∧ s.total % c.step = 0 ∧ s.total ≠ 0
      then s.scores ++ [score c s (slideProj c s o) o] else s.scores := by
  grind [step, fill, build, slide, scheduled]

/-- the embedded monitor sees exactly the scores: it is updated with the new score on a
    scheduled sliding update, reset on the update after a drift, and untouched otherwise -/
theorem monitor_fed (c : Cfg α) (s : State X α) (x : X) (o : Oracle α) :
    (step c s x o).ph =
      if s.building = false then
        (if s.total % c.step = 0 ∧ s.total ≠ 0
         then (PH.step c.ph s.ph (score c s (slideProj c s o) o)).1 else s.ph)
      else if s.drift ≠ .none then PH.reset s.ph else s.ph := by
  grind [step, fill, build, slide, scheduled]

/-- DRIFT ⇔ PAGE-HINKLEY ALARM: in a reachable state an update reports drift exactly when it
    is a scheduled update of the sliding phase and the embedded Page-Hinkley monitor, fed with
    the change score, alarms. -/
theorem drift_iff_ph_alarm (c : Cfg α) (s : State X α) (x : X) (o : Oracle α) (h : Inv c s) :
    (step c s x o).drift = .drift ↔
      (s.building = false ∧ (s.total % c.step = 0 ∧ s.total ≠ 0) ∧
        (PH.step c.ph s.ph (score c s (slideProj c s o) o)).1.drift = .drift) := by
  obtain ⟨h1, h2, h3, h4, h5⟩ := h
  grind [step, fill, build, slide, scheduled, PH.step, PH.core, PH.reset]

/-- with `burn_in = 0` (what `PCACD.__init__` passes) the monitor alarms iff its test
    `threshold * mean < sum - min` (direction "positive") holds for the updated statistics -/
theorem ph_alarm_iff_check (pc : PH.Cfg α) (hb : pc.burnIn = 0) (ph : PH.State α)
    (hph : ph.drift = .none) (v : α) :
    (PH.step pc ph v).1.drift = .drift ↔ (PH.step pc ph v).2.check = true := by
  grind [PH.step, PH.core, PH.reset]

/-- the drift state of the detector is only ever `None` or `"drift"`; a drift is followed by
    the fill phase -/
theorem drift_then_building (c : Cfg α) (hw : 0 < c.w) (inputs : List (X × Oracle α))
    (hd : (run c inputs : State X α).drift ≠ .none) :
    (run c inputs : State X α).drift = .drift ∧ (run c inputs : State X α).building = true := by
  have h := inv_run (X := X) c hw inputs
  generalize (run c inputs : State X α) = s at *
  obtain ⟨h1, h2, h3, h4, h5⟩ := h
  refine ⟨?_, (h5 hd).1⟩
  cases hs : s.drift <;> simp_all

/-! ### after a drift -/

/-- REFERENCE := FORMER TEST WINDOW.  The update that follows a drift discards its sample:
    the former test window becomes the reference window, the test window is emptied,
    `samples_since_reset` restarts at 0, the drift state is cleared, the monitor is reset;
    `total_samples` still counts the update and no score is computed. -/
theorem reference_is_former_test (c : Cfg α) (hw : 0 < c.w) (s : State X α) (x : X) (o : Oracle α)
    (h : Inv c s) (hd : s.drift = .drift) :
    let s' := step c s x o
    s'.ref = s.test ∧ s'.test = [] ∧ s'.since = 0 ∧ s'.drift = .none ∧ s'.ph = PH.reset s.ph ∧
    s'.total = s.total + 1 ∧ s'.scores = s.scores ∧ s'.building = true ∧ s'.numPcs = s.numPcs := by
  obtain ⟨h1, h2, h3, h4, h5⟩ := h
  grind [step, fill, build, slide]

/-- the reference window is frozen during the sliding phase -/
theorem ref_frozen_while_sliding (c : Cfg α) (s : State X α) (x : X) (o : Oracle α)
    (hb : s.building = false) : (step c s x o).ref = s.ref := by
  grind [step, slide]

/-- the sliding phase slides: oldest sample out, new sample in -/
theorem test_slides (c : Cfg α) (s : State X α) (x : X) (o : Oracle α)
    (hb : s.building = false) : (step c s x o).test = s.test.drop 1 ++ [x] := by
  grind [step, slide]

/-- `online_scaling` is not read by the state machine: with the same oracle inputs the detector
    behaves identically whether the flag is on or off (the flag only changes how the harness /
    the real code compute the projections that are fed in) -/
theorem scaling_flag_only_changes_inputs (c : Cfg α) (b : Bool) (inputs : List (X × Oracle α)) :
    run { c with scaling := b } inputs = run c inputs := by
  rfl


/-! ### silence until the windows are full — start of the stream -/

/-- explicit description of the state while the first `2 * window_size` samples arrive -/
structure Start (c : Cfg α) (xs : List X) (s : State X α) : Prop where
  total : s.total = xs.length
  since : s.since = xs.length
  drift : s.drift = .none
  scores : s.scores = [zero]
  ph : s.ph = PH.init
  ref : s.ref = xs.take c.w
  test : s.test = xs.drop c.w
  building : s.building = decide (xs.length < 2 * c.w)
  numPcs : xs.length < 2 * c.w → s.numPcs = none

theorem start_init (c : Cfg α) (hw : 0 < c.w) : Start c ([] : List X) (init : State X α) := by
  constructor <;> simp [init, hw]

theorem start_step (c : Cfg α) (hw : 0 < c.w) (xs : List X) (s : State X α) (x : X) (o : Oracle α)
    (h : Start c xs s) (hn : xs.length < 2 * c.w) : Start c (xs ++ [x]) (step c s x o) := by
  obtain ⟨h1, h2, h3, h4, h5, h6, h7, h8, h9⟩ := h
  have hb : s.building = true := by simp [h8, hn]
  have hrl : s.ref.length = min c.w xs.length := by simp [h6]
  have htl : s.test.length = xs.length - c.w := by simp [h7]
  by_cases hlt : xs.length < c.w
  · -- reference window still filling
    have t1 : xs.take c.w = xs := List.take_of_length_le (by omega)
    have e1 : (xs ++ [x]).take c.w = xs.take c.w ++ [x] := by
      rw [t1, List.take_of_length_le (by simp; omega)]
    have e2 : (xs ++ [x]).drop c.w = [] := by
      apply List.drop_eq_nil_of_le; simp; omega
    have e3 : xs.drop c.w = [] := List.drop_eq_nil_of_le (by omega)
    constructor <;> grind [step, fill, build, slide]
  · have e1 : (xs ++ [x]).take c.w = xs.take c.w := by
      rw [List.take_append_of_le_length (by omega)]
    have e2 : (xs ++ [x]).drop c.w = xs.drop c.w ++ [x] := by
      rw [List.drop_append_of_le_length (by omega)]
    constructor <;> grind [step, fill, build, slide]

/-- SILENT UNTIL FULL (start): while at most `2 * window_size` samples have been seen no drift
    is reported and no score has been computed; the first `window_size` samples are the
    reference window, the following ones the test window; `num_pcs` is still `None` before
    the `2 * window_size`-th sample and the sliding phase starts exactly with that sample. -/
theorem silent_until_full (c : Cfg α) (hw : 0 < c.w) (inputs : List (X × Oracle α))
    (hn : inputs.length ≤ 2 * c.w) : Start c (inputs.map Prod.fst) (run c inputs : State X α) := by
  induction inputs using List.reverseRecOn with
  | nil => exact start_init c hw
  | append_singleton l xo ih =>
    have hl : l.length < 2 * c.w := by simp at hn; omega
    have := start_step c hw _ _ xo.1 xo.2 (ih (by omega)) (by simpa using hl)
    simpa [run_eq, runFrom_snoc] using this

/-! ### silence until the windows are full — after a drift -/

/-- explicit description of the state during the `1 + window_size` updates that follow a
    drift reported in state `s0` (`ys` = the samples fed since, first one discarded) -/
structure After (c : Cfg α) (s0 : State X α) (ys : List X) (s : State X α) : Prop where
  total : s.total = s0.total + ys.length
  since : s.since + 1 = ys.length
  drift : s.drift = .none
  scores : s.scores = s0.scores
  ph : s.ph = PH.reset s0.ph
  ref : s.ref = s0.test
  test : s.test = ys.tail
  building : s.building = decide (ys.length < c.w + 1)

theorem after_first (c : Cfg α) (_hw : 0 < c.w) (s0 : State X α) (x : X) (o : Oracle α)
    (h : Inv c s0) (hd : s0.drift = .drift) : After c s0 [x] (step c s0 x o) := by
  obtain ⟨h1, h2, h3, h4, h5⟩ := h
  constructor <;> grind [step, fill, build, slide]

theorem after_step (c : Cfg α) (_hw : 0 < c.w) (s0 : State X α) (h0 : s0.test.length = c.w)
    (ys : List X) (s : State X α) (x : X) (o : Oracle α)
    (h : After c s0 ys s) (hne : ys ≠ []) (hn : ys.length < c.w + 1) :
    After c s0 (ys ++ [x]) (step c s x o) := by
  obtain ⟨h1, h2, h3, h4, h5, h6, h7, h8⟩ := h
  have hb : s.building = true := by simp [h8, hn]
  have htl : s.test.length = ys.length - 1 := by simp [h7]
  have hrl : s.ref.length = c.w := by rw [h6, h0]
  have e1 : (ys ++ [x]).tail = ys.tail ++ [x] := by
    cases ys with
    | nil => exact absurd rfl hne
    | cons y t => rfl
  have hpos : 0 < ys.length := by cases ys <;> simp_all
  constructor <;> grind [step, fill, build, slide]

/-- SILENT UNTIL FULL (after a drift): if state `s0` reports drift, then during the next
    `1 + window_size` updates no drift is reported, no score is computed, the reference window
    is the former test window, the monitor stays reset, `samples_since_reset` is the number of
    these updates minus one (the first sample is discarded), the test window holds the other
    samples, and the sliding phase resumes exactly after `1 + window_size` updates. -/
theorem silent_after_drift (c : Cfg α) (hw : 0 < c.w) (s0 : State X α) (h : Inv c s0)
    (hd : s0.drift = .drift) (post : List (X × Oracle α)) (hne : post ≠ [])
    (hn : post.length ≤ c.w + 1) : After c s0 (post.map Prod.fst) (runFrom c s0 post) := by
  have h0 : s0.test.length = c.w := (h.drifted (by simp [hd])).2.1
  induction post using List.reverseRecOn with
  | nil => exact absurd rfl hne
  | append_singleton l xo ih =>
    by_cases hl : l = []
    · subst hl
      simpa [runFrom] using after_first c hw s0 xo.1 xo.2 h hd
    · have hlen : l.length < c.w + 1 := by simp at hn; omega
      have := after_step c hw s0 h0 _ _ xo.1 xo.2 (ih hl (by omega)) (by simpa using hl)
        (by simpa using hlen)
      simpa [runFrom_snoc] using this

/-- the same, for histories from the initial state -/
theorem silent_after_drift_run (c : Cfg α) (hw : 0 < c.w) (pre post : List (X × Oracle α))
    (hd : (run c pre : State X α).drift = .drift) (hne : post ≠ []) (hn : post.length ≤ c.w + 1) :
    After c (run c pre) (post.map Prod.fst) (run c (pre ++ post)) := by
  rw [run_append]
  exact silent_after_drift c hw _ (inv_run c hw pre) hd post hne hn

/-! ### what the windows contain -/

theorem step_test_cases (c : Cfg α) (s : State X α) (x : X) (o : Oracle α) (h : Inv c s) :
    (step c s x o).test = [] ∨ (step c s x o).test = s.test ++ [x] ∨
      (step c s x o).test = s.test.drop 1 ++ [x] := by
  obtain ⟨h1, h2, h3, h4, h5⟩ := h
  grind [step, fill, build, slide]

/-- the test window always consists of the most recent samples -/
theorem test_suffix (c : Cfg α) (hw : 0 < c.w) (inputs : List (X × Oracle α)) :
    (run c inputs : State X α).test <:+ inputs.map Prod.fst := by
  induction inputs using List.reverseRecOn with
  | nil => simp [run, init]
  | append_singleton l xo ih =>
    have hs : run c (l ++ [xo]) = step c (run c l : State X α) xo.1 xo.2 := by
      simp [run_eq, runFrom_snoc]
    rw [hs]
    rcases step_test_cases c (run c l) xo.1 xo.2 (inv_run c hw l) with e | e | e
    · rw [e]; exact List.nil_suffix
    · rw [e]
      obtain ⟨p, hp⟩ := ih
      exact ⟨p, by rw [List.map_append, ← List.append_assoc, hp]; rfl⟩
    · rw [e]
      obtain ⟨p, hp⟩ := (List.drop_suffix 1 _).trans ih
      exact ⟨p, by rw [List.map_append, ← List.append_assoc, hp]; rfl⟩

/-- at a drift (and throughout the sliding phase) the test window is exactly the last
    `window_size` samples of the stream -/
theorem test_is_last_window (c : Cfg α) (hw : 0 < c.w) (inputs : List (X × Oracle α))
    (h : (run c inputs : State X α).building = false ∨ (run c inputs : State X α).drift = .drift) :
    (run c inputs : State X α).test = (inputs.map Prod.fst).drop (inputs.length - c.w) := by
  have hi := inv_run (X := X) c hw inputs
  have hl : (run c inputs : State X α).test.length = c.w := by
    rcases h with h | h
    · exact (hi.sliding h).2.1
    · exact (hi.drifted (by simp [h])).2.1
  have := List.suffix_iff_eq_drop.mp (test_suffix c hw inputs)
  rw [hl] at this
  simpa using this

/-- REFERENCE AFTER A DRIFT, end to end: if the history `pre` ends in a drift, then during the
    following `1 + window_size` updates the reference window is the last `window_size`
    samples of `pre` (the test window at the moment of the drift) -/
theorem reference_after_drift (c : Cfg α) (hw : 0 < c.w) (pre post : List (X × Oracle α))
    (hd : (run c pre : State X α).drift = .drift) (hne : post ≠ []) (hn : post.length ≤ c.w + 1) :
    (run c (pre ++ post) : State X α).ref = (pre.map Prod.fst).drop (pre.length - c.w) := by
  rw [(silent_after_drift_run c hw pre post hd hne hn).ref]
  exact test_is_last_window c hw pre (Or.inr hd)


/-! ### derived parameters, oracle fields -/

/-- `PCACD.__init__`: what `mkCfg` produces (and that it produces something iff `step ≥ 1`) -/
theorem mkCfg_spec (w : Nat) (sp delta : α) (m : Metric) (sc : Bool) (c : Cfg α)
    (h : mkCfg w sp delta m sc = some c) :
    c.w = w ∧ c.bins = Nat.sqrt w ∧ c.metric = m ∧ c.scaling = sc ∧
    (c.step : Int) = min 100 (pyRound (sp * ((w : Nat) : α))) ∧ 0 < c.step ∧ c.step ≤ 100 ∧
    c.ph.delta = delta ∧ c.ph.burnIn = 0 ∧ c.ph.dir = .positive ∧
    c.ph.threshold = ((pyRound ((one / ((100 : Nat) : α)) * ((w : Nat) : α)) : Int) : α) := by
  unfold mkCfg at h
  generalize pyRound (sp * ((w : Nat) : α)) = r at h ⊢
  by_cases hr : (if r < 100 then r else 100) ≤ 0
  · simp [hr] at h
  · simp only [hr, if_false, Option.some.injEq] at h
    subst h
    refine ⟨rfl, rfl, rfl, rfl, ?_, ?_, ?_, rfl, rfl, rfl, rfl⟩
    · show (((if r < 100 then r else 100).toNat : Nat) : Int) = min 100 r
      split <;> omega
    · show 0 < (if r < 100 then r else 100).toNat
      split <;> omega
    · show (if r < 100 then r else 100).toNat ≤ 100
      split <;> omega

/-- which oracle fields two oracles must share for a given `need` -/
def agree (n : Need) (o o' : Oracle α) : Prop :=
  match n with
  | .none => True
  | .build => o.numPcs = o'.numPcs ∧ o.refProj = o'.refProj ∧ o.testProj = o'.testProj
  | .proj => o.proj = o'.proj
  | .js => o.js = o'.js

/-- an update reads only the oracle fields announced by `need` (this is what justifies the
    harness handing over exactly those values) -/
theorem step_reads_only_needed (c : Cfg α) (s : State X α) (x : X) (o o' : Oracle α)
    (h : agree (need c s) o o') : step c s x o = step c s x o' := by
  unfold agree need at h
  unfold step
  by_cases hb : s.building = true
  · simp only [hb, if_true] at h ⊢
    have hl : (fill c s x).test.length = fillTestLen c s := by
      grind [fill, fillTestLen]
    rw [hl]
    by_cases hf : fillTestLen c s = c.w
    · simp only [hf, if_true] at h ⊢
      obtain ⟨h1, h2, h3⟩ := h
      unfold build
      rw [h1, h2, h3]
    · simp [hf]
  · have hb' : s.building = false := by simpa using hb
    simp only [hb', Bool.false_eq_true, if_false] at h ⊢
    unfold slide score slideProj
    cases hm : c.metric <;> simp only [hm] at h ⊢
    · by_cases hs : scheduled c s = true
      · simp only [hs, if_true] at h ⊢
        rw [h]
      · simp [hs]
    · rw [h]

/-! ### aligned supports (every carrier) -/

/-- SAME EDGES (invariant): the stored reference densities are the histograms of the stored
    reference projections on the stored per-component supports -/
def Aligned (c : Cfg α) (s : State X α) : Prop :=
  s.densRef = hists c.bins s.lower s.upper s.refProj

theorem aligned_step (c : Cfg α) (s : State X α) (x : X) (o : Oracle α) (h : Aligned c s) :
    Aligned c (step c s x o) := by
  unfold Aligned at *
  grind [step, fill, build, slide]

theorem aligned_run (c : Cfg α) (inputs : List (X × Oracle α)) :
    Aligned c (run c inputs : State X α) := by
  induction inputs using List.reverseRecOn with
  | nil => simp [Aligned, run, init, hists]
  | append_singleton l xo ih =>
    have hs : run c (l ++ [xo]) = step c (run c l : State X α) xo.1 xo.2 := by
      simp [run_eq, runFrom_snoc]
    rw [hs]; exact aligned_step c _ _ _ ih

/-- SAME EDGES: with the intersection metric the change score of a reachable state compares,
    component by component, the histogram of the reference projections and the histogram of
    the current (winsorised) test projections built with the SAME `bins`, `lower[i]`,
    `upper[i]` — hence (`edges` being a function of these three) on the same bin edges; the
    score is the maximum of `max(1 - Σ min(p, q), 0)` over the components. -/
theorem same_edges (c : Cfg α) (hm : c.metric = .intersection) (inputs : List (X × Oracle α))
    (tp : List (List α)) (o : Oracle α) :
    let s : State X α := run c inputs
    score c s tp o =
      maxL (List.zipWith interDiv (hists c.bins s.lower s.upper s.refProj)
                                  (hists c.bins s.lower s.upper tp)) := by
  intro s
  have h : Aligned c s := aligned_run c inputs
  unfold Aligned at h
  simp only [score, hm, h]

/-- at build time the support of component i is `[min(min ref_i, min test_i), max(max ref_i, max test_i)]` -/
theorem supports_at_build (c : Cfg α) (hm : c.metric = .intersection) (s : State X α) (o : Oracle α) :
    (build c s o).lower = List.zipWith (fun r t => pyMin (minL r) (minL t)) o.refProj o.testProj ∧
    (build c s o).upper = List.zipWith (fun r t => pyMax (maxL r) (maxL t)) o.refProj o.testProj ∧
    (build c s o).numPcs = some o.numPcs ∧
    (build c s o).refProj = o.refProj ∧ (build c s o).testProj = o.testProj := by
  simp [build, hm]

/-- supports, reference projections and reference densities never change during the sliding phase -/
theorem supports_frozen_while_sliding (c : Cfg α) (s : State X α) (x : X) (o : Oracle α)
    (hb : s.building = false) :
    (step c s x o).lower = s.lower ∧ (step c s x o).upper = s.upper ∧
    (step c s x o).refProj = s.refProj ∧ (step c s x o).densRef = s.densRef ∧
    (step c s x o).numPcs = s.numPcs := by
  grind [step, slide]


/-! ### the clamp of the intersection divergence (every carrier) -/

/-- NEVER NEGATIVE, law-free: `max(1 - intersection, 0.0)` is never `<` zero in the sense of the
    carrier's own `<`; the only fact used about the carrier is that zero is not `<` itself
    (true of IEEE doubles).  A NaN raw value is returned unchanged, and `NaN < 0` is false. -/
theorem interDiv_not_neg (hz : ¬ ((zero : α) < zero)) (p q : List α) : ¬ (interDiv p q < zero) := by
  unfold interDiv pyMax
  split
  · exact hz
  · assumption

theorem foldl_pyMax_mem (t : List α) (a : α) : t.foldl pyMax a = a ∨ t.foldl pyMax a ∈ t := by
  induction t generalizing a with
  | nil => exact Or.inl rfl
  | cons x u ih =>
    simp only [List.foldl_cons, List.mem_cons]
    rcases ih (pyMax a x) with h | h
    · rw [h]; unfold pyMax; split
      · exact Or.inr (Or.inl rfl)
      · exact Or.inl rfl
    · exact Or.inr (Or.inr h)

theorem maxL_not_neg (hz : ¬ ((zero : α) < zero)) (l : List α) (h : ∀ v ∈ l, ¬ (v < zero)) :
    ¬ (maxL l < zero) := by
  cases l with
  | nil => exact hz
  | cons a t =>
    simp only [maxL]
    rcases foldl_pyMax_mem t a with e | e
    · rw [e]; exact h a (by simp)
    · exact h _ (List.mem_cons_of_mem _ e)

/-- THE SCORE FED TO PAGE-HINKLEY IS NEVER NEGATIVE (intersection metric, every carrier, every
    state and oracle): `¬ (score < 0)` — so the monitor's running mean cannot be dragged below
    zero by a rounding residue of `1 - Σ min(p, q)`. -/
theorem score_not_neg (hz : ¬ ((zero : α) < zero)) (c : Cfg α) (hm : c.metric = .intersection)
    (s : State X α) (tp : List (List α)) (o : Oracle α) : ¬ (score c s tp o < zero) := by
  simp only [score, hm]
  apply maxL_not_neg hz
  intro v hv
  rw [List.mem_iff_getElem] at hv
  obtain ⟨i, hi, rfl⟩ := hv
  simp only [List.getElem_zipWith]
  exact interDiv_not_neg hz _ _


/-! ### non-vacuity: a concrete history with a drift (carrier `Int`, metric "kl") -/

instance : HasTrunc Int := ⟨id⟩

/-- window 1, a score at every sliding update, Page-Hinkley(delta 0, threshold 0, burn-in 0) -/
def exCfg : Cfg Int :=
  { w := 1, step := 1, bins := 1, metric := .kl, scaling := true,
    ph := { delta := 0, threshold := 0, burnIn := 0, dir := .positive } }

/-- samples 1..4: fill reference, fill test (build, one component), score 0, score 2 -/
def exInputs : List (Nat × Oracle Int) :=
  [(1, {}), (2, { numPcs := 1 }), (3, { js := [0] }), (4, { js := [2] })]

-- the hypotheses of `silent_after_drift_run` / `reference_after_drift` / `drift_then_building` are satisfiable:
example : (run exCfg exInputs).drift = .drift := by decide
example : (run exCfg exInputs).scores = [0, 0, 2] := by decide
-- ... and their conclusions are visible: sample 5 is discarded, the former test window [4] is the
-- reference, `samples_since_reset` restarts at 0; sample 6 refills the test window
example : let s := run exCfg (exInputs ++ [(5, ({} : Oracle Int))])
    s.ref = [4] ∧ s.test = [] ∧ s.since = 0 ∧ s.total = 5 ∧ s.drift = .none ∧ s.building = true := by decide
example : let s := run exCfg (exInputs ++ [(5, ({} : Oracle Int)), (6, { numPcs := 2 })])
    s.ref = [4] ∧ s.test = [6] ∧ s.since = 1 ∧ s.building = false ∧ s.numPcs = some 2 := by decide
-- `silent_until_full` at its boundary: after 2·w samples nothing has been scored, one more sample scores
example : (run exCfg (exInputs.take 2)).scores = [0] ∧ (run exCfg (exInputs.take 2)).building = false := by decide
-- `drift_iff_ph_alarm` / `ph_alarm_iff_check`: the state before the alarm is sliding, scheduled and reachable
example : (run exCfg (exInputs.take 3)).building = false ∧ (run exCfg (exInputs.take 3)).total % exCfg.step = 0
    ∧ (run exCfg (exInputs.take 3)).ph.drift = .none := by decide
-- `need`: build oracle on the sample that fills the test window, JS values on scheduled sliding updates
example : need exCfg (run exCfg (exInputs.take 1)) = .build ∧ need exCfg (run exCfg (exInputs.take 2)) = .js
    ∧ need exCfg (run exCfg exInputs) = .none := by decide

end Structural

/-! ## Part 2 — ordered fields: intersection divergence and histograms -/

section Field
set_option linter.unusedSectionVars false
variable {K : Type} [Field K] [LinearOrder K] [IsStrictOrderedRing K]

theorem zero_eq : (zero : K) = 0 := by simp [zero]
theorem one_eq : (one : K) = 1 := by simp [one]

theorem foldl_add_eq (l : List K) (a : K) : l.foldl (· + ·) a = a + l.sum := by
  induction l generalizing a with
  | nil => simp
  | cons x xs ih => simp [List.foldl_cons, ih, add_assoc]

theorem sumL_eq (l : List K) : sumL l = l.sum := by
  simp [sumL, foldl_add_eq, zero_eq]

theorem pyMin_self (a : K) : pyMin a a = a := by simp [pyMin]

theorem pyMin_le_left (a b : K) : pyMin a b ≤ a := by
  unfold pyMin; split
  · exact le_of_lt ‹_›
  · exact le_refl _

theorem pyMin_le_right (a b : K) : pyMin a b ≤ b := by
  unfold pyMin; split
  · exact le_refl _
  · exact not_lt.mp ‹_›

theorem pyMin_nonneg (a b : K) (ha : 0 ≤ a) (hb : 0 ≤ b) : 0 ≤ pyMin a b := by
  unfold pyMin; split <;> assumption

theorem zipWith_pyMin_self (p : List K) : List.zipWith pyMin p p = p := by
  induction p with
  | nil => rfl
  | cons a t ih => simp [pyMin_self]

/-- INTERSECTION OF IDENTICAL HISTOGRAMS = 0: for any vector summing to one -/
theorem intersection_self (p : List K) (hp : sumL p = 1) : interDiv p p = 0 := by
  rw [interDiv, rawInterDiv, zipWith_pyMin_self, hp, one_eq, sub_self, zero_eq]
  simp [pyMax]

/-- over an ordered field the clamp `max(·, 0.0)` is the identity on non-negative values … -/
theorem interDiv_eq_raw (p q : List K) (h : 0 ≤ rawInterDiv p q) : interDiv p q = rawInterDiv p q := by
  simp [interDiv, pyMax, zero_eq, not_lt.mpr h]

/-- … and the clamped divergence is never negative, whatever the vectors -/
theorem interDiv_nonneg (p q : List K) : 0 ≤ interDiv p q := by
  unfold interDiv pyMax
  rw [zero_eq]
  split
  · exact le_refl _
  · exact not_lt.mp ‹_›

theorem sum_zipWith_pyMin_le (p q : List K) (hp : ∀ x ∈ p, 0 ≤ x) :
    (List.zipWith pyMin p q).sum ≤ p.sum := by
  induction p generalizing q with
  | nil => simp
  | cons a t ih =>
    cases q with
    | nil =>
      simp only [List.zipWith_nil_right, List.sum_nil]
      exact List.sum_nonneg hp
    | cons b u =>
      simp only [List.zipWith_cons_cons, List.sum_cons]
      have := ih u (fun x hx => hp x (List.mem_cons_of_mem _ hx))
      have := pyMin_le_left a b
      linarith

theorem sum_zipWith_pyMin_nonneg (p q : List K) (hp : ∀ x ∈ p, 0 ≤ x) (hq : ∀ x ∈ q, 0 ≤ x) :
    0 ≤ (List.zipWith pyMin p q).sum := by
  apply List.sum_nonneg
  intro x hx
  rw [List.mem_iff_getElem] at hx
  obtain ⟨i, hi, rfl⟩ := hx
  simp only [List.getElem_zipWith]
  simp only [List.length_zipWith] at hi
  exact pyMin_nonneg _ _ (hp _ (List.getElem_mem _)) (hq _ (List.getElem_mem _))

/-- INTERSECTION ∈ [0, 1] for distributions: non-negative vectors, the first summing to one
    (lengths may differ: `zip` truncates as numpy would broadcast equal-length vectors only) -/
theorem intersection_range (p q : List K) (hp : ∀ x ∈ p, 0 ≤ x) (hq : ∀ x ∈ q, 0 ≤ x)
    (hs : sumL p = 1) : 0 ≤ interDiv p q ∧ interDiv p q ≤ 1 := by
  rw [sumL_eq] at hs
  have h1 := sum_zipWith_pyMin_le p q hp
  have h2 := sum_zipWith_pyMin_nonneg p q hp hq
  have hraw : 0 ≤ rawInterDiv p q ∧ rawInterDiv p q ≤ 1 := by
    simp only [rawInterDiv, sumL_eq, one_eq]
    constructor <;> linarith
  -- the clamp is the identity on [0, 1]
  rw [interDiv_eq_raw p q hraw.1]
  exact hraw

/-- the intersection divergence is symmetric up to the tie rule of `min`, which returns equal values -/
theorem pyMin_comm (a b : K) : pyMin a b = pyMin b a := by
  unfold pyMin
  rcases lt_trichotomy a b with h | h | h
  · simp [h, not_lt.mpr (le_of_lt h)]
  · simp [h]
  · simp [h, not_lt.mpr (le_of_lt h)]

theorem maxL_zeros (l : List K) (h : ∀ x ∈ l, x = 0) : maxL l = 0 := by
  cases l with
  | nil => simp [maxL, zero_eq]
  | cons a t =>
    have ha : a = 0 := h a (by simp)
    subst ha
    simp only [maxL]
    have : ∀ (u : List K), (∀ x ∈ u, x = 0) → u.foldl pyMax (0 : K) = 0 := by
      intro u hu
      induction u with
      | nil => rfl
      | cons b v ih =>
        have hb : b = 0 := hu b (by simp)
        subst hb
        simp only [List.foldl_cons, pyMax, lt_irrefl, if_false]
        exact ih (fun x hx => hu x (List.mem_cons_of_mem _ hx))
    exact this t (fun x hx => h x (List.mem_cons_of_mem _ hx))

/-! ### the normalised histogram -/

theorem sum_map_div (l : List K) (s : K) : (l.map (· / s)).sum = l.sum / s := by
  induction l with
  | nil => simp
  | cons a t ih => simp [ih, add_div]

/-- renormalisation: whatever the densities, `d / np.sum(d)` sums to one when `np.sum(d) ≠ 0` -/
theorem normalise_sum (d : List K) (h : sumL d ≠ 0) : sumL (normalise d) = 1 := by
  rw [sumL_eq] at h
  simp only [normalise, sumL_eq, sum_map_div]
  exact div_self h

variable [HasTrunc K]

/-- `_build_histograms` returns a vector that sums to one (whenever any sample fell in range) -/
theorem hist_sum (bins : Nat) (lo hi : K) (xs : List K)
    (h : sumL (density bins (outer lo hi).1 (outer lo hi).2 xs) ≠ 0) :
    sumL (hist bins lo hi xs) = 1 := by
  simp only [hist]
  exact normalise_sum _ h

/-- identical windows on the same support have intersection divergence 0 -/
theorem hist_intersection_self (bins : Nat) (lo hi : K) (xs : List K)
    (h : sumL (density bins (outer lo hi).1 (outer lo hi).2 xs) ≠ 0) :
    interDiv (hist bins lo hi xs) (hist bins lo hi xs) = 0 :=
  intersection_self _ (hist_sum bins lo hi xs h)

/-- TEST WINDOW REPEATS THE REFERENCE WINDOW ⇒ SCORE 0.  In a reachable state, with the
    intersection metric, if the (winsorised) test projections equal the reference projections
    component by component, the change score is 0 — provided every component's histogram has
    mass (some sample in range), which is what makes the renormalisation meaningful. -/
theorem score_zero_of_repeated_window {X : Type} (c : Cfg K) (hm : c.metric = .intersection)
    (inputs : List (X × Oracle K)) (o : Oracle K)
    (hmass : ∀ d ∈ hists c.bins (run c inputs : State X K).lower (run c inputs : State X K).upper
                      (run c inputs : State X K).refProj, sumL d = 1) :
    score c (run c inputs : State X K) (run c inputs : State X K).refProj o = 0 := by
  rw [same_edges c hm inputs]
  apply maxL_zeros
  intro x hx
  rw [List.mem_iff_getElem] at hx
  obtain ⟨i, hi, rfl⟩ := hx
  simp only [List.getElem_zipWith]
  exact intersection_self _ (hmass _ (List.getElem_mem _))


/-! ### `_build_histograms` = relative bin counts -/

theorem edges_length (bins : Nat) (lo hi : K) : (edges bins lo hi).length = bins + 1 := by
  simp [edges]

theorem edges_getElem (bins : Nat) (hb : 0 < bins) (lo hi : K) (j : Nat) (hj : j < bins + 1) :
    (edges bins lo hi)[j]'(by rw [edges_length]; exact hj) = (j : K) * ((hi - lo) / (bins : K)) + lo := by
  have hbK : (bins : K) ≠ 0 := by exact_mod_cast (Nat.pos_iff_ne_zero.mp hb)
  by_cases h : j < bins
  · simp [edges, List.getElem_append_left, h]
  · have hj' : j = bins := by omega
    subst hj'
    simp only [edges]
    rw [List.getElem_append_right (by simp)]
    simp only [List.length_map, List.length_range, Nat.sub_self, List.getElem_cons_zero]
    field_simp
    ring

/-- on a proper range all `bins` bin widths equal `(hi - lo) / bins` -/
theorem widths_edges (bins : Nat) (hb : 0 < bins) (lo hi : K) :
    widths (edges bins lo hi) = List.replicate bins ((hi - lo) / (bins : K)) := by
  apply List.ext_getElem
  · simp [widths, edges_length]
  · intro j h1 h2
    simp only [List.length_replicate] at h2
    simp only [widths, List.getElem_zipWith, List.getElem_drop, List.getElem_replicate]
    rw [edges_getElem bins hb lo hi j (by omega), edges_getElem bins hb lo hi (1 + j) (by omega)]
    push_cast
    ring

theorem counts_length (bins : Nat) (lo hi : K) (xs : List K) : (counts bins lo hi xs).length = bins := by
  simp [counts]

theorem zipWith_replicate_right {β γ δ : Type} (f : β → γ → δ) (l : List β) (a : γ) :
    List.zipWith f l (List.replicate l.length a) = l.map (fun b => f b a) := by
  induction l with
  | nil => rfl
  | cons b t ih => simp [List.replicate_succ, ih]

theorem natCast_sum (l : List Nat) : ((l.foldl (· + ·) 0 : Nat) : K) = (l.map (fun (c : Nat) => ((c : Nat) : K))).sum := by
  have : ∀ (a : Nat), ((l.foldl (· + ·) a : Nat) : K) = (a : K) + (l.map (fun (c : Nat) => ((c : Nat) : K))).sum := by
    induction l with
    | nil => intro a; simp
    | cons b t ih => intro a; simp [List.foldl_cons, ih, add_assoc]
  simpa using this 0

theorem sum_map_natCast_div (l : List Nat) (a : K) :
    (l.map (fun (c : Nat) => ((c : Nat) : K) / a)).sum = (l.map (fun (c : Nat) => ((c : Nat) : K))).sum / a := by
  induction l with
  | nil => simp
  | cons b t ih => simp [List.sum_cons, add_div, ih]

theorem sum_map_natCast_div2 (l : List Nat) (a b : K) :
    (l.map (fun (c : Nat) => ((c : Nat) : K) / a / b)).sum =
      (l.map (fun (c : Nat) => ((c : Nat) : K))).sum / a / b := by
  induction l with
  | nil => simp
  | cons b t ih => simp [List.sum_cons, add_div, ih]

/-- HISTOGRAM = RELATIVE COUNTS.  On a proper range (`lo < hi`, at least one bin) in which at
    least one sample was counted, `_build_histograms(...)["density"]` is, in exact arithmetic,
    the vector of bin counts divided by the number of counted samples: the division by the
    bin widths done by `density=True` is undone by the renormalisation. -/
theorem hist_eq_relative_counts (bins : Nat) (hb : 0 < bins) (lo hi : K) (hlt : lo < hi) (xs : List K)
    (hN : (counts bins lo hi xs).foldl (· + ·) 0 ≠ 0) :
    hist bins lo hi xs =
      (counts bins lo hi xs).map
        (fun (c : Nat) => ((c : Nat) : K) / (((counts bins lo hi xs).foldl (· + ·) 0 : Nat) : K)) := by
  have hbK : (bins : K) ≠ 0 := by exact_mod_cast (Nat.pos_iff_ne_zero.mp hb)
  have hst : (hi - lo) / (bins : K) ≠ 0 := div_ne_zero (sub_ne_zero.mpr (ne_of_gt hlt)) hbK
  have hNK : (((counts bins lo hi xs).foldl (· + ·) 0 : Nat) : K) ≠ 0 := by exact_mod_cast hN
  have hout : outer lo hi = (lo, hi) := by simp [outer, hlt]
  generalize hcs : counts bins lo hi xs = cs at *
  have hlen : cs.length = bins := by rw [← hcs]; exact counts_length bins lo hi xs
  generalize hn : ((cs.foldl (· + ·) 0 : Nat) : K) = n at *
  generalize hs : (hi - lo) / (bins : K) = st at *
  have hd : density bins lo hi xs = cs.map (fun (c : Nat) => ((c : Nat) : K) / st / n) := by
    simp only [density, hcs, widths_edges bins hb lo hi, hs, hn]
    rw [← hlen, zipWith_replicate_right]
  have hsum : sumL (density bins lo hi xs) = 1 / st := by
    rw [hd, sumL_eq]
    rw [sum_map_natCast_div2, ← natCast_sum, hn]
    field_simp
  show (density bins (outer lo hi).1 (outer lo hi).2 xs).map
      (· / sumL (density bins (outer lo hi).1 (outer lo hi).2 xs)) = _
  rw [hout]
  simp only
  rw [hsum, hd, List.map_map]
  apply List.map_congr_left
  intro c _
  simp only [Function.comp]
  field_simp

/-- hence the histogram is a probability vector: non-negative entries that sum to one -/
theorem hist_is_distribution (bins : Nat) (hb : 0 < bins) (lo hi : K) (hlt : lo < hi) (xs : List K)
    (hN : (counts bins lo hi xs).foldl (· + ·) 0 ≠ 0) :
    (∀ x ∈ hist bins lo hi xs, 0 ≤ x) ∧ sumL (hist bins lo hi xs) = 1 := by
  have hNK : (0 : K) < (((counts bins lo hi xs).foldl (· + ·) 0 : Nat) : K) := by
    exact_mod_cast Nat.pos_of_ne_zero hN
  constructor
  · rw [hist_eq_relative_counts bins hb lo hi hlt xs hN]
    intro x hx
    simp only [List.mem_map] at hx
    obtain ⟨c, _, rfl⟩ := hx
    exact div_nonneg (Nat.cast_nonneg c) (le_of_lt hNK)
  · rw [hist_eq_relative_counts bins hb lo hi hlt xs hN, sumL_eq, sum_map_natCast_div, ← natCast_sum]
    exact div_self (ne_of_gt hNK)

/-- so the intersection divergence of two real histograms lies in [0, 1] -/
theorem hist_intersection_range (bins : Nat) (hb : 0 < bins) (lo hi : K) (hlt : lo < hi) (xs ys : List K)
    (hx : (counts bins lo hi xs).foldl (· + ·) 0 ≠ 0) (hy : (counts bins lo hi ys).foldl (· + ·) 0 ≠ 0) :
    0 ≤ interDiv (hist bins lo hi xs) (hist bins lo hi ys) ∧
      interDiv (hist bins lo hi xs) (hist bins lo hi ys) ≤ 1 := by
  obtain ⟨p1, p2⟩ := hist_is_distribution bins hb lo hi hlt xs hx
  obtain ⟨q1, _⟩ := hist_is_distribution bins hb lo hi hlt ys hy
  exact intersection_range _ _ p1 q1 p2

/-! ### winsorising keeps the test scores inside the component's support -/

theorem winsor_mem (lo hi p : K) (h : lo ≤ hi) : lo ≤ winsor lo hi p ∧ winsor lo hi p ≤ hi := by
  unfold winsor
  split
  · exact ⟨le_refl _, h⟩
  · split
    · exact ⟨h, le_refl _⟩
    · exact ⟨not_lt.mp ‹_›, not_lt.mp ‹_›⟩

/-- a value already inside the support is not altered -/
theorem winsor_id (lo hi p : K) (h1 : lo ≤ p) (h2 : p ≤ hi) : winsor lo hi p = p := by
  unfold winsor
  simp [not_lt.mpr h1, not_lt.mpr h2]


/-! ### every stored score lies inside its component's support -/

theorem le_pyMax_left (a b : K) : a ≤ pyMax a b := by
  unfold pyMax; split
  · exact le_of_lt ‹_›
  · exact le_refl _

theorem le_pyMax_right (a b : K) : b ≤ pyMax a b := by
  unfold pyMax; split
  · exact le_refl _
  · exact not_lt.mp ‹_›

theorem foldl_pyMin_le (xs : List K) (a : K) :
    xs.foldl pyMin a ≤ a ∧ ∀ v ∈ xs, xs.foldl pyMin a ≤ v := by
  induction xs generalizing a with
  | nil => simp
  | cons x t ih =>
    obtain ⟨h1, h2⟩ := ih (pyMin a x)
    simp only [List.foldl_cons, List.mem_cons, forall_eq_or_imp]
    exact ⟨h1.trans (pyMin_le_left a x), h1.trans (pyMin_le_right a x), h2⟩

theorem le_foldl_pyMax (xs : List K) (a : K) :
    a ≤ xs.foldl pyMax a ∧ ∀ v ∈ xs, v ≤ xs.foldl pyMax a := by
  induction xs generalizing a with
  | nil => simp
  | cons x t ih =>
    obtain ⟨h1, h2⟩ := ih (pyMax a x)
    simp only [List.foldl_cons, List.mem_cons, forall_eq_or_imp]
    exact ⟨(le_pyMax_left a x).trans h1, (le_pyMax_right a x).trans h1, h2⟩

theorem minL_le (l : List K) : ∀ v ∈ l, minL l ≤ v := by
  cases l with
  | nil => simp
  | cons x t =>
    intro v hv
    simp only [minL]
    rcases List.mem_cons.mp hv with rfl | h
    · exact (foldl_pyMin_le t _).1
    · exact (foldl_pyMin_le t x).2 v h

theorem le_maxL (l : List K) : ∀ v ∈ l, v ≤ maxL l := by
  cases l with
  | nil => simp
  | cons x t =>
    intro v hv
    simp only [maxL]
    rcases List.mem_cons.mp hv with rfl | h
    · exact (le_foldl_pyMax t _).1
    · exact (le_foldl_pyMax t x).2 v h

theorem minL_le_maxL (l : List K) : minL l ≤ maxL l := by
  cases l with
  | nil => simp [minL, maxL]
  | cons x t => exact (minL_le (x :: t) x (by simp)).trans (le_maxL (x :: t) x (by simp))

/-- every score of every component's column lies inside that component's support -/
def Within (lower upper : List K) (P : List (List K)) : Prop :=
  ∀ (i : Nat) (lo hi : K) (col : List K), lower[i]? = some lo → upper[i]? = some hi →
    P[i]? = some col → lo ≤ hi ∧ ∀ v ∈ col, lo ≤ v ∧ v ≤ hi

theorem within_nil (lower upper : List K) : Within lower upper [] := by
  intro i lo hi col _ _ h; simp at h

theorem within_build (R T : List (List K)) :
    Within (List.zipWith (fun r t => pyMin (minL r) (minL t)) R T)
           (List.zipWith (fun r t => pyMax (maxL r) (maxL t)) R T) R ∧
    Within (List.zipWith (fun r t => pyMin (minL r) (minL t)) R T)
           (List.zipWith (fun r t => pyMax (maxL r) (maxL t)) R T) T := by
  constructor
  all_goals
    intro i lo hi col h1 h2 h3
    rw [List.getElem?_zipWith] at h1 h2
    cases hr : R[i]? with
    | none => simp [hr] at h1
    | some r =>
      cases ht : T[i]? with
      | none => simp [hr, ht] at h1
      | some t =>
        simp only [hr, ht, Option.some.injEq] at h1 h2 h3
        subst h1 h2
        have a1 := pyMin_le_left (minL r) (minL t)
        have a2 := pyMin_le_right (minL r) (minL t)
        have b1 := le_pyMax_left (maxL r) (maxL t)
        have b2 := le_pyMax_right (maxL r) (maxL t)
        have m := minL_le_maxL r
        refine ⟨a1.trans (m.trans b1), ?_⟩
        intro v hv
        subst h3
        first
          | exact ⟨a1.trans (minL_le _ v hv), (le_maxL _ v hv).trans b1⟩
          | exact ⟨a2.trans (minL_le _ v hv), (le_maxL _ v hv).trans b2⟩

theorem within_slide (lower upper : List K) (P : List (List K)) (proj : List K)
    (h : Within lower upper P) :
    Within lower upper
      (List.zipWith (fun col v => col.drop 1 ++ [v]) P (winsorAll lower upper proj)) := by
  intro i lo hi col' h1 h2 h3
  rw [List.getElem?_zipWith] at h3
  cases hc : P[i]? with
  | none => simp [hc] at h3
  | some col =>
    cases hv : (winsorAll lower upper proj)[i]? with
    | none => simp [hc, hv] at h3
    | some v =>
      simp only [hc, hv, Option.some.injEq] at h3
      subst h3
      obtain ⟨hle, hcol⟩ := h i lo hi col h1 h2 hc
      refine ⟨hle, ?_⟩
      have hv' : v = winsor lo hi (v) ∨ True := Or.inr trivial
      -- the new value is a winsorised projection
      have hw : ∃ p, v = winsor lo hi p := by
        unfold winsorAll at hv
        rw [List.getElem?_zipWith] at hv
        cases hz : (lower.zip upper)[i]? with
        | none => simp [hz] at hv
        | some lu =>
          cases hp : proj[i]? with
          | none => simp [hz, hp] at hv
          | some p =>
            simp only [hz, hp, Option.some.injEq] at hv
            rw [List.getElem?_zip_eq_some] at hz
            obtain ⟨z1, z2⟩ := hz
            rw [h1] at z1; rw [h2] at z2
            simp only [Option.some.injEq] at z1 z2
            exact ⟨p, by rw [← hv, ← z1, ← z2]⟩
      obtain ⟨p, rfl⟩ := hw
      intro u hu
      rcases List.mem_append.mp hu with hu | hu
      · exact hcol u (List.mem_of_mem_drop hu)
      · simp only [List.mem_singleton] at hu
        subst hu
        exact winsor_mem lo hi p hle


/-- the per-component supports contain every stored score -/
def Supported {X : Type} (s : State X K) : Prop :=
  Within s.lower s.upper s.refProj ∧ Within s.lower s.upper s.testProj

theorem supported_step {X : Type} (c : Cfg K) (s : State X K) (x : X) (o : Oracle K) (h : Supported s) :
    Supported (step c s x o) := by
  obtain ⟨hr, ht⟩ := h
  by_cases hb : s.building = true
  · have f1 : (fill c s x).lower = s.lower ∧ (fill c s x).upper = s.upper ∧
        (fill c s x).refProj = s.refProj ∧ (fill c s x).testProj = s.testProj := by
      grind [fill]
    by_cases hl : (fill c s x).test.length = c.w
    · have e : step c s x o = build c (fill c s x) o := by simp [step, hb, hl]
      rw [e]
      cases hm : c.metric with
      | intersection =>
        obtain ⟨b1, b2, _, b4, b5⟩ := supports_at_build c hm (fill c s x) o
        unfold Supported
        rw [b1, b2, b4, b5]
        exact within_build o.refProj o.testProj
      | kl =>
        have g : (build c (fill c s x) o).lower = s.lower ∧ (build c (fill c s x) o).upper = s.upper ∧
            (build c (fill c s x) o).refProj = s.refProj ∧ (build c (fill c s x) o).testProj = s.testProj := by
          simp [build, hm, f1]
        unfold Supported
        rw [g.1, g.2.1, g.2.2.1, g.2.2.2]
        exact ⟨hr, ht⟩
    · have e : step c s x o = fill c s x := by simp [step, hb, hl]
      rw [e]
      unfold Supported
      rw [f1.1, f1.2.1, f1.2.2.1, f1.2.2.2]
      exact ⟨hr, ht⟩
  · have hb' : s.building = false := by simpa using hb
    have g : (step c s x o).lower = s.lower ∧ (step c s x o).upper = s.upper ∧
        (step c s x o).refProj = s.refProj ∧ (step c s x o).testProj = slideProj c s o := by
      grind [step, slide]
    unfold Supported
    rw [g.1, g.2.1, g.2.2.1, g.2.2.2]
    refine ⟨hr, ?_⟩
    cases hm : c.metric with
    | intersection =>
      simp only [slideProj, hm]
      exact within_slide _ _ _ _ ht
    | kl =>
      simp only [slideProj, hm]
      exact ht

/-- ALIGNED SUPPORTS: in every reachable state, for every retained component, all reference
    scores and all (winsorised) test scores lie inside that component's support
    `[lower[i], upper[i]]` (and `lower[i] ≤ upper[i]`): no sample of either window is dropped
    by the range filter of `np.histogram`, so both histograms count whole windows. -/
theorem scores_within_support {X : Type} (c : Cfg K) (inputs : List (X × Oracle K)) :
    Supported (run c inputs : State X K) := by
  induction inputs using List.reverseRecOn with
  | nil => exact ⟨within_nil _ _, within_nil _ _⟩
  | append_singleton l xo ih =>
    have hs : run c (l ++ [xo]) = step c (run c l : State X K) xo.1 xo.2 := by
      simp [run_eq, runFrom_snoc]
    rw [hs]; exact supported_step c _ _ _ ih

/-- consequently the range filter of the histogram keeps every score of a supported column -/
theorem filter_keeps_all (lo hi : K) (col : List K) (h : ∀ v ∈ col, lo ≤ v ∧ v ≤ hi) :
    col.filter (fun x => decide (lo ≤ x) && decide (x ≤ hi)) = col := by
  rw [List.filter_eq_self]
  intro v hv
  simp [h v hv]


/-! ### both histograms count whole windows -/

theorem binIndex_lt (htr : ∀ y : K, 0 ≤ y → ((truncInt y : Int) : K) ≤ y)
    (bins : Nat) (hb : 0 < bins) (lo hi : K) (hlt : lo < hi) (E : List K) (x : K)
    (h1 : lo ≤ x) (h2 : x ≤ hi) : binIndex bins lo hi E x < bins := by
  have hd : 0 < hi - lo := sub_pos.mpr hlt
  have hf0 : 0 ≤ ((x - lo) / (hi - lo)) * (bins : K) :=
    mul_nonneg (div_nonneg (sub_nonneg.mpr h1) (le_of_lt hd)) (Nat.cast_nonneg _)
  have hq : (x - lo) / (hi - lo) ≤ 1 := by
    rw [div_le_one hd]; linarith
  have hf1 : ((x - lo) / (hi - lo)) * (bins : K) ≤ (bins : K) := by
    have : (0 : K) ≤ (bins : K) := Nat.cast_nonneg _
    nlinarith
  have ht : truncInt (((x - lo) / (hi - lo)) * (bins : K)) ≤ (bins : Int) := by
    have := (htr _ hf0).trans hf1
    exact_mod_cast this
  unfold binIndex
  simp only
  generalize truncInt (((x - lo) / (hi - lo)) * (bins : K)) = z at ht
  split_ifs <;> omega

theorem nat_foldl_add_eq (l : List Nat) (a : Nat) : l.foldl (· + ·) a = a + l.sum := by
  induction l generalizing a with
  | nil => simp
  | cons x xs ih => simp [List.foldl_cons, ih, Nat.add_assoc]

theorem sum_indicator_range (n a : Nat) :
    ((List.range n).map (fun j => if a = j then 1 else 0)).sum = if a < n then 1 else 0 := by
  induction n with
  | zero => simp
  | succ n ih =>
    rw [List.range_succ, List.map_append, List.sum_append, ih]
    simp only [List.map_cons, List.map_nil, List.sum_cons, List.sum_nil]
    split_ifs <;> omega

theorem sum_count_range (l : List Nat) (n : Nat) (h : ∀ i ∈ l, i < n) :
    ((List.range n).map (fun j => l.count j)).sum = l.length := by
  induction l with
  | nil => simp
  | cons a t ih =>
    have ha : a < n := h a (by simp)
    have e : (fun j => (a :: t).count j) = (fun j => t.count j + (if a = j then 1 else 0)) := by
      funext j
      rw [List.count_cons]
      simp only [beq_iff_eq]
    rw [e, List.sum_map_add, ih (fun i hi => h i (List.mem_cons_of_mem _ hi)), sum_indicator_range]
    simp [ha]

/-- if every sample lies in `[lo, hi]` (a proper range) the bin counts add up to the number of
    samples: nothing is dropped, nothing lands outside the `bins` bins.  `htr` is the only law
    asked of the carrier's truncation: it does not exceed a non-negative argument. -/
theorem counts_total (htr : ∀ y : K, 0 ≤ y → ((truncInt y : Int) : K) ≤ y)
    (bins : Nat) (hb : 0 < bins) (lo hi : K) (hlt : lo < hi) (xs : List K)
    (h : ∀ v ∈ xs, lo ≤ v ∧ v ≤ hi) :
    (counts bins lo hi xs).foldl (· + ·) 0 = xs.length := by
  unfold counts
  simp only
  rw [filter_keeps_all lo hi xs h, nat_foldl_add_eq, Nat.zero_add, sum_count_range]
  · simp
  · intro i hi'
    simp only [List.mem_map] at hi'
    obtain ⟨v, hv, rfl⟩ := hi'
    exact binIndex_lt htr bins hb lo hi hlt _ v (h v hv).1 (h v hv).2

/-- ALIGNED SUPPORTS ⇒ SCORES ARE PROPER DIVERGENCES.  For two non-empty columns inside a proper
    common support the two histograms are probability vectors on the same edges, so their
    intersection divergence lies in [0, 1] — and is 0 when the columns coincide. -/
theorem supported_intersection_range (htr : ∀ y : K, 0 ≤ y → ((truncInt y : Int) : K) ≤ y)
    (bins : Nat) (hb : 0 < bins) (lo hi : K) (hlt : lo < hi) (xs ys : List K)
    (hx : ∀ v ∈ xs, lo ≤ v ∧ v ≤ hi) (hy : ∀ v ∈ ys, lo ≤ v ∧ v ≤ hi) (hxn : xs ≠ []) (hyn : ys ≠ []) :
    0 ≤ interDiv (hist bins lo hi xs) (hist bins lo hi ys) ∧
      interDiv (hist bins lo hi xs) (hist bins lo hi ys) ≤ 1 ∧
      interDiv (hist bins lo hi xs) (hist bins lo hi xs) = 0 := by
  have nx : (counts bins lo hi xs).foldl (· + ·) 0 ≠ 0 := by
    rw [counts_total htr bins hb lo hi hlt xs hx]; simpa using hxn
  have ny : (counts bins lo hi ys).foldl (· + ·) 0 ≠ 0 := by
    rw [counts_total htr bins hb lo hi hlt ys hy]; simpa using hyn
  obtain ⟨r1, r2⟩ := hist_intersection_range bins hb lo hi hlt xs ys nx ny
  exact ⟨r1, r2, intersection_self _ (hist_is_distribution bins hb lo hi hlt xs nx).2⟩


/-! ### the change score is a divergence in [0, 1] -/

theorem maxL_mem_unit (l : List K) (h : ∀ v ∈ l, 0 ≤ v ∧ v ≤ 1) : 0 ≤ maxL l ∧ maxL l ≤ 1 := by
  cases l with
  | nil => simp [maxL, zero_eq]
  | cons a t =>
    simp only [maxL]
    have : ∀ (u : List K) (b : K), (0 ≤ b ∧ b ≤ 1) → (∀ v ∈ u, 0 ≤ v ∧ v ≤ 1) →
        0 ≤ u.foldl pyMax b ∧ u.foldl pyMax b ≤ 1 := by
      intro u
      induction u with
      | nil => intro b hb _; exact hb
      | cons x v ih =>
        intro b hb hu
        simp only [List.foldl_cons]
        apply ih
        · unfold pyMax; split
          · exact hu x (by simp)
          · exact hb
        · exact fun y hy => hu y (List.mem_cons_of_mem _ hy)
    exact this t a (h a (by simp)) (fun y hy => h y (List.mem_cons_of_mem _ hy))

theorem hists_getElem? (bins : Nat) (L U : List K) (P : List (List K)) (i : Nat) (hh : List K)
    (h : (hists bins L U P)[i]? = some hh) :
    ∃ lo hi col, L[i]? = some lo ∧ U[i]? = some hi ∧ P[i]? = some col ∧ hh = hist bins lo hi col := by
  unfold hists at h
  rw [List.getElem?_zipWith] at h
  cases hz : (L.zip U)[i]? with
  | none => simp [hz] at h
  | some lu =>
    cases hp : P[i]? with
    | none => simp [hz, hp] at h
    | some col =>
      simp only [hz, hp, Option.some.injEq] at h
      rw [List.getElem?_zip_eq_some] at hz
      exact ⟨lu.1, lu.2, col, hz.1, hz.2, rfl, h.symm⟩

/-- THE CHANGE SCORE IS A DIVERGENCE IN [0, 1].  In a reachable state, intersection metric, at
    least one bin, non-degenerate supports (`lower[i] < upper[i]`: the component is not
    constant over both windows) and non-empty reference columns: the score computed by a
    sliding update — the maximum over the components of `1 - Σ min(p_ref, p_test)` with both
    histograms on the component's own edges — lies in [0, 1]. -/
theorem step_score_in_unit_interval {X : Type}
    (htr : ∀ y : K, 0 ≤ y → ((truncInt y : Int) : K) ≤ y)
    (c : Cfg K) (hm : c.metric = .intersection) (hb : 0 < c.bins)
    (inputs : List (X × Oracle K)) (o : Oracle K)
    (hne : ∀ col ∈ (run c inputs : State X K).refProj, col ≠ [])
    (hprop : ∀ (i : Nat) (lo hi : K), (run c inputs : State X K).lower[i]? = some lo →
      (run c inputs : State X K).upper[i]? = some hi → lo < hi) :
    0 ≤ score c (run c inputs : State X K) (slideProj c (run c inputs : State X K) o) o ∧
      score c (run c inputs : State X K) (slideProj c (run c inputs : State X K) o) o ≤ 1 := by
  obtain ⟨hR, hT⟩ := scores_within_support (X := X) c inputs
  generalize hs : (run c inputs : State X K) = s at *
  have hT' : Within s.lower s.upper (slideProj c s o) := by
    simp only [slideProj, hm]; exact within_slide _ _ _ _ hT
  have hne' : ∀ col ∈ slideProj c s o, col ≠ [] := by
    simp only [slideProj, hm]
    intro col hcol
    rw [List.mem_iff_getElem] at hcol
    obtain ⟨i, hi, rfl⟩ := hcol
    simp
  have hse := same_edges (X := X) c hm inputs (slideProj c s o) o
  simp only [hs] at hse
  rw [hse]
  apply maxL_mem_unit
  intro v hv
  rw [List.mem_iff_getElem] at hv
  obtain ⟨i, hi, rfl⟩ := hv
  simp only [List.length_zipWith] at hi
  simp only [List.getElem_zipWith]
  obtain ⟨lo, hi1, col, a1, a2, a3, a4⟩ := hists_getElem? c.bins s.lower s.upper s.refProj i _
    (List.getElem?_eq_getElem (by omega))
  obtain ⟨lo', hi1', col', b1, b2, b3, b4⟩ := hists_getElem? c.bins s.lower s.upper (slideProj c s o) i _
    (List.getElem?_eq_getElem (by omega))
  rw [a1] at b1; rw [a2] at b2
  simp only [Option.some.injEq] at b1 b2
  subst b1 b2
  rw [a4, b4]
  have hlt := hprop i lo hi1 a1 a2
  have r := supported_intersection_range htr c.bins hb lo hi1 hlt col col'
    (hR i lo hi1 col a1 a2 a3).2 (hT' i lo hi1 col' a1 a2 b3).2
    (hne col (List.mem_of_getElem? a3)) (hne' col' (List.mem_of_getElem? b3))
  exact ⟨r.1, r.2.1⟩


/-! ### non-vacuity over `ℚ` -/

example : interDiv ([1/2, 1/2] : List ℚ) [1/2, 1/2] = 0 :=
  intersection_self _ (by norm_num [sumL, zero])

example : interDiv ([1, 0] : List ℚ) [0, 1] = 1 := by norm_num [interDiv, rawInterDiv, sumL, zero, one, pyMin, pyMax]
-- the clamp at work: vectors that are not distributions (Σ min = 3/2 > 1) give 0, not -1/2
example : rawInterDiv ([1, 1/2] : List ℚ) [1, 1/2] = -1/2 ∧ interDiv ([1, 1/2] : List ℚ) [1, 1/2] = 0 := by
  norm_num [interDiv, rawInterDiv, sumL, zero, one, pyMin, pyMax]
example : ¬ ((zero : ℚ) < zero) := by simp [zero]

example : (0 : ℚ) ≤ interDiv ([1/4, 3/4] : List ℚ) [1/2, 1/2] ∧ interDiv ([1/4, 3/4] : List ℚ) [1/2, 1/2] ≤ 1 :=
  intersection_range _ _ (by norm_num) (by norm_num) (by norm_num [sumL, zero])

example : winsor (0 : ℚ) 1 (3/2) = 1 ∧ winsor (0 : ℚ) 1 (-1) = 0 ∧ winsor (0 : ℚ) 1 (1/3) = 1/3 := by
  norm_num [winsor]


/-- a lawful truncation on `ℚ`: the hypothesis `htr` of `counts_total` is satisfiable -/
instance : HasTrunc ℚ := ⟨fun q => ⌊q⌋⟩
example : ∀ y : ℚ, 0 ≤ y → ((truncInt y : Int) : ℚ) ≤ y := fun y _ => Int.floor_le y

example : Within ([0] : List ℚ) [1] [[0, 1/2, 1]] := by
  intro i lo hi col h1 h2 h3
  cases i with
  | zero =>
    simp only [List.getElem?_cons_zero, Option.some.injEq] at h1 h2 h3
    subst h1 h2 h3
    norm_num
  | succ n => simp at h1

end Field

end MV.PCACD
