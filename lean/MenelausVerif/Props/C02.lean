/-
  C02 — after a drift (or a new reference) a detector starts from a clean slate.

  Shape of every theorem here: for every state `s` in which a drift has just been reported
  (so for every history `xs` that ends in a drift) and every continuation `ys`, the running
  detector reports after `ys` exactly what a newly constructed detector (plus the documented
  carry-over) reports after `ys`, the total counter shifted by the number of items seen
  before.  Since `ys` is arbitrary this holds position by position and, the twin itself being
  an ordinary run, through the second, third, … drift.  No arithmetic law is used: both sides
  perform the same operations, so the statements hold for every carrier, including `Float`.
-/
import MenelausVerif.Model.PageHinkley
namespace MV.Twin

/-- Generic simulation lemma: a relation preserved by every step on equal inputs is
preserved by whole runs. -/
theorem run_related {σ τ ι : Type} (step : σ → ι → σ) (step' : τ → ι → τ) (R : σ → τ → Prop)
    (hstep : ∀ s t i, R s t → R (step s i) (step' t i)) :
    ∀ (ys : List ι) (s : σ) (t : τ), R s t → R (ys.foldl step s) (ys.foldl step' t) := by
  intro ys
  induction ys with
  | nil => intro s t h; exact h
  | cons y ys ih => intro s t h; exact ih _ _ (hstep s t y h)

/-- … and if the first step already establishes it from a weaker start relation
(`R₀` = "drift just reported" vs "freshly constructed"), every non-empty continuation is related. -/
theorem run_related_after_first {σ τ ι : Type} (step : σ → ι → σ) (step' : τ → ι → τ)
    (R₀ R : σ → τ → Prop)
    (hfirst : ∀ s t i, R₀ s t → R (step s i) (step' t i))
    (hstep : ∀ s t i, R s t → R (step s i) (step' t i))
    (y : ι) (ys : List ι) (s : σ) (t : τ) (h : R₀ s t) :
    R ((y :: ys).foldl step s) ((y :: ys).foldl step' t) := by
  simp only [List.foldl_cons]
  exact run_related step step' R hstep ys _ _ (hfirst s t y h)

end MV.Twin

namespace MV.PH
open MV MV.Twin

variable {α : Type} [Add α] [Sub α] [Mul α] [Div α] [LT α] [DecidableLT α] [NatCast α]

/-- running state `s` equals fresh state `t` up to the total-counter offset -/
def SameUpTo (off : Nat) (s t : State α) : Prop :=
  s.total = t.total + off ∧ s.since = t.since ∧ s.drift = t.drift ∧
  s.mean = t.mean ∧ s.sum = t.sum ∧ s.mn = t.mn ∧ s.mx = t.mx

theorem core_sameUpTo (c : Cfg α) (off : Nat) (s t : State α) (x : α) (h : SameUpTo off s t) :
    SameUpTo off (core c s x).1 (core c t x).1 ∧ (core c s x).2 = (core c t x).2 := by
  obtain ⟨t1, t2, t3, t4, t5, t6, t7⟩ := t
  obtain ⟨s1, s2, s3, s4, s5, s6, s7⟩ := s
  obtain ⟨h1, h2, h3, h4, h5, h6, h7⟩ := h
  simp only at h1 h2 h3 h4 h5 h6 h7
  subst h2 h3 h4 h5 h6 h7
  subst h1
  simp only [core, SameUpTo, and_self, and_true]
  omega

omit [Add α] [Sub α] [Mul α] [Div α] [LT α] [DecidableLT α] in
theorem reset_sameUpTo (off : Nat) (s t : State α) (h : s.total = t.total + off) :
    SameUpTo off (reset s) (reset t) := by
  simp only [reset, SameUpTo, h, and_self]

theorem step_sameUpTo (c : Cfg α) (off : Nat) (s t : State α) (x : α) (h : SameUpTo off s t) :
    SameUpTo off (step c s x).1 (step c t x).1 ∧ (step c s x).2 = (step c t x).2 := by
  unfold step
  rw [h.2.2.1]
  by_cases hd : t.drift = .drift
  · simp only [hd, if_true]; exact core_sameUpTo c off _ _ x (reset_sameUpTo off s t h.1)
  · simp only [hd, if_false]; exact core_sameUpTo c off _ _ x h

theorem first_after_drift (c : Cfg α) (s : State α) (x : α) (h : s.drift = .drift) :
    SameUpTo s.total (step c s x).1 (step c init x).1 ∧ (step c s x).2 = (step c init x).2 := by
  unfold step
  have hn : ¬ ((init : State α).drift = Drift.drift) := by simp [init]
  simp only [h, if_true, hn, if_false]
  apply core_sameUpTo
  simp only [reset, init, SameUpTo, and_self, and_true]
  omega

/-- **PageHinkley twin theorem.**  After any history ending in a reported drift (state `s`),
for every non-empty continuation the running detector's state — drift state, since-reset
counter, mean, cumulative sum, extrema — equals that of a fresh detector fed only the
continuation, and the total counter is shifted by the number of samples seen before. -/
theorem twin (c : Cfg α) (s : State α) (h : s.drift = .drift) (y : α) (ys : List α) :
    SameUpTo s.total ((y :: ys).foldl (fun s x => (step c s x).1) s) (run c (y :: ys)) := by
  unfold run
  exact run_related_after_first (fun s x => (step c s x).1) (fun s x => (step c s x).1)
    (fun s' t => s' = s ∧ t = init) (SameUpTo s.total)
    (fun s' t i ⟨hs, ht⟩ => by subst hs; subst ht; exact (first_after_drift c s' i h).1)
    (fun s' t i hR => (step_sameUpTo c _ s' t i hR).1) y ys s init ⟨rfl, rfl⟩

/-- the rows appended to `to_dataframe()` agree as well, position by position -/
theorem twin_rows (c : Cfg α) (s : State α) (h : s.drift = .drift) (y : α) (ys : List α) (x : α) :
    (step c ((y :: ys).foldl (fun s x => (step c s x).1) s) x).2 = (step c (run c (y :: ys)) x).2 :=
  (step_sameUpTo c _ _ _ x (twin c s h y ys)).2

/-- non-vacuity: a reachable state with a pending drift exists (over `Int`-like carriers we use `Nat`-free `Float`-free ℤ) -/
example : (run (α := Int) { delta := 0, threshold := 0, burnIn := 0, dir := .positive } [5, 9]).drift = .drift := by
  decide

end MV.PH
