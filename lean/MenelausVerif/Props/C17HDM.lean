/-
  C17 — HDDDM / CDBD (`Model/HDM.lean`): a stricter threshold never makes the first drift earlier.

  * statistic `stdev`: β = ε̂ + s·σ — a larger number `s` of standard deviations is stricter;
  * statistic `tstat`: β = ε̂ + t·(σ/√d) — a smaller significance is stricter; the t critical value is
    an oracle input of the model (`Oracle.tcrit`, one per update).  Under the explicit hypothesis
    that the critical values supplied to the two runs are ordered at every update
    (`t_loose ≤ t_strict`; for `scipy.stats.t.ppf(1 - s/2, df)` with the same degrees of freedom this
    is the antitonicity of the quantile in `s`, part of the trusted base) the claim is the same.

  Both need σ ≥ 0.  σ is `sqrt (…)` of the model's abstract square root, so the hypothesis is
  exactly `∀ x, 0 ≤ sqrt x` (as for DDM and NNDVI in `Props/C17Models.lean`); `stdev_nonneg`,
  `scaled_stdev_nonneg` derive the two facts used.  Over `ℝ` with `Real.sqrt` the hypothesis is a
  theorem (`hdm_first_drift_mono_real`).

  Pre-alarm state.  Before the first alarm the two runs are *not* in the same state: the recorded
  `beta` and the public `thresholds` dictionary hold the β's, which depend on the threshold.  Nothing
  else does: `HRel a b` = "equal after forgetting `beta` and `thresholds`, and not in drift".
  `updateCore_sim`: one update body keeps `HRel` unless the looser run alarms, and an alarm of the
  stricter run forces one of the looser run (β_loose ≤ β_strict, `adaptive_beta_le`); the reference
  grows identically.  `step_sim` lifts this to the public calls (`update`, `set_reference`, rejected
  calls leave the state), `hdm_first_drift_mono` to every history of calls.  After the looser run has
  alarmed nothing is claimed (its reference has been replaced).

  The configuration pair is `{c with signif := loose}`, `{c with signif := strict}` for an arbitrary
  `c` (divergence, `detect_batch`, statistic, CDBD flag); the two oracle streams share the bootstrap
  ε₀ and may differ in `tcrit`.  One theorem covers both statistics:
  `c.stat = stdev → loose ≤ strict`, `c.stat = tstat → tcrit_loose ≤ tcrit_strict` at every update
  (for `stdev` the critical values are not read, for `tstat` the model does not read `signif`: the
  significance enters through the oracle only).
-/
import MenelausVerif.Props.C17
import MenelausVerif.Lemmas.C17Sim
import MenelausVerif.Model.HDM
import MenelausVerif.Lemmas.HDMReal
import Mathlib.Algebra.Order.Field.Basic
import Mathlib.Tactic.Linarith
import Mathlib.Tactic.NormNum
set_option linter.unusedSectionVars false
set_option linter.unusedSimpArgs false

namespace MV.C17.HDM
open MV MV.Mono MV.HDM

/-- the drift flag as a `Bool` -/
def isD (d : Drift) : Bool := d == .drift
theorem isD_false {d : Drift} : isD d = false ↔ d ≠ .drift := by cases d <;> simp [isD]
theorem isD_true {d : Drift} : isD d = true ↔ d = .drift := by cases d <;> simp [isD]

section carrier
variable {α : Type} [Add α] [Sub α] [Mul α] [Div α] [Neg α] [LT α] [DecidableLT α]
  [LE α] [DecidableLE α] [NatCast α] [BEq α] [HasSqrt α] [HasLogExp α] [HasLog1p α] [HasTrunc α]

/-- a public call as a total function: a rejected call (`none`) leaves the state -/
def stepT (c : Cfg α) (s : State α) (op : Op α) : State α := (step c s op).getD s

/-- forget what records the thresholds: `beta` and the `thresholds` dictionary -/
def core (s : State α) : State α := { s with beta := none, thresholds := [] }

/-- the run under the looser setting (`a`) against the run under the stricter one (`b`) before an
    alarm: same state up to the recorded β's, not in drift -/
structure HRel (a b : State α) : Prop where
  core : core a = core b
  quiet : a.drift ≠ .drift

theorem hRel_refl (s : State α) (h : s.drift ≠ .drift) : HRel s s := ⟨rfl, h⟩

theorem hRel_drift {a b : State α} (h : HRel a b) : a.drift = b.drift := by
  have := congrArg State.drift h.core
  simpa [core] using this

/-- two related states are the same state up to the two recording fields -/
theorem hRel_eq {a b : State α} (h : HRel a b) :
    a = { b with beta := a.beta, thresholds := a.thresholds } := by
  have hc := h.core
  cases a; cases b
  simp only [core, State.mk.injEq] at hc ⊢
  simp_all

/-- the same public call with oracle values that share the bootstrap estimate -/
inductive OpRel : Op α → Op α → Prop
  | setRef (X : List (List α)) (o o' : Oracle α) : o.eps0 = o'.eps0 → OpRel (.setRef X o) (.setRef X o')
  | batch (X : List (List α)) (o o' : Oracle α) : o.eps0 = o'.eps0 → OpRel (.batch X o) (.batch X o')

/-- the critical value an operation carries -/
def tcritOf : Op α → α
  | .setRef _ o => o.tcrit
  | .batch _ o => o.tcrit

/-- validation does not read the threshold -/
theorem validBatch_signif (c : Cfg α) (σ : α) (dim : Option Nat) (X : List (List α)) :
    validBatch { c with signif := σ } dim X = validBatch c dim X := by
  cases X <;> rfl

/-- on the first batch of an epoch no test is made -/
theorem updateCore_first_quiet (c : Cfg α) (o : Oracle α) (s : State α) (dim : Nat) (X : List (List α))
    (h : s.since = 0) : (updateCore c o s dim X).drift = s.drift := by
  unfold updateCore appendRef
  simp [h]

/-- on a history of accepted calls the states `stepT` walks through are those of `run` -/
theorem states_of_run (c : Cfg α) (ops : List (Op α)) : ∀ (s s' : State α), run c s ops = some s' →
    ops.foldl (stepT c) s = s' := by
  induction ops with
  | nil => intro s s' h; simpa [run] using h
  | cons op ops ih =>
    intro s s' h
    simp only [run] at h
    simp only [List.foldl_cons]
    split at h
    · rename_i s1 heq
      have : stepT c s op = s1 := by simp [stepT, heq]
      rw [this]; exact ih _ _ h
    · cases h

end carrier

section field
variable {K : Type} [Field K] [LinearOrder K] [IsStrictOrderedRing K] [BEq K] [HasSqrt K]
  [HasLogExp K] [HasLog1p K] [HasTrunc K]

/-- the deviation σ of `_adaptive_threshold` is a value of the square root -/
theorem stdev_nonneg (hsqrt : ∀ x : K, 0 ≤ sqrt x) (c : Cfg K) (tcrit : K) (since total lambda : Nat)
    (eps : List K) (totalEps : K) : 0 ≤ (adaptive c tcrit since total lambda eps totalEps).stdev :=
  hsqrt _

/-- … and so is `σ / sqrt d` (quotient of two values of the square root) -/
theorem scaled_stdev_nonneg (hsqrt : ∀ x : K, 0 ≤ sqrt x) (c : Cfg K) (tcrit : K)
    (since total lambda : Nat) (eps : List K) (totalEps : K) :
    0 ≤ (adaptive c tcrit since total lambda eps totalEps).stdev /
        sqrt (((adaptive c tcrit since total lambda eps totalEps).dScale : Nat) : K) :=
  div_nonneg (hsqrt _) (hsqrt _)

/-- β spelled out -/
theorem adaptive_beta (c : Cfg K) (tcrit : K) (since total lambda : Nat) (eps : List K) (totalEps : K) :
    (adaptive c tcrit since total lambda eps totalEps).beta =
      match c.stat with
      | .tstat => (adaptive c tcrit since total lambda eps totalEps).epsHat +
          tcrit * ((adaptive c tcrit since total lambda eps totalEps).stdev /
            sqrt (((adaptive c tcrit since total lambda eps totalEps).dScale : Nat) : K))
      | .stdev => (adaptive c tcrit since total lambda eps totalEps).epsHat +
          c.signif * (adaptive c tcrit since total lambda eps totalEps).stdev := by
  unfold adaptive
  cases c.stat <;> rfl

/-- **the bound is monotone in strictness**: with the same ε history, β under the looser setting is
    at most β under the stricter one — `stdev`: more standard deviations; `tstat`: larger critical value -/
theorem adaptive_beta_le (hsqrt : ∀ x : K, 0 ≤ sqrt x) (c : Cfg K) (loose strict tL tS : K)
    (hσ : c.stat = .stdev → loose ≤ strict) (ht : c.stat = .tstat → tL ≤ tS)
    (since total lambda : Nat) (eps : List K) (totalEps : K) :
    (adaptive { c with signif := loose } tL since total lambda eps totalEps).beta ≤
      (adaptive { c with signif := strict } tS since total lambda eps totalEps).beta := by
  rw [adaptive_beta, adaptive_beta]
  have h1 := stdev_nonneg hsqrt c tL since total lambda eps totalEps
  have h2 := scaled_stdev_nonneg hsqrt c tL since total lambda eps totalEps
  show (match c.stat with
      | .tstat => (adaptive c tL since total lambda eps totalEps).epsHat +
          tL * ((adaptive c tL since total lambda eps totalEps).stdev /
            sqrt (((adaptive c tL since total lambda eps totalEps).dScale : Nat) : K))
      | .stdev => (adaptive c tL since total lambda eps totalEps).epsHat +
          loose * (adaptive c tL since total lambda eps totalEps).stdev) ≤
    (match c.stat with
      | .tstat => (adaptive c tL since total lambda eps totalEps).epsHat +
          tS * ((adaptive c tL since total lambda eps totalEps).stdev /
            sqrt (((adaptive c tL since total lambda eps totalEps).dScale : Nat) : K))
      | .stdev => (adaptive c tL since total lambda eps totalEps).epsHat +
          strict * (adaptive c tL since total lambda eps totalEps).stdev)
  cases hs : c.stat with
  | tstat =>
    simp only []
    have := mul_le_mul_of_nonneg_right (ht hs) h2
    linarith
  | stdev =>
    simp only []
    have := mul_le_mul_of_nonneg_right (hσ hs) h1
    linarith

/-- **one update body under the two settings**, from related states -/
theorem updateCore_sim (hsqrt : ∀ x : K, 0 ≤ sqrt x) (c : Cfg K) (loose strict : K) (oL oS : Oracle K)
    (he : oL.eps0 = oS.eps0)
    (hσ : c.stat = .stdev → loose ≤ strict) (ht : c.stat = .tstat → oL.tcrit ≤ oS.tcrit)
    (a b : State K) (h : HRel a b) (dim : Nat) (X : List (List K)) :
    ((updateCore { c with signif := strict } oS b dim X).drift = .drift →
      (updateCore { c with signif := loose } oL a dim X).drift = .drift) ∧
    ((updateCore { c with signif := loose } oL a dim X).drift ≠ .drift →
      HRel (updateCore { c with signif := loose } oL a dim X)
        (updateCore { c with signif := strict } oS b dim X)) := by
  have hq := h.quiet
  have hqb : b.drift ≠ .drift := hRel_drift h ▸ hq
  rw [hRel_eq h]
  generalize a.beta = βa
  generalize a.thresholds = ta
  obtain ⟨eL, tL⟩ := oL
  obtain ⟨eS, tS⟩ := oS
  simp only at he ht
  subst he
  have hβ : (stepThr { c with signif := loose } ⟨eL, tL⟩ { b with beta := βa, thresholds := ta } dim X).beta ≤
      (stepThr { c with signif := strict } ⟨eL, tS⟩ b dim X).beta :=
    adaptive_beta_le hsqrt c loose strict tL tS hσ ht _ _ _ _ _
  have heps : stepEps { c with signif := loose } { b with beta := βa, thresholds := ta } dim X =
      stepEps { c with signif := strict } b dim X := rfl
  unfold updateCore appendRef
  by_cases h2 : b.since + 1 ≥ 2
  · by_cases htd : testsDrift { c with signif := strict } (b.since + 1) = true
    · have htd' : testsDrift { c with signif := loose } (b.since + 1) = true := htd
      by_cases hS : (stepThr { c with signif := strict } ⟨eL, tS⟩ b dim X).beta <
          stepEps { c with signif := strict } b dim X
      · have hL : (stepThr { c with signif := loose } ⟨eL, tL⟩ { b with beta := βa, thresholds := ta } dim X).beta <
            stepEps { c with signif := loose } { b with beta := βa, thresholds := ta } dim X := by
          rw [heps]; exact lt_of_le_of_lt hβ hS
        simp [h2, htd, htd', hS, hL]
      · by_cases hL : (stepThr { c with signif := loose } ⟨eL, tL⟩ { b with beta := βa, thresholds := ta } dim X).beta <
            stepEps { c with signif := loose } { b with beta := βa, thresholds := ta } dim X
        · simp [h2, htd, htd', hS, hL, hqb]
        · simp only [h2, htd, htd', hS, hL, if_true, if_false]
          refine ⟨fun hb => absurd hb hqb, fun _ => ⟨?_, hqb⟩⟩
          rfl
    · have htd' : ¬ testsDrift { c with signif := loose } (b.since + 1) = true := htd
      simp only [h2, htd, htd', if_true, if_false, Bool.false_eq_true]
      exact ⟨fun hb => absurd hb hqb, fun _ => ⟨rfl, hqb⟩⟩
  · simp only [h2, if_false]
    exact ⟨fun hb => absurd hb hqb, fun _ => ⟨rfl, hqb⟩⟩

/-- `set_reference` under the two settings, from related states: rejected by both, or accepted by
    both with related results (no test is made inside `set_reference`) -/
theorem setReference_sim (hsqrt : ∀ x : K, 0 ≤ sqrt x) (c : Cfg K) (loose strict : K) (oL oS : Oracle K)
    (he : oL.eps0 = oS.eps0)
    (hσ : c.stat = .stdev → loose ≤ strict) (ht : c.stat = .tstat → oL.tcrit ≤ oS.tcrit)
    (a b : State K) (h : HRel a b) (X : List (List K)) :
    (setReference { c with signif := loose } oL a X = none ∧
      setReference { c with signif := strict } oS b X = none) ∨
    ∃ a' b', setReference { c with signif := loose } oL a X = some a' ∧
      setReference { c with signif := strict } oS b X = some b' ∧ HRel a' b' := by
  have hq := h.quiet
  have hqb : b.drift ≠ .drift := hRel_drift h ▸ hq
  have hab := hRel_eq h
  have hdim : a.dim = b.dim := by rw [hab]
  unfold setReference
  rw [hdim]
  simp only [validBatch_signif]
  cases hv : validBatch c b.dim X with
  | none => exact Or.inl ⟨rfl, rfl⟩
  | some d =>
    simp only []
    have hrel1 : ∀ (ref : List (List K)),
        HRel ({ a with dim := some d, hasRef := true, reference := ref, lambda := a.total, since := 0,
                       drift := .none, refN := ref.length, bins := Nat.sqrt ref.length, eps := [],
                       totalEps := zero } : State K)
          { b with dim := some d, hasRef := true, reference := ref, lambda := b.total, since := 0,
                   drift := .none, refN := ref.length, bins := Nat.sqrt ref.length, eps := [],
                   totalEps := zero } := by
      intro ref
      refine ⟨?_, by simp⟩
      rw [hab]; rfl
    unfold reset
    by_cases h1 : c.detectBatch = 1
    · have h1L : ({ c with signif := loose } : Cfg K).detectBatch = 1 := h1
      have h1S : ({ c with signif := strict } : Cfg K).detectBatch = 1 := h1
      simp only [if_pos h1L, if_pos h1S, validBatch_signif]
      cases hv2 : validBatch c (some d) (X.drop (X.length / 2)) with
      | none => exact Or.inl ⟨rfl, rfl⟩
      | some d' =>
        simp only []
        refine Or.inr ⟨_, _, rfl, rfl, ?_⟩
        have hsim := updateCore_sim hsqrt c loose strict oL oS he hσ ht _ _
          (hrel1 (X.take (X.length / 2))) d' (X.drop (X.length / 2))
        refine hsim.2 ?_
        rw [updateCore_first_quiet _ _ _ _ _ rfl]
        simp
    · have h1L : ¬ ({ c with signif := loose } : Cfg K).detectBatch = 1 := h1
      have h1S : ¬ ({ c with signif := strict } : Cfg K).detectBatch = 1 := h1
      simp only [if_neg h1L, if_neg h1S]
      exact Or.inr ⟨_, _, rfl, rfl, hrel1 X⟩

/-- **one public call under the two settings** -/
theorem step_sim (hsqrt : ∀ x : K, 0 ≤ sqrt x) (c : Cfg K) (loose strict : K)
    (hσ : c.stat = .stdev → loose ≤ strict) (a b : State K) (x y : Op K) (h : HRel a b)
    (hxy : OpRel x y ∧ (c.stat = .tstat → tcritOf x ≤ tcritOf y)) :
    (isD (stepT { c with signif := strict } b y).drift = true →
      isD (stepT { c with signif := loose } a x).drift = true) ∧
    (isD (stepT { c with signif := loose } a x).drift = false →
      HRel (stepT { c with signif := loose } a x) (stepT { c with signif := strict } b y)) := by
  have hq := h.quiet
  have hqb : b.drift ≠ .drift := hRel_drift h ▸ hq
  obtain ⟨hop, ht⟩ := hxy
  cases hop with
  | setRef X oL oS he =>
    simp only [tcritOf] at ht
    simp only [stepT, step]
    rcases setReference_sim hsqrt c loose strict oL oS he hσ ht a b h X with ⟨e1, e2⟩ | ⟨a', b', e1, e2, hr⟩
    · rw [e1, e2]
      exact ⟨fun hb => absurd (isD_true.1 hb) hqb, fun _ => h⟩
    · rw [e1, e2]
      simp only [Option.getD_some]
      exact ⟨fun hb => by rw [isD_true] at hb ⊢; rw [hRel_drift hr]; exact hb, fun _ => hr⟩
  | batch X oL oS he =>
    simp only [tcritOf] at ht
    have hab := hRel_eq h
    have hdim : a.dim = b.dim := by rw [hab]
    have hhr : a.hasRef = b.hasRef := by rw [hab]
    simp only [stepT, step, update, if_neg hq, if_neg hqb, validBatch_signif]
    rw [hhr, hdim]
    cases b.hasRef with
    | false =>
      simp only [Bool.false_eq_true, if_false, Option.getD_none]
      exact ⟨fun hb => absurd (isD_true.1 hb) hqb, fun _ => h⟩
    | true =>
      simp only [if_true]
      cases validBatch c b.dim X with
      | none =>
        simp only [Option.getD_none]
        exact ⟨fun hb => absurd (isD_true.1 hb) hqb, fun _ => h⟩
      | some d =>
        simp only [Option.getD_some]
        have hsim := updateCore_sim hsqrt c loose strict oL oS he hσ ht a b h d X
        exact ⟨fun hb => isD_true.2 (hsim.1 (isD_true.1 hb)), fun ha => hsim.2 (isD_false.1 ha)⟩

/-- **HDDDM / CDBD: a stricter threshold never makes the first drift earlier.**  For every
    configuration `c`, every pair of related non-drift states (e.g. the same state), every history of
    public calls (`update`, `set_reference`; rejected calls leave the state) given to both runs with
    oracle values that share the bootstrap ε₀:
    * statistic `stdev`: `loose ≤ strict` standard deviations;
    * statistic `tstat`: at every call the critical value supplied to the looser run is at most the one
      supplied to the stricter run (what `t.ppf(1 - s/2, df)` gives for `s_strict ≤ s_loose`). -/
theorem hdm_first_drift_mono (hsqrt : ∀ x : K, 0 ≤ sqrt x) (c : Cfg K) (loose strict : K)
    (hσ : c.stat = .stdev → loose ≤ strict) (a b : State K) (h : HRel a b) (xs ys : List (Op K))
    (hxy : Zip (fun x y => OpRel x y ∧ (c.stat = .tstat → tcritOf x ≤ tcritOf y)) xs ys) :
    NoLater (firstIdx (driftTrace (stepT { c with signif := loose }) (fun s => isD s.drift) a xs))
      (firstIdx (driftTrace (stepT { c with signif := strict }) (fun s => isD s.drift) b ys)) :=
  sim_first_drift_mono _ _ _ _ HRel _
    (fun a b x y h hxy => step_sim hsqrt c loose strict hσ a b x y h hxy) xs ys hxy a b h

/-- **statistic `stdev`**: one history (same oracle values) under `loose ≤ strict` standard deviations -/
theorem hdm_stdev_first_drift_mono (hsqrt : ∀ x : K, 0 ≤ sqrt x) (c : Cfg K) (hst : c.stat = .stdev)
    (loose strict : K) (hle : loose ≤ strict) (s : State K) (hs : s.drift ≠ .drift) (xs : List (Op K)) :
    NoLater (firstIdx (driftTrace (stepT { c with signif := loose }) (fun s => isD s.drift) s xs))
      (firstIdx (driftTrace (stepT { c with signif := strict }) (fun s => isD s.drift) s xs)) := by
  refine hdm_first_drift_mono hsqrt c loose strict (fun _ => hle) s s (hRel_refl s hs) xs xs ?_
  refine Zip.refl (fun x => ⟨?_, fun h => by simp [hst] at h⟩) xs
  cases x with
  | setRef X o => exact OpRel.setRef X o o rfl
  | batch X o => exact OpRel.batch X o o rfl

/-- the history `ops` with its critical values replaced, call by call, by `ts` -/
def withTcrit : List (Op K) → List K → List (Op K)
  | [], _ => []
  | op :: ops, [] => op :: ops
  | .setRef X o :: ops, t :: ts => .setRef X { o with tcrit := t } :: withTcrit ops ts
  | .batch X o :: ops, t :: ts => .batch X { o with tcrit := t } :: withTcrit ops ts

/-- **statistic `tstat`**: the same configuration run on one history with two streams of critical
    values, ordered call by call (`tsL[i] ≤ tsS[i]`: the looser significance gives the smaller
    critical value); `signif` itself is not read by the model for this statistic -/
theorem hdm_tstat_first_drift_mono (hsqrt : ∀ x : K, 0 ≤ sqrt x) (c : Cfg K) (hst : c.stat = .tstat)
    (s : State K) (hs : s.drift ≠ .drift) (ops : List (Op K)) (tsL tsS : List K)
    (hlen : tsL.length = tsS.length) (hle : ∀ i (h1 : i < tsL.length) (h2 : i < tsS.length), tsL[i] ≤ tsS[i]) :
    NoLater (firstIdx (driftTrace (stepT c) (fun s => isD s.drift) s (withTcrit ops tsL)))
      (firstIdx (driftTrace (stepT c) (fun s => isD s.drift) s (withTcrit ops tsS))) := by
  refine hdm_first_drift_mono hsqrt c c.signif c.signif (fun h => by simp [hst] at h) s s
    (hRel_refl s hs) (withTcrit ops tsL) (withTcrit ops tsS) ?_
  · induction ops generalizing tsL tsS with
    | nil => exact Zip.nil
    | cons op ops ih =>
      cases tsL with
      | nil =>
        cases tsS with
        | nil =>
          simp only [withTcrit]
          refine Zip.refl (fun x => ⟨?_, fun _ => le_refl _⟩) _
          cases x with
          | setRef X o => exact OpRel.setRef X o o rfl
          | batch X o => exact OpRel.batch X o o rfl
        | cons t ts => simp at hlen
      | cons tl tsL =>
        cases tsS with
        | nil => simp at hlen
        | cons tS tsS =>
          have h0 : tl ≤ tS := hle 0 (by simp) (by simp)
          have hrest := ih tsL tsS (by simpa using hlen)
            (fun i h1 h2 => by
              have := hle (i + 1) (by simp; omega) (by simp; omega)
              simpa only [List.getElem_cons_succ] using this)
          cases op with
          | setRef X o =>
            simp only [withTcrit]
            exact Zip.cons ⟨OpRel.setRef X _ _ rfl, fun _ => h0⟩ hrest
          | batch X o =>
            simp only [withTcrit]
            exact Zip.cons ⟨OpRel.batch X _ _ rfl, fun _ => h0⟩ hrest

end field

/-! ## over `ℝ` the square-root hypothesis is a theorem -/
section real
open scoped MV.HDM

theorem real_sqrt_nonneg : ∀ x : ℝ, 0 ≤ (sqrt x : ℝ) := fun x => Real.sqrt_nonneg x

/-- `hdm_first_drift_mono` at `ℝ` (`Real.sqrt`, `Real.log`): no hypothesis on the square root -/
theorem hdm_first_drift_mono_real (c : Cfg ℝ) (loose strict : ℝ)
    (hσ : c.stat = .stdev → loose ≤ strict) (a b : State ℝ) (h : HRel a b) (xs ys : List (Op ℝ))
    (hxy : Zip (fun x y => OpRel x y ∧ (c.stat = .tstat → tcritOf x ≤ tcritOf y)) xs ys) :
    NoLater (firstIdx (driftTrace (stepT { c with signif := loose }) (fun s => isD s.drift) a xs))
      (firstIdx (driftTrace (stepT { c with signif := strict }) (fun s => isD s.drift) b ys)) :=
  hdm_first_drift_mono real_sqrt_nonneg c loose strict hσ a b h xs ys hxy

end real

/-! ## Non-vacuity: carrier `ℚ` with a non-negative stand-in for `sqrt`, a user divergence (number of
    batch rows in the first bin), `detect_batch = 3`; batches of `k` zeros and one 4.  The recorded
    distances are 2, 3, 1, 1, 12, so ε = 1, 2, 0, 11; the first test (third batch) compares ε = 2 with
    β = 1/2 + s/8 (`stdev`) resp. 1/2 + t/16 (`tstat`). -/
namespace Examples
local instance exSqrt : HasSqrt ℚ := ⟨fun x => if x < 0 then 0 else x⟩
local instance : HasLogExp ℚ := ⟨id, id⟩
local instance : HasLog1p ℚ := ⟨id⟩
local instance : MV.HDM.HasTrunc ℚ := ⟨fun x => ⌊x⌋.toNat⟩

theorem exSqrt_nonneg : ∀ x : ℚ, 0 ≤ sqrt x := by
  intro x
  show 0 ≤ (if x < 0 then 0 else x)
  split
  · exact le_refl _
  · rename_i h; exact not_lt.1 h

def cfg (st : Stat) : Cfg ℚ :=
  { div := .user (fun _ t => ((t.headD 0 : Nat) : ℚ)), detectBatch := 3, stat := st, signif := 0 }
def bt (k : Nat) : List (List ℚ) := List.replicate k [0] ++ [[4]]
def ops (t : ℚ) : List (Op ℚ) :=
  [.setRef (bt 1) ⟨0, t⟩, .batch (bt 1) ⟨0, t⟩, .batch (bt 3) ⟨0, t⟩, .batch (bt 1) ⟨0, t⟩,
   .batch (bt 1) ⟨0, t⟩, .batch (bt 12) ⟨0, t⟩]
def fd (c : Cfg ℚ) (l : List (Op ℚ)) : Option Nat :=
  firstIdx (driftTrace (stepT c) (fun s => isD s.drift) init l)

/-- `stdev`: 0 standard deviations alarm on the fourth call, 16 only on the sixth -/
example : fd { cfg .stdev with signif := 0 } (ops 0) = some 3 ∧
    fd { cfg .stdev with signif := 16 } (ops 0) = some 5 := by decide +kernel
example (l : List (Op ℚ)) : NoLater (fd { cfg .stdev with signif := 0 } l) (fd { cfg .stdev with signif := 16 } l) :=
  hdm_stdev_first_drift_mono exSqrt_nonneg (cfg .stdev) rfl 0 16 (by norm_num) init (by simp [init]) l

/-- `tstat`: critical value 0 alarms on the fourth call, critical value 32 only on the sixth -/
example : fd (cfg .tstat) (ops 0) = some 3 ∧ fd (cfg .tstat) (ops 32) = some 5 := by decide +kernel
example : withTcrit (ops 0) [32, 32, 32, 32, 32, 32] = ops 32 := rfl
example (l : List (Op ℚ)) : NoLater (fd (cfg .tstat) (withTcrit l [0, 0, 0, 0, 0, 0]))
    (fd (cfg .tstat) (withTcrit l [32, 32, 32, 32, 32, 32])) :=
  hdm_tstat_first_drift_mono exSqrt_nonneg (cfg .tstat) rfl init (by simp [init]) l _ _ rfl
    (by intro i h1 h2
        simp only [List.length_cons, List.length_nil] at h1
        have : i = 0 ∨ i = 1 ∨ i = 2 ∨ i = 3 ∨ i = 4 ∨ i = 5 := by omega
        rcases this with rfl | rfl | rfl | rfl | rfl | rfl <;> norm_num)

/-- before either alarms the two runs are in different states (the recorded β differs): `HRel`, not
    equality, is what is kept -/
example : ((ops 0).take 4 |>.foldl (stepT { cfg .stdev with signif := 16 }) init).beta = some (5 / 2) ∧
    ((ops 0).take 4 |>.foldl (stepT { cfg .stdev with signif := 32 }) init).beta = some (9 / 2) ∧
    ((ops 0).take 4 |>.foldl (stepT { cfg .stdev with signif := 32 }) init).drift = .none := by
  decide +kernel

end Examples

end MV.C17.HDM
