/-
  C12 — an ensemble is its election applied to members that run exactly as if alone.

  Everything below is proved for EVERY list of member machines (arbitrary state
  types, transition functions, selectors, acceptance behaviour), every election,
  every initial state and every sequence of update / reset / set_reference calls.
  No arithmetic on data is involved, so the statements hold verbatim for the
  instance executed by `mdriver`.

  Calls may be rejected (a member raises).  The theorems come in two layers:
  the general ones say exactly which calls reach which member (`delivered`), the
  headline ones are their specialisation to histories in which every call returns
  normally (`Accepted`) — the situation the property text speaks about.
-/
import MenelausVerif.Model.Ensemble
namespace MV.Ensemble
open MV MV.Election

variable {X Y : Type}

/-! ### 1. the member loop: who is reached, who is not -/

/-- does the loop get as far as position `i` — did every member before `i` return normally? -/
def reached (f : (m : Member X Y) → m.σ → m.σ × Bool) : (ms : List (Member X Y)) → States ms → Nat → Bool
  | _, _, 0 => true
  | [], _, _ + 1 => true
  | m :: ms, st, i + 1 => (f m st.1).2 && reached f ms st.2 i

/-- `reached`, declaratively -/
theorem reached_iff (f : (m : Member X Y) → m.σ → m.σ × Bool) (ms : List (Member X Y)) (st : States ms) (i : Nat) :
    reached f ms st i = true ↔
      ∀ j : Fin ms.length, j.val < i → (f (ms.get j) (States.get ms st j)).2 = true := by
  induction ms generalizing i with
  | nil => cases i <;> simp [reached]
  | cons m ms ih =>
    cases i with
    | zero => simp [reached]
    | succ i =>
      simp only [reached, Bool.and_eq_true, ih st.2 i]
      constructor
      · rintro ⟨h0, hr⟩ ⟨j, hj⟩ hji
        cases j with
        | zero => exact h0
        | succ j => exact hr ⟨j, Nat.lt_of_succ_lt_succ hj⟩ (Nat.lt_of_succ_lt_succ hji)
      · intro h
        refine ⟨h ⟨0, Nat.succ_pos _⟩ (Nat.succ_pos _), fun j hj => ?_⟩
        exact h ⟨j.val + 1, Nat.succ_lt_succ j.isLt⟩ (Nat.succ_lt_succ hj)

theorem reached_mono (f : (m : Member X Y) → m.σ → m.σ × Bool) (ms : List (Member X Y)) (st : States ms)
    {i j : Nat} (hij : i ≤ j) (h : reached f ms st j = true) : reached f ms st i = true := by
  rw [reached_iff] at h ⊢
  exact fun k hk => h k (Nat.lt_of_lt_of_le hk hij)

/-- **fan-out.**  After the loop, a member that was reached is in the state its own call leaves it in
    (called with the input *its* selector picks); a member that was not reached is untouched. -/
theorem loop_member (f : (m : Member X Y) → m.σ → m.σ × Bool) (ms : List (Member X Y)) (st : States ms)
    (i : Fin ms.length) :
    States.get ms (loopAll f ms st).1 i
      = if reached f ms st i then (f (ms.get i) (States.get ms st i)).1 else States.get ms st i := by
  induction ms with
  | nil => exact i.elim0
  | cons m ms ih =>
    obtain ⟨i, hi⟩ := i
    cases i with
    | zero =>
      simp only [reached, if_true]
      unfold loopAll
      by_cases h : (f m st.1).2 <;> simp only [h] <;> rfl
    | succ i =>
      have hi' : i < ms.length := Nat.lt_of_succ_lt_succ hi
      have ih' := ih st.2 ⟨i, hi'⟩
      unfold loopAll
      by_cases h : (f m st.1).2 = true
      · simp only [h, if_true, reached, Bool.true_and]
        exact ih'
      · have h' : (f m st.1).2 = false := by simpa using h
        simp only [h', reached, Bool.false_and]
        rfl

/-- the loop runs to completion iff every member returned normally -/
theorem loop_completed (f : (m : Member X Y) → m.σ → m.σ × Bool) (ms : List (Member X Y)) (st : States ms) :
    (loopAll f ms st).2 = reached f ms st ms.length := by
  induction ms with
  | nil => rfl
  | cons m ms ih =>
    unfold loopAll
    by_cases h : (f m st.1).2 = true
    · simp only [h, if_true, List.length_cons, reached, Bool.true_and]; exact ih st.2
    · have h' : (f m st.1).2 = false := by simpa using h
      simp [h', reached]

variable {ms : List (Member X Y)}

/-- does call `op` on the ensemble in state `s` reach member number `i`? -/
def State.reaches (s : State ms) (op : Op X Y) (i : Nat) : Bool := reached (callOf op) ms s.mem i

theorem completes_eq (s : State ms) (op : Op X Y) : s.completes op = s.reaches op ms.length :=
  loop_completed _ ms s.mem

/-- every call reaches the first member; a call that returns normally reached every member -/
theorem reaches_zero (s : State ms) (op : Op X Y) : s.reaches op 0 = true := by
  cases ms <;> rfl

theorem reaches_of_completes (s : State ms) (op : Op X Y) (h : s.completes op = true) (i : Fin ms.length) :
    s.reaches op i = true :=
  reached_mono _ ms s.mem (Nat.le_of_lt i.isLt) (by rwa [completes_eq] at h)

/-- `reset` never stops half-way -/
theorem reset_completes (s : State ms) : s.completes .reset = true := by
  rw [completes_eq, State.reaches, reached_iff]
  intro j _; rfl

theorem apply_mem (s : State ms) (op : Op X Y) : (s.apply op).mem = (loopAll (callOf op) ms s.mem).1 := by
  unfold State.apply
  by_cases h : (loopAll (callOf op) ms s.mem).2 = true
  · simp only [h, if_true]; cases op <;> rfl
  · have h' : (loopAll (callOf op) ms s.mem).2 = false := by simpa using h
    simp only [h']; rfl

/-- one ensemble call, seen from member `i`: the same call on the member alone, on the input its
    selector picks — if the loop got that far; nothing otherwise.  (`update_fanout`,
    `reset_fanout`, `set_reference_fanout` in one.) -/
theorem apply_member (s : State ms) (op : Op X Y) (i : Fin ms.length) :
    States.get ms (s.apply op).mem i
      = if s.reaches op i then (ms.get i).apply (States.get ms s.mem i) (op.map (ms.get i).sel)
        else States.get ms s.mem i := by
  rw [apply_mem, loop_member]; rfl

/-- `reset()` reaches every member -/
theorem reset_fanout (s : State ms) (i : Fin ms.length) :
    States.get ms (s.apply .reset).mem i = (ms.get i).reset (States.get ms s.mem i) := by
  rw [apply_member, reaches_of_completes s .reset (reset_completes s) i]; rfl

/-- an accepted `update` reaches every member, each with the columns its own selector picks -/
theorem update_fanout (s : State ms) (x : X) (y : Y) (h : s.completes (.update x y) = true) (i : Fin ms.length) :
    States.get ms (s.apply (.update x y)).mem i
      = ((ms.get i).step (States.get ms s.mem i) ((ms.get i).sel x) y).1 := by
  rw [apply_member, reaches_of_completes s _ h i]; rfl

/-- an accepted `set_reference` reaches every member, each with the columns its own selector picks -/
theorem set_reference_fanout (s : State ms) (x : X) (y : Y) (h : s.completes (.setRef x y) = true)
    (i : Fin ms.length) :
    States.get ms (s.apply (.setRef x y)).mem i
      = ((ms.get i).setRef (States.get ms s.mem i) ((ms.get i).sel x) y).1 := by
  rw [apply_member, reaches_of_completes s _ h i]; rfl

/-- a call during which some member raises leaves everything of the ensemble itself as it was:
    election not consulted, verdict stale, counters not moved -/
theorem rejected_call_own_state (s : State ms) (op : Op X Y) (h : s.completes op = false) :
    (s.apply op).elec = s.elec ∧ (s.apply op).drift = s.drift ∧ (s.apply op).total = s.total
      ∧ (s.apply op).since = s.since := by
  unfold State.completes at h
  unfold State.apply
  simp only [h]
  exact ⟨rfl, rfl, rfl, rfl⟩

/-! ### 2. members run exactly as if alone -/

/-- the calls of a history that actually reach member number `i` -/
def delivered : State ms → List (Op X Y) → Nat → List (Op X Y)
  | _, [], _ => []
  | s, op :: ops, i =>
    if s.reaches op i then op :: delivered (s.apply op) ops i else delivered (s.apply op) ops i

/-- every call of the history returns normally -/
def Accepted : State ms → List (Op X Y) → Prop
  | _, [] => True
  | s, op :: ops => s.completes op = true ∧ Accepted (s.apply op) ops

/-- general form: member `i` is in the state it reaches when run on its own over exactly the calls that
    reached it (each `X` replaced by the columns its selector picks) -/
theorem member_runs_alone_general (s : State ms) (ops : List (Op X Y)) (i : Fin ms.length) :
    States.get ms (run s ops).mem i
      = (ms.get i).alone (States.get ms s.mem i) ((delivered s ops i).map (Op.map (ms.get i).sel)) := by
  induction ops generalizing s with
  | nil => rfl
  | cons op ops ih =>
    have h := ih (s.apply op)
    rw [apply_member] at h
    simp only [run, List.foldl_cons] at h ⊢
    rw [h]
    have hd : delivered s (op :: ops) i
        = if s.reaches op i then op :: delivered (s.apply op) ops i else delivered (s.apply op) ops i := rfl
    rw [hd]
    by_cases hr : s.reaches op i = true
    · simp only [hr, if_true, List.map_cons, Member.alone, List.foldl_cons]
    · have hr' : s.reaches op i = false := by simpa using hr
      simp [hr']

theorem delivered_of_accepted (s : State ms) (ops : List (Op X Y)) (h : Accepted s ops) (i : Fin ms.length) :
    delivered s ops i = ops := by
  induction ops generalizing s with
  | nil => rfl
  | cons op ops ih =>
    obtain ⟨h1, h2⟩ := h
    show (if s.reaches op i then op :: delivered (s.apply op) ops i else delivered (s.apply op) ops i) = _
    rw [reaches_of_completes s op h1 i, if_pos rfl, ih _ h2]

/-- every call, accepted or not, reaches the first member -/
theorem delivered_first (s : State ms) (ops : List (Op X Y)) : delivered s ops 0 = ops := by
  induction ops generalizing s with
  | nil => rfl
  | cons op ops ih =>
    show (if s.reaches op 0 then op :: delivered (s.apply op) ops 0 else delivered (s.apply op) ops 0) = _
    rw [reaches_zero, if_pos rfl, ih]

/-- **member_runs_alone.**  After the ensemble processed `ops` (all returning normally), member `i` is in the
    state machine `i` reaches when run on its own over the same calls, each `X` replaced by the
    columns its selector picks.  (Nothing else enters: not the other members, not the election,
    not the ensemble's verdict or counters.) -/
theorem member_runs_alone (s : State ms) (ops : List (Op X Y)) (h : Accepted s ops) (i : Fin ms.length) :
    States.get ms (run s ops).mem i
      = (ms.get i).alone (States.get ms s.mem i) (ops.map (Op.map (ms.get i).sel)) := by
  rw [member_runs_alone_general, delivered_of_accepted s ops h i]

/-- a selector does not leak columns: two accepted histories that look the same through member `i`'s
    selector leave member `i` in the same state -/
theorem no_column_leak (s : State ms) (ops ops' : List (Op X Y)) (i : Fin ms.length)
    (ha : Accepted s ops) (ha' : Accepted s ops')
    (h : ops.map (Op.map (ms.get i).sel) = ops'.map (Op.map (ms.get i).sel)) :
    States.get ms (run s ops).mem i = States.get ms (run s ops').mem i := by
  rw [member_runs_alone s ops ha, member_runs_alone s ops' ha', h]

/-- member `i` depends on nothing but its own initial state: another election (or election state),
    other counters, other states of the other members change nothing, as long as the calls are accepted -/
theorem member_independent_of_rest (s s' : State ms) (ops : List (Op X Y)) (i : Fin ms.length)
    (ha : Accepted s ops) (ha' : Accepted s' ops)
    (h : States.get ms s.mem i = States.get ms s'.mem i) :
    States.get ms (run s ops).mem i = States.get ms (run s' ops).mem i := by
  rw [member_runs_alone s ops ha, member_runs_alone s' ops ha', h]

/-! ### 3. the views report exactly the members' values -/

theorem votes_eq (ms : List (Member X Y)) (st : States ms) :
    votes ms st = List.ofFn (fun i : Fin ms.length => (ms.get i).drift (States.get ms st i)) := by
  induction ms with
  | nil => rfl
  | cons m ms ih =>
    show m.drift st.1 :: votes ms st.2 = _
    rw [ih st.2]
    exact (List.ofFn_succ (f := fun i : Fin (ms.length + 1) =>
      ((m :: ms).get i).drift (States.get (m :: ms) st i))).symm

/-- `drift_states`: one entry per member, in insertion order, keyed by name, value = the member's `drift_state` -/
theorem drift_states_view (ms : List (Member X Y)) (st : States ms) :
    driftStates ms st
      = List.ofFn (fun i : Fin ms.length => ((ms.get i).name, (ms.get i).drift (States.get ms st i))) := by
  induction ms with
  | nil => rfl
  | cons m ms ih =>
    show (m.name, m.drift st.1) :: driftStates ms st.2 = _
    rw [ih st.2]
    exact (List.ofFn_succ (f := fun i : Fin (ms.length + 1) =>
      (((m :: ms).get i).name, ((m :: ms).get i).drift (States.get (m :: ms) st i)))).symm

/-- `retraining_recs`: the members that have the attribute, in insertion order, with their value; the others omitted -/
theorem retraining_recs_view (ms : List (Member X Y)) (st : States ms) :
    retrainingRecs ms st
      = (List.ofFn (fun i : Fin ms.length =>
          ((ms.get i).recs (States.get ms st i)).map (fun r => ((ms.get i).name, r)))).filterMap id := by
  induction ms with
  | nil => rfl
  | cons m ms ih =>
    have hsucc := List.ofFn_succ (f := fun i : Fin (ms.length + 1) =>
      (((m :: ms).get i).recs (States.get (m :: ms) st i)).map (fun r => (((m :: ms).get i).name, r)))
    refine Eq.trans ?_ (congrArg (List.filterMap id) hsucc).symm
    show (match m.recs st.1 with
          | some r => (m.name, r) :: retrainingRecs ms st.2
          | Option.none => retrainingRecs ms st.2)
        = List.filterMap id ((m.recs st.1).map (fun r => (m.name, r)) :: List.ofFn (fun i : Fin ms.length =>
            ((ms.get i).recs (States.get ms st.2 i)).map (fun r => ((ms.get i).name, r))))
    rw [ih st.2]
    cases m.recs st.1 with
    | none => simp
    | some r => simp

/-- the views after any accepted history are the independently run machines' read-outs -/
theorem drift_states_after (s : State ms) (ops : List (Op X Y)) (h : Accepted s ops) :
    driftStates ms (run s ops).mem
      = List.ofFn (fun i : Fin ms.length => ((ms.get i).name,
          (ms.get i).drift ((ms.get i).alone (States.get ms s.mem i) (ops.map (Op.map (ms.get i).sel))))) := by
  rw [drift_states_view]
  congr 1; funext i; rw [member_runs_alone s ops h]

theorem retraining_recs_after (s : State ms) (ops : List (Op X Y)) (h : Accepted s ops) :
    retrainingRecs ms (run s ops).mem
      = (List.ofFn (fun i : Fin ms.length =>
          ((ms.get i).recs ((ms.get i).alone (States.get ms s.mem i) (ops.map (Op.map (ms.get i).sel)))).map
            (fun r => ((ms.get i).name, r)))).filterMap id := by
  rw [retraining_recs_view]
  congr 2; funext i; rw [member_runs_alone s ops h]

/-! dict semantics: with distinct keys, looking a member up by name gives its value -/

theorem retrainingRecs_lookup_none (ms : List (Member X Y)) (st : States ms) (k : String)
    (h : k ∉ ms.map (·.name)) : (retrainingRecs ms st).lookup k = Option.none := by
  induction ms with
  | nil => rfl
  | cons m ms ih =>
    simp only [List.map_cons, List.mem_cons, not_or] at h
    have hk : (k == m.name) = false := by simpa using h.1
    show List.lookup k (match m.recs st.1 with
          | some r => (m.name, r) :: retrainingRecs ms st.2
          | Option.none => retrainingRecs ms st.2) = _
    cases m.recs st.1 with
    | none => exact ih st.2 h.2
    | some r =>
      show List.lookup k ((m.name, r) :: retrainingRecs ms st.2) = _
      rw [List.lookup_cons, hk]; exact ih st.2 h.2

theorem drift_states_lookup (ms : List (Member X Y)) (st : States ms) (hnd : (ms.map (·.name)).Nodup)
    (i : Fin ms.length) :
    (driftStates ms st).lookup (ms.get i).name = some ((ms.get i).drift (States.get ms st i)) := by
  induction ms with
  | nil => exact i.elim0
  | cons m ms ih =>
    obtain ⟨i, hi⟩ := i
    rw [List.map_cons, List.nodup_cons] at hnd
    cases i with
    | zero =>
      show List.lookup m.name ((m.name, m.drift st.1) :: driftStates ms st.2) = _
      rw [List.lookup_cons]; simp; rfl
    | succ i =>
      have hi' : i < ms.length := Nat.lt_of_succ_lt_succ hi
      have hne : ((ms.get ⟨i, hi'⟩).name == m.name) = false := by
        have hmem : (ms.get ⟨i, hi'⟩).name ∈ ms.map (·.name) := List.mem_map.mpr ⟨_, List.get_mem ms ⟨i, hi'⟩, rfl⟩
        have : (ms.get ⟨i, hi'⟩).name ≠ m.name := fun e => hnd.1 (e ▸ hmem)
        simpa using this
      show List.lookup (ms.get ⟨i, hi'⟩).name ((m.name, m.drift st.1) :: driftStates ms st.2) = _
      rw [List.lookup_cons, hne]
      exact ih st.2 hnd.2 ⟨i, hi'⟩

/-- with distinct member names, `retraining_recs[name i]` is member `i`'s value, and the key is
    absent exactly when the member has no such attribute -/
theorem retraining_recs_lookup (ms : List (Member X Y)) (st : States ms) (hnd : (ms.map (·.name)).Nodup)
    (i : Fin ms.length) :
    (retrainingRecs ms st).lookup (ms.get i).name = (ms.get i).recs (States.get ms st i) := by
  induction ms with
  | nil => exact i.elim0
  | cons m ms ih =>
    obtain ⟨i, hi⟩ := i
    rw [List.map_cons, List.nodup_cons] at hnd
    cases i with
    | zero =>
      show List.lookup m.name (match m.recs st.1 with
          | some r => (m.name, r) :: retrainingRecs ms st.2
          | Option.none => retrainingRecs ms st.2) = m.recs st.1
      cases m.recs st.1 with
      | none => exact retrainingRecs_lookup_none ms st.2 m.name hnd.1
      | some r =>
        show List.lookup m.name ((m.name, r) :: retrainingRecs ms st.2) = _
        rw [List.lookup_cons]; simp
    | succ i =>
      have hi' : i < ms.length := Nat.lt_of_succ_lt_succ hi
      have hne : ((ms.get ⟨i, hi'⟩).name == m.name) = false := by
        have hmem : (ms.get ⟨i, hi'⟩).name ∈ ms.map (·.name) := List.mem_map.mpr ⟨_, List.get_mem ms ⟨i, hi'⟩, rfl⟩
        have : (ms.get ⟨i, hi'⟩).name ≠ m.name := fun e => hnd.1 (e ▸ hmem)
        simpa using this
      show List.lookup (ms.get ⟨i, hi'⟩).name (match m.recs st.1 with
          | some r => (m.name, r) :: retrainingRecs ms st.2
          | Option.none => retrainingRecs ms st.2) = _
      cases m.recs st.1 with
      | none => exact ih st.2 hnd.2 ⟨i, hi'⟩
      | some r =>
        show List.lookup (ms.get ⟨i, hi'⟩).name ((m.name, r) :: retrainingRecs ms st.2) = _
        rw [List.lookup_cons, hne]
        exact ih st.2 hnd.2 ⟨i, hi'⟩

/-! ### 4. the verdict is the election applied to the members, in insertion order -/

theorem run_append (s : State ms) (a b : List (Op X Y)) : run s (a ++ b) = run (run s a) b := by
  simp [run, List.foldl_append]

theorem run_singleton (s : State ms) (op : Op X Y) : run s [op] = s.apply op := rfl

theorem accepted_append (s : State ms) (a b : List (Op X Y)) :
    Accepted s (a ++ b) ↔ Accepted s a ∧ Accepted (run s a) b := by
  induction a generalizing s with
  | nil => simp [Accepted, run]
  | cons op a ih =>
    simp only [List.cons_append, Accepted, ih, run, List.foldl_cons, and_assoc]

/-- the `drift_state`s, in insertion order, of the member machines run independently over `ops` -/
def aloneVotes (ms : List (Member X Y)) (mem : States ms) (ops : List (Op X Y)) : List Drift :=
  List.ofFn fun i : Fin ms.length =>
    (ms.get i).drift ((ms.get i).alone (States.get ms mem i) (ops.map (Op.map (ms.get i).sel)))

theorem votes_run (s : State ms) (ops : List (Op X Y)) (h : Accepted s ops) :
    votes ms (run s ops).mem = aloneVotes ms s.mem ops := by
  rw [votes_eq]; unfold aloneVotes
  congr 1; funext i; rw [member_runs_alone s ops h]

/-- what a completed call leaves behind -/
theorem apply_of_completes (s : State ms) (op : Op X Y) (h : s.completes op = true) :
    s.apply op = s.finish (s.apply op).mem op := by
  have hm := apply_mem s op
  unfold State.completes at h
  unfold State.apply at hm ⊢
  simp only [h, if_true] at hm ⊢
  rw [hm]

/-- **verdict.**  After an (accepted) update, the ensemble's `drift_state` is its election — in the state the
    earlier calls left it in — applied to the drift states, in insertion order, that the members
    have when each is run alone over the whole history including this update. -/
theorem verdict (s : State ms) (ops : List (Op X Y)) (x : X) (y : Y) (h : Accepted s (ops ++ [.update x y])) :
    (run s (ops ++ [.update x y])).drift
      = ((run s ops).elec.call (aloneVotes ms s.mem (ops ++ [.update x y]))).1 := by
  rw [← votes_run s _ h, run_append]
  have hc : (run s ops).completes (.update x y) = true := ((accepted_append s ops _).mp h).2.1
  show ((run s ops).apply (.update x y)).drift = _
  rw [apply_of_completes _ _ hc]
  rfl

theorem elec_after_update (s : State ms) (ops : List (Op X Y)) (x : X) (y : Y)
    (h : Accepted s (ops ++ [.update x y])) :
    (run s (ops ++ [.update x y])).elec
      = ((run s ops).elec.call (aloneVotes ms s.mem (ops ++ [.update x y]))).2 := by
  rw [← votes_run s _ h, run_append]
  have hc : (run s ops).completes (.update x y) = true := ((accepted_append s ops _).mp h).2.1
  show ((run s ops).apply (.update x y)).elec = _
  rw [apply_of_completes _ _ hc]
  rfl

/-- `reset`: verdict back to `None`, since-counter to 0, total and the election object
    (ConfirmedElection's wait counters!) untouched -/
theorem after_reset (s : State ms) (ops : List (Op X Y)) :
    let r := run s (ops ++ [.reset])
    r.drift = .none ∧ r.since = 0 ∧ r.total = (run s ops).total ∧ r.elec = (run s ops).elec := by
  simp only [run_append, run_singleton]
  rw [apply_of_completes _ _ (reset_completes _)]
  exact ⟨rfl, rfl, rfl, rfl⟩

/-- `set_reference` touches nothing of the ensemble itself (whether or not a member rejects it) -/
theorem after_set_reference (s : State ms) (ops : List (Op X Y)) (x : X) (y : Y) :
    let r := run s (ops ++ [.setRef x y])
    r.drift = (run s ops).drift ∧ r.since = (run s ops).since ∧ r.total = (run s ops).total
      ∧ r.elec = (run s ops).elec := by
  simp only [run_append, run_singleton]
  by_cases hc : (run s ops).completes (.setRef x y) = true
  · rw [apply_of_completes _ _ hc]; exact ⟨rfl, rfl, rfl, rfl⟩
  · have hc' : (run s ops).completes (.setRef x y) = false := by simpa using hc
    obtain ⟨h1, h2, h3, h4⟩ := rejected_call_own_state _ _ hc'
    exact ⟨h2, h4, h3, h1⟩

/-- feeding an election a sequence of vote vectors -/
def Elec.feed (e : Elec) (bs : List (List Drift)) : Elec := bs.foldl (fun e vs => (e.call vs).2) e

/-- the vote vectors an election gets to see over a history: one per `update`, made of the drift
    states the independently run members have right after that update (`pre` = calls already made) -/
def ballots (ms : List (Member X Y)) (mem : States ms) : List (Op X Y) → List (Op X Y) → List (List Drift)
  | _, [] => []
  | pre, .update x y :: ops =>
    aloneVotes ms mem (pre ++ [.update x y]) :: ballots ms mem (pre ++ [.update x y]) ops
  | pre, .reset :: ops => ballots ms mem (pre ++ [.reset]) ops
  | pre, .setRef x y :: ops => ballots ms mem (pre ++ [.setRef x y]) ops

theorem election_history_aux (s : State ms) (pre ops : List (Op X Y)) (h : Accepted s (pre ++ ops)) :
    (run s (pre ++ ops)).elec = (run s pre).elec.feed (ballots ms s.mem pre ops) := by
  induction ops generalizing pre with
  | nil => simp [ballots, Elec.feed]
  | cons op ops ih =>
    have hassoc : pre ++ op :: ops = (pre ++ [op]) ++ ops := by simp
    have h' : Accepted s ((pre ++ [op]) ++ ops) := hassoc ▸ h
    have hpre : Accepted s (pre ++ [op]) := ((accepted_append s _ _).mp h').1
    rw [hassoc, ih (pre ++ [op]) h']
    cases op with
    | update x y =>
      rw [elec_after_update s pre x y hpre]
      simp [ballots, Elec.feed]
    | reset => rw [(after_reset s pre).2.2.2]; simp [ballots]
    | setRef x y => rw [(after_set_reference s pre x y).2.2.2]; simp [ballots]

/-- **election_history.**  The election object after any accepted history is the initial one fed, in order,
    with one vote vector per update — each made of independently run members' states; resets and
    set_reference calls contribute nothing (a ConfirmedElection keeps waiting across `reset`). -/
theorem election_history (s : State ms) (ops : List (Op X Y)) (h : Accepted s ops) :
    (run s ops).elec = s.elec.feed (ballots ms s.mem [] ops) := by
  simpa [run] using election_history_aux s [] ops (by simpa using h)

/-! ### 5. the ensemble's own counters -/

/-- number of update calls of a history that returned normally -/
def completedUpdates : State ms → List (Op X Y) → Nat
  | _, [] => 0
  | s, op :: ops => (if op.isUpdate && s.completes op then 1 else 0) + completedUpdates (s.apply op) ops

theorem completedUpdates_of_accepted (s : State ms) (ops : List (Op X Y)) (h : Accepted s ops) :
    completedUpdates s ops = ops.countP Op.isUpdate := by
  induction ops generalizing s with
  | nil => rfl
  | cons op ops ih =>
    obtain ⟨h1, h2⟩ := h
    simp only [completedUpdates, h1, Bool.and_true, ih _ h2, List.countP_cons]
    omega

theorem apply_total (s : State ms) (op : Op X Y) :
    (s.apply op).total = s.total + (if op.isUpdate && s.completes op then 1 else 0) := by
  by_cases hc : s.completes op = true
  · rw [apply_of_completes s op hc, hc]
    cases op <;> simp [State.finish, Op.isUpdate]
  · have hc' : s.completes op = false := by simpa using hc
    rw [(rejected_call_own_state s op hc').2.2.1, hc']
    simp

/-- `total` counts exactly the updates that returned normally (a rejected update is not counted) -/
theorem total_counts_completed_updates (s : State ms) (ops : List (Op X Y)) :
    (run s ops).total = s.total + completedUpdates s ops := by
  induction ops generalizing s with
  | nil => simp [run, completedUpdates]
  | cons op ops ih =>
    have h := ih (s.apply op)
    simp only [run, List.foldl_cons] at h ⊢
    rw [h, apply_total, completedUpdates]
    omega

theorem total_counts_updates (s : State ms) (ops : List (Op X Y)) (h : Accepted s ops) :
    (run s ops).total = s.total + ops.countP Op.isUpdate := by
  rw [total_counts_completed_updates, completedUpdates_of_accepted s ops h]

theorem apply_since (s : State ms) (op : Op X Y) (hr : op.isReset = false) :
    (s.apply op).since = s.since + (if op.isUpdate && s.completes op then 1 else 0) := by
  by_cases hc : s.completes op = true
  · rw [apply_of_completes s op hc, hc]
    cases op <;> simp_all [State.finish, Op.isUpdate, Op.isReset]
  · have hc' : s.completes op = false := by simpa using hc
    rw [(rejected_call_own_state s op hc').2.2.2, hc']
    simp

/-- no automatic restart: as long as nobody calls `reset`, `since_reset` counts every completed update,
    whatever verdicts the election produced on the way -/
theorem since_without_reset_general (s : State ms) (ops : List (Op X Y)) (h : ∀ op ∈ ops, op.isReset = false) :
    (run s ops).since = s.since + completedUpdates s ops := by
  induction ops generalizing s with
  | nil => simp [run, completedUpdates]
  | cons op ops ih =>
    have h' := ih (s.apply op) (fun o ho => h o (List.mem_cons_of_mem _ ho))
    simp only [run, List.foldl_cons] at h' ⊢
    rw [h', apply_since s op (h op (List.mem_cons_self ..)), completedUpdates]
    omega

theorem since_without_reset (s : State ms) (ops : List (Op X Y)) (ha : Accepted s ops)
    (h : ∀ op ∈ ops, op.isReset = false) :
    (run s ops).since = s.since + ops.countP Op.isUpdate := by
  rw [since_without_reset_general s ops h, completedUpdates_of_accepted s ops ha]

/-- `since_reset` = number of updates after the last explicit reset -/
theorem since_after_reset (s : State ms) (pre post : List (Op X Y)) (ha : Accepted s (pre ++ .reset :: post))
    (h : ∀ op ∈ post, op.isReset = false) :
    (run s (pre ++ .reset :: post)).since = post.countP Op.isUpdate := by
  have e : pre ++ Op.reset :: post = (pre ++ [Op.reset]) ++ post := by simp
  rw [e] at ha ⊢
  rw [run_append, since_without_reset _ _ ((accepted_append s _ _).mp ha).2 h, (after_reset s pre).2.1]
  omega

theorem since_le_total (s : State ms) (ops : List (Op X Y)) (h : s.since ≤ s.total) :
    (run s ops).since ≤ (run s ops).total := by
  induction ops generalizing s with
  | nil => simpa [run]
  | cons op ops ih =>
    simp only [run, List.foldl_cons]
    apply ih
    by_cases hc : s.completes op = true
    · rw [apply_of_completes s op hc]
      cases op <;> simp [State.finish] <;> omega
    · have hc' : s.completes op = false := by simpa using hc
      obtain ⟨_, _, h3, h4⟩ := rejected_call_own_state s op hc'
      omega

/-- a freshly built ensemble: `total` = number of updates so far -/
theorem total_from_init (mem : States ms) (e : Elec) (ops : List (Op X Y)) (h : Accepted (init ms mem e) ops) :
    (run (init ms mem e) ops).total = ops.countP Op.isUpdate := by
  rw [total_counts_updates _ _ h]; simp [init]

/-! ### non-vacuity: a concrete two-member ensemble whose members alarm at different times -/

section Example

/-- a member that sums the column it is given and alarms from 3 on; it rejects inputs above 9;
    `hasRecs` says whether it carries `retraining_recs` -/
def sumMember (name : String) (col : Nat × Nat → Nat) (hasRecs : Bool) : Member (Nat × Nat) Unit :=
  { name := name, σ := Nat, Xi := Nat, sel := col,
    step := fun s x _ => if x ≤ 9 then (s + x, true) else (s, false),
    setRef := fun _ x _ => (x, true), reset := fun _ => 0,
    drift := fun s => if s ≥ 3 then .drift else if s = 2 then .warning else .none,
    recs := fun s => if hasRecs then some (some s, Option.none) else Option.none }

def ms0 : List (Member (Nat × Nat) Unit) := [sumMember "b" Prod.fst true, sumMember "a" Prod.snd false]

def s0 (e : Elec) : State ms0 := init ms0 ((0 : Nat), (0 : Nat), ()) e

def ops0 : List (Op (Nat × Nat) Unit) := [.update (3, 0) (), .update (0, 2) (), .reset, .update (1, 3) ()]

def decAccepted : (s : State ms0) → (ops : List (Op (Nat × Nat) Unit)) → Decidable (Accepted s ops)
  | _, [] => isTrue trivial
  | s, op :: ops => @instDecidableAnd _ _ _ (decAccepted (s.apply op) ops)

instance (s : State ms0) (ops : List (Op (Nat × Nat) Unit)) : Decidable (Accepted s ops) := decAccepted s ops

-- the hypotheses of the theorems are satisfiable by a history with several calls of every kind
example : Accepted (s0 .majority) ops0 := by decide
-- the first member alarms at the first update, the second one only at the last; a ConfirmedElection(2, 5)
-- that started waiting at the first update is still waiting after the reset and confirms at the last
example : (run (s0 (.confirmed { sens := 2, wait := 5 })) (ops0.take 1)).drift = .none := by decide
example : (run (s0 (.confirmed { sens := 2, wait := 5 })) (ops0.take 2)).drift = .warning := by decide
example : (run (s0 (.confirmed { sens := 2, wait := 5 })) (ops0.take 3)).drift = .none := by decide
example : (run (s0 (.confirmed { sens := 2, wait := 5 })) ops0).drift = .drift := by decide
example : (run (s0 .majority) ops0).drift = .none := by decide
example : (run (s0 (.minApproval 1)) ops0).drift = .drift := by decide
example : driftStates ms0 (run (s0 .majority) ops0).mem = [("b", .none), ("a", .drift)] := by decide
example : retrainingRecs ms0 (run (s0 .majority) ops0).mem = [("b", (some 1, Option.none))] := by decide
example : ((run (s0 .majority) ops0).total, (run (s0 .majority) ops0).since) = (3, 1) := by decide
example : aloneVotes ms0 (s0 .majority).mem ops0 = [.none, .drift] := by decide
example : (ms0.map (·.name)).Nodup := by decide
-- a rejected update: the second member refuses 10; the first member has already been updated, the
-- ensemble's own counters and verdict do not move
example : (s0 .majority).completes (.update (1, 10) ()) = false := by decide
example : (delivered (s0 .majority) [.update (10, 1) (), .update (1, 1) ()] 1).length = 1 := by decide
example : (delivered (s0 .majority) [.update (1, 10) (), .update (1, 1) ()] 1).length = 2 := by decide
example : let r := run (s0 (.minApproval 1)) [.update (3, 10) ()]
    (r.total, r.since, r.drift, driftStates ms0 r.mem) = (0, 0, .none, [("b", .drift), ("a", .none)]) := by decide

end Example

end MV.Ensemble
