/-
  C15 — no mutation, no live references.  Theorems about the ownership discipline of
  `Model/Store.lean`.

  PARTIAL BY NATURE: these theorems say that the discipline (copy on validation, detector
  operations confined to detector-owned locations, injectors working on a fresh copy) IMPLIES
  the property; that menelaus follows the discipline is established only by the differential
  runs of harness/checks/c15.py (Python object identity is outside any Lean model).
  `aliasing_breaks_noninterference` shows the hypothesis is needed: a detector that keeps
  the caller's location (as `_validate_X` did before fix 7677206) is not covered.
-/
import MenelausVerif.Model.Store
namespace MV.Store
variable {α : Type}

/-- the two stores look the same to the detector -/
def DetEq (s t : Store α) : Prop :=
  s.next = t.next ∧ s.owner = t.owner ∧ ∀ l, s.owner l = .detector → s.mem l = t.mem l

theorem DetEq.refl (s : Store α) : DetEq s s := ⟨rfl, rfl, fun _ _ => rfl⟩

/-- the discipline of a detector operation -/
structure Disciplined (f : Store α → Store α) : Prop where
  /-- it reads only detector-owned locations -/
  reads_own : ∀ s t, DetEq s t → DetEq (f s) (f t)
  /-- it writes only detector-owned or fresh locations -/
  writes_own : ∀ s l, s.owner l = .caller → (f s).owner l = .caller ∧ (f s).mem l = s.mem l
  /-- it allocates properly -/
  keeps_wf : ∀ s, WF s → WF (f s)

/-- an observation of the detector depends on detector-owned memory only -/
def DetObs {γ : Type} (o : Store α → γ) : Prop := ∀ s t, DetEq s t → o s = o t

theorem detEq_poke (s : Store α) (k : Nat) (w : List α) : DetEq (pokeAt s k w) s := by
  unfold pokeAt
  split
  · rename_i hk
    refine ⟨rfl, rfl, ?_⟩
    intro l hl
    by_cases h : l = k
    · subst h; simp at hl; rw [hk] at hl; cases hl
    · simp [h]
  · exact DetEq.refl s

theorem detEq_trans {s t u : Store α} (h1 : DetEq s t) (h2 : DetEq t u) : DetEq s u := by
  refine ⟨h1.1.trans h2.1, h1.2.1.trans h2.2.1, ?_⟩
  intro l hl
  rw [h1.2.2 l hl]
  exact h2.2.2 l (by rw [← h1.2.1]; exact hl)

theorem detEq_call (s t : Store α) (tag : Tag) (v : List α) (h : DetEq s t) :
    DetEq (step s (.call tag v)) (step t (.call tag v)) := by
  obtain ⟨sm, so, sn⟩ := s
  obtain ⟨tm, to, tn⟩ := t
  obtain ⟨hn, ho, hm⟩ := h
  simp only at hn ho hm
  subst hn; subst ho
  refine ⟨rfl, rfl, ?_⟩
  intro l hl
  simp only [step, copyIn, alloc] at hl ⊢
  by_cases h1 : l = sn + 1
  · simp [h1]
  · by_cases h2 : l = sn
    · simp [h2] at hl
    · simp only [h1, h2, if_false] at hl ⊢
      exact hm l hl

/-- **noninterference**: for any interleaving of calls, detector operations and caller writes, every
    observation of the detector equals the corresponding observation of the run without the writes —
    provided every detector operation is disciplined. -/
theorem noninterference {γ : Type} (o : Store α → γ) (ho : DetObs o) (ops : List (Op α))
    (hd : ∀ f, Op.det f ∈ ops → Disciplined f) (s t : Store α) (h : DetEq s t) :
    trace o s ops = trace o t (erase ops) := by
  induction ops generalizing s t with
  | nil => rfl
  | cons op ops ih =>
    have hd' : ∀ f, Op.det f ∈ ops → Disciplined f := fun f hf => hd f (List.mem_cons_of_mem _ hf)
    cases op with
    | poke k w =>
      simp only [trace, erase, List.filter, Op.isPoke, Bool.not_true]
      exact ih hd' _ _ (detEq_trans (detEq_poke s k w) h)
    | call tag v =>
      have h' := detEq_call s t tag v h
      simp only [trace, erase, List.filter, Op.isPoke, Bool.not_false]
      rw [ho _ _ h']
      congr 1
      exact ih hd' _ _ h'
    | det f =>
      have h' := (hd f (List.mem_cons_self ..)).reads_own s t h
      simp only [trace, erase, List.filter, Op.isPoke, Bool.not_false]
      show o (f s) :: _ = o (f t) :: _
      rw [ho _ _ h']
      congr 1
      exact ih hd' _ _ h'

/-- the statement of the property: same start, with and without the caller's overwrites -/
theorem noninterference_run {γ : Type} (o : Store α → γ) (ho : DetObs o) (ops : List (Op α))
    (hd : ∀ f, Op.det f ∈ ops → Disciplined f) (s : Store α) :
    trace o s ops = trace o s (erase ops) :=
  noninterference o ho ops hd s s (DetEq.refl s)

theorem wf_alloc (s : Store α) (who : Owner) (ob : Obj α) (h : WF s) : WF (alloc s who ob) := by
  intro l hl
  simp only [alloc] at hl ⊢
  have : l ≠ s.next := by omega
  simp only [this, if_false]
  exact h l (by omega)

theorem wf_step (s : Store α) (op : Op α) (h : WF s) (hd : ∀ f, op = .det f → Disciplined f) :
    WF (step s op) := by
  cases op with
  | call tag v => exact wf_alloc _ _ _ (wf_alloc _ _ _ h)
  | poke k w =>
    simp only [step, pokeAt]
    split
    · exact h
    · exact h
  | det f => exact (hd f rfl).keeps_wf s h

/-- **inputs_unchanged**, one operation: no `update` / `set_reference` call and no detector operation
    changes (or re-owns) any object the caller owns -/
theorem inputs_unchanged_step (s : Store α) (op : Op α) (hw : WF s) (hp : op.isPoke = false)
    (hd : ∀ f, op = .det f → Disciplined f) (l : Nat) (hl : s.owner l = .caller) :
    (step s op).owner l = .caller ∧ (step s op).mem l = s.mem l := by
  cases op with
  | poke k w => simp [Op.isPoke] at hp
  | det f => exact (hd f rfl).writes_own s l hl
  | call tag v =>
    have hlt : l < s.next := by
      by_cases h : l < s.next
      · exact h
      · have := hw l (by omega); rw [this] at hl; cases hl
    have h1 : l ≠ s.next := by omega
    have h2 : l ≠ s.next + 1 := by omega
    simp [step, copyIn, alloc, h1, h2, hl]

/-- **inputs_unchanged**, whole histories: after any history without caller writes, every object the
    caller owned at the start is still the caller's and still has its content -/
theorem inputs_unchanged (ops : List (Op α)) (s : Store α) (hw : WF s)
    (hp : ∀ op ∈ ops, op.isPoke = false) (hd : ∀ f, Op.det f ∈ ops → Disciplined f)
    (l : Nat) (hl : s.owner l = .caller) :
    (run s ops).owner l = .caller ∧ (run s ops).mem l = s.mem l := by
  induction ops generalizing s with
  | nil => exact ⟨hl, rfl⟩
  | cons op ops ih =>
    have hdop : ∀ f, op = .det f → Disciplined f := fun f hf => hd f (by rw [hf]; exact List.mem_cons_self ..)
    have st := inputs_unchanged_step s op hw (hp op (List.mem_cons_self ..)) hdop l hl
    have := ih (step s op) (wf_step s op hw hdop)
      (fun o ho => hp o (List.mem_cons_of_mem _ ho)) (fun f hf => hd f (List.mem_cons_of_mem _ hf)) st.1
    simp only [run]
    rw [this.2, st.2]; exact ⟨this.1, rfl⟩

/-- the object the caller passed is exactly what it was, right after the call -/
theorem passed_object_unchanged (s : Store α) (tag : Tag) (v : List α) :
    (step s (.call tag v)).mem s.next = ⟨tag, v⟩ ∧ (step s (.call tag v)).owner s.next = .caller ∧
    (step s (.call tag v)).mem (s.next + 1) = ⟨tag, v⟩ ∧ (step s (.call tag v)).owner (s.next + 1) = .detector := by
  simp [step, copyIn, alloc]

/-! ### injectors -/

/-- an injector leaves every existing object (in particular its input) bit-for-bit unchanged, returns a
    fresh object — a location that did not exist before — of the container type of its input -/
theorem inject_fresh_unchanged (s : Store α) (hw : WF s) (src : Nat) (g : List α → List α) :
    (∀ l, l < s.next → (inject s src g).mem l = s.mem l ∧ (inject s src g).owner l = s.owner l) ∧
    s.owner s.next = .free ∧ (inject s src g).owner s.next = .caller ∧
    ((inject s src g).mem s.next).tag = (s.mem src).tag ∧
    ((inject s src g).mem s.next).data = g (s.mem src).data := by
  refine ⟨?_, hw _ (Nat.le_refl _), by simp [inject, alloc], by simp [inject, alloc], by simp [inject, alloc]⟩
  intro l hl
  have : l ≠ s.next := by omega
  simp [inject, alloc, this]

/-! ### non-vacuity, and why the discipline is needed -/

/-- a disciplined detector operation: append the newest detector-owned object to the one before it
    (a window that grows in place) -/
def growWindow (s : Store Nat) : Store Nat :=
  if s.next < 4 then s else
    { s with mem := fun l => if l = s.next - 3 ∧ s.owner l = .detector ∧ s.owner (s.next - 1) = .detector
                            then { s.mem l with data := (s.mem l).data ++ (s.mem (s.next - 1)).data } else s.mem l }

theorem growWindow_disciplined : Disciplined growWindow := by
  refine ⟨?_, ?_, ?_⟩
  · intro s t ⟨hn, ho, hm⟩
    unfold growWindow
    rw [← hn]
    split
    · exact ⟨hn, ho, hm⟩
    · refine ⟨rfl, ho, ?_⟩
      intro l hl
      simp only at hl ⊢
      rw [← ho]
      split
      · rename_i hc
        rw [hm l hc.2.1, hm _ hc.2.2]
      · exact hm l hl
  · intro s l hl
    unfold growWindow
    split
    · exact ⟨hl, rfl⟩
    · refine ⟨hl, ?_⟩
      simp only
      split
      · rename_i hc; rw [hl] at hc; simp at hc
      · rfl
  · intro s hw
    unfold growWindow
    split
    · exact hw
    · exact hw

/-- the total length of everything the detector owns among the first `n` locations -/
def detSize (n : Nat) (s : Store Nat) : Nat :=
  ((List.range n).map (fun l => if s.owner l = .detector then (s.mem l).data.length + (s.mem l).data.sum else 0)).sum

theorem detSize_obs (n : Nat) : DetObs (detSize n) := by
  intro s t ⟨_, ho, hm⟩
  unfold detSize
  congr 1
  apply List.map_congr_left
  intro l _
  rw [← ho]
  split
  · rename_i h; rw [hm l h]
  · rfl

-- two batches, the caller scribbles over both after passing them, the detector merges its copies
example :
    trace (detSize 8) (Store.empty ⟨.ndarray, []⟩)
      [.call .ndarray [1, 2, 3], .poke 0 [9, 9, 9], .call .dataframe [4, 5], .det growWindow, .poke 2 [7, 7]]
    = [9, 20, 31] ∧
    trace (detSize 8) (Store.empty ⟨.ndarray, []⟩)
      (erase [.call .ndarray [1, 2, 3], .poke 0 [9, 9, 9], .call .dataframe [4, 5], .det growWindow, .poke 2 [7, 7]])
    = [9, 20, 31] := by
  refine ⟨by decide, by decide⟩

/-- a detector that "validates" by keeping the caller's location (no copy): an operation that reads the
    caller-owned location 0 -/
def readsCallerLoc (s : Store Nat) : Store Nat :=
  alloc s .detector (s.mem 0)

/-- … is not disciplined, and noninterference fails for it: the caller's overwrite of location 0 shows up
    in the detector's next observation (this is F10, `_validate_X` returning `X.values`) -/
theorem aliasing_breaks_noninterference :
    trace (detSize 8) (Store.empty ⟨.ndarray, []⟩) [.call .ndarray [1, 2, 3], .poke 0 [9, 9, 9], .det readsCallerLoc]
    ≠ trace (detSize 8) (Store.empty ⟨.ndarray, []⟩)
        (erase [.call .ndarray [1, 2, 3], .poke 0 [9, 9, 9], .det readsCallerLoc]) := by
  decide

-- an injector call on the caller's first object: input unchanged, fresh caller-owned result, same container
example :
    let s := run (Store.empty ⟨.ndarray, []⟩) [.call .dataframe [1, 2, 3]]
    let s' := inject s 0 (fun d => d.map (· + 10))
    s'.mem 0 = ⟨.dataframe, [1, 2, 3]⟩ ∧ s'.mem 2 = ⟨.dataframe, [11, 12, 13]⟩ ∧ s.owner 2 = .free ∧ s'.owner 2 = .caller := by
  decide

end MV.Store
