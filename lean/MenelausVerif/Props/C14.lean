/-
  C14 — uniform input validation; rejected inputs do no harm; containers don't matter.

  All theorems are about `Model/Validate.lean` (tied to menelaus/detector.py and the
  per-detector guards by harness/checks/c14.py) and hold for every value type `α`,
  every history and every container order.
-/
import MenelausVerif.Model.Validate
namespace MV.Validate
variable {α : Type}

/-! ### basic facts about `validateX` -/

/-- the invariant of the recorded state: names, once recorded, determine the dimension -/
def Inv (s : VState) : Prop := ∀ cs, s.cols = some cs → s.dim = some cs.length

theorem inv_init : Inv VState.init := by
  intro cs h; simp [VState.init] at h

/-- what an accepted `_validate_X` call returns and commits -/
theorem validateX_ok {m : Mode} {s s' : VState} {x : Input α} {a : Arr α}
    (h : validateX m s x = (s', .ok a)) :
    candidate m s x = .ok s' ∧ a = coerceX m x ∧ rowsOk m a.rows = true := by
  unfold validateX at h
  split at h
  · simp at h
  · split at h
    · simp at h; obtain ⟨h1, h2⟩ := h; subst h1; subst h2
      refine ⟨by assumption, rfl, by assumption⟩
    · simp at h

theorem validateX_error {m : Mode} {s s' : VState} {x : Input α} {r : Reason}
    (h : validateX m s x = (s', .error r)) : s' = s := by
  unfold validateX at h
  split at h
  · simp at h; exact h.1.symm
  · split at h
    · simp at h
    · simp at h; exact h.1.symm

/-- names of a frame and the width of the coerced array agree -/
theorem coerce_cols_of_names {m : Mode} {x : Input α} {names : List String}
    (h : x.names? = some names) : (coerceX m x).cols = names.length := by
  cases x <;> simp [Input.names?] at h
  subst h; simp [coerceX, Input.shape]

theorem candidate_inv {m : Mode} {s s' : VState} {x : Input α}
    (hi : Inv s) (h : candidate m s x = .ok s') : Inv s' := by
  unfold candidate at h
  split at h
  · split at h
    · split at h
      · split at h
        · simp at h
        · simp at h; subst h; intro cs hc; simp at hc; subst hc; rfl
      · simp at h; subst h; intro cs hc; simp at hc; subst hc; rfl
    · split at h
      · simp at h; subst h; exact hi
      · simp at h
  · split at h
    · simp at h; subst h
      intro cs hc
      have hs : s.cols = some cs := hc
      have := hi cs hs
      rename_i hd; rw [hd] at this; simp at this
    · split at h
      · simp at h
      · simp at h; subst h; exact hi

theorem validateX_inv {m : Mode} {s : VState} (x : Input α) (hi : Inv s) : Inv (validateX m s x).1 := by
  cases hr : validateX m s x with
  | mk s' r =>
    cases r with
    | error e => rw [validateX_error hr]; exact hi
    | ok a => exact candidate_inv hi (validateX_ok hr).1

theorem runX_inv {m : Mode} (xs : List (Input α)) {s : VState} (hi : Inv s) : Inv (runX m s xs) := by
  induction xs generalizing s with
  | nil => exact hi
  | cons x xs ih => exact ih (validateX_inv x hi)

/-! ### accept_rows : a streaming detector takes exactly one observation, a batch detector at least two -/

theorem accept_rows_stream {s s' : VState} {x : Input α} {a : Arr α}
    (h : validateX .stream s x = (s', .ok a)) : a.rows = 1 := by
  have := (validateX_ok h).2.2
  simpa [rowsOk] using this

theorem accept_rows_batch {s s' : VState} {x : Input α} {a : Arr α}
    (h : validateX .batch s x = (s', .ok a)) : 2 ≤ a.rows := by
  have := (validateX_ok h).2.2
  simp [rowsOk] at this; omega

/-- streaming labels: accepted iff `np.array(y)` has exactly one element -/
theorem accept_y_stream (y : Input α) :
    (∃ a, validateY .stream y = .ok a) ↔ y.size = 1 := by
  simp only [validateY]; split <;> simp_all

/-- batch labels, as the code is: only 2-D data with one column and a row count other than one is
    accepted — every 0-D / 1-D `y` is reshaped to ONE ROW and rejected; a `(0, 1)` array passes. -/
theorem accept_y_batch (y : Input α) :
    (∃ a, validateY .batch y = .ok a) ↔ ∃ r, y.shape = .s2 r 1 ∧ r ≠ 1 := by
  simp only [validateY]
  cases hs : y.shape with
  | s0 => simp
  | s1 n => simp
  | s2 r c =>
    by_cases hr : r = 1
    · simp [hr]
    · by_cases hc : c = 1
      · simp [hr, hc]
      · simp [hr, hc]

example : validateY .batch (Input.ndarray1d [1, 0, 1] : Input Nat) = .error .yobs := by rfl
example : validateY .batch (Input.ndarray2d 3 1 [1, 0, 1] : Input Nat) = .ok ⟨3, 1, [1, 0, 1]⟩ := by rfl
example : validateY .stream (Input.series [7] : Input Nat) = .ok ⟨1, 1, [7]⟩ := by rfl

/-! ### width_stable (streaming) -/

/-- one step: with a recorded dimension `d`, an accepted input has width `d`, the dimension stays,
    and recorded names stay; an accepted frame has exactly the recorded names -/
theorem stream_step {s s' : VState} {x : Input α} {a : Arr α} (hi : Inv s)
    (h : validateX .stream s x = (s', .ok a)) :
    s'.dim = some a.cols ∧
    (∀ d, s.dim = some d → a.cols = d) ∧
    (∀ cs, s.cols = some cs → s'.cols = some cs) ∧
    (∀ names, x.names? = some names → s'.cols = some names) := by
  obtain ⟨hc, ha, _⟩ := validateX_ok h
  subst ha
  unfold candidate at hc
  split at hc
  · rename_i names hn
    have hw := coerce_cols_of_names (m := .stream) hn
    split at hc
    · rename_i hcols
      split at hc
      · rename_i d hd
        split at hc
        · simp at hc
        · rename_i hne
          simp at hc; subst hc
          refine ⟨by simp [hw], ?_, ?_, ?_⟩
          · intro d' hd'; rw [hd] at hd'; simp at hd'; subst hd'; rw [hw]; simpa using hne
          · intro cs h'; rw [hcols] at h'; simp at h'
          · intro n h'; rw [hn] at h'; simp at h'; subst h'; rfl
      · rename_i hnd
        simp at hc; subst hc
        refine ⟨by simp [hw], ?_, ?_, ?_⟩
        · intro d' hd'
          exact (hnd d' rfl hd').elim
        · intro cs h'; rw [hcols] at h'; simp at h'
        · intro n h'; rw [hn] at h'; simp at h'; subst h'; rfl
    · rename_i cs hcols
      split at hc
      · rename_i heq
        simp at hc; subst hc
        have hd := hi cs hcols
        refine ⟨by rw [hd, hw, heq], ?_, ?_, ?_⟩
        · intro d' hd'; rw [hd] at hd'; simp at hd'; subst hd'; rw [hw, heq]
        · intro cs' h'; exact h'
        · intro n h'; rw [hn] at h'; simp at h'; subst h'; rw [hcols, heq]
      · simp at hc
  · rename_i hn
    split at hc
    · rename_i hd
      simp at hc; subst hc
      refine ⟨rfl, ?_, ?_, ?_⟩
      · intro d' hd'; rw [hd] at hd'; simp at hd'
      · intro cs h'; exact h'
      · intro n h'; rw [hn] at h'; simp at h'
    · rename_i d hd
      split at hc
      · simp at hc
      · rename_i hne
        simp at hc; subst hc
        have : (coerceX Mode.stream x).cols = d := by simpa using hne
        refine ⟨by rw [hd, this], ?_, ?_, ?_⟩
        · intro d' hd'; rw [hd] at hd'; simp at hd'; subst hd'; exact this
        · intro cs h'; exact h'
        · intro n h'; rw [hn] at h'; simp at h'

/-- a recorded dimension survives every later history (accepted or rejected calls, any containers) -/
theorem stream_dim_forever (ys : List (Input α)) {s : VState} {d : Nat} (hi : Inv s)
    (hd : s.dim = some d) : (runX .stream s ys).dim = some d := by
  induction ys generalizing s with
  | nil => exact hd
  | cons y ys ih =>
    apply ih (validateX_inv y hi)
    cases hr : validateX .stream s y with
    | mk s' r =>
      cases r with
      | error e => rw [validateX_error hr]; exact hd
      | ok a =>
        have := stream_step hi hr
        simp only; rw [this.1, this.2.1 d hd]

theorem stream_cols_forever (ys : List (Input α)) {s : VState} {cs : List String} (hi : Inv s)
    (hc : s.cols = some cs) : (runX .stream s ys).cols = some cs := by
  induction ys generalizing s with
  | nil => exact hc
  | cons y ys ih =>
    apply ih (validateX_inv y hi)
    cases hr : validateX .stream s y with
    | mk s' r =>
      cases r with
      | error e => rw [validateX_error hr]; exact hc
      | ok a => exact (stream_step hi hr).2.2.1 cs hc

theorem runX_append (m : Mode) (s : VState) (xs ys : List (Input α)) :
    runX m s (xs ++ ys) = runX m (runX m s xs) ys := by
  induction xs generalizing s with
  | nil => rfl
  | cons x xs ih => simp [runX, ih]

/-- **width_stable** (streaming).  Take any history `xs` (any mix of containers, accepted and rejected
    calls), an input `x0` accepted after it, any further history `ys`, and an input `x` accepted after
    that: `x` has the width of `x0`, and if both are DataFrames they carry the same column names in
    the same order.  Equivalently: every later input of another width / with other names is rejected. -/
theorem width_stable (xs ys : List (Input α)) (x0 x : Input α) (s1 s' : VState) (a0 a : Arr α)
    (h0 : validateX .stream (runX .stream VState.init xs) x0 = (s1, .ok a0))
    (h : validateX .stream (runX .stream s1 ys) x = (s', .ok a)) :
    a.cols = a0.cols ∧ s'.dim = some a0.cols ∧
    (∀ n0 n, x0.names? = some n0 → x.names? = some n → n = n0) := by
  have hi0 : Inv (runX .stream VState.init xs) := runX_inv xs inv_init
  have st0 := stream_step hi0 h0
  have hi1 : Inv s1 := by have := validateX_inv (m := .stream) x0 hi0; rwa [h0] at this
  have hd := stream_dim_forever ys hi1 st0.1
  have st := stream_step (runX_inv ys hi1) h
  have hw := st.2.1 _ hd
  refine ⟨hw, by rw [st.1, hw], ?_⟩
  intro n0 n hn0 hn
  have c1 := st0.2.2.2 n0 hn0
  have c2 := stream_cols_forever ys hi1 c1
  have c3 := st.2.2.1 n0 c2
  have c4 := st.2.2.2 n hn
  rw [c3] at c4; simpa using c4.symm

/-- the rejecting form: after `x0` was accepted, an input of another width is rejected with the
    state untouched -/
theorem width_stable_rejects (xs ys : List (Input α)) (x0 x : Input α) (s1 : VState) (a0 : Arr α)
    (h0 : validateX .stream (runX .stream VState.init xs) x0 = (s1, .ok a0))
    (hne : (coerceX .stream x).cols ≠ a0.cols) :
    ∃ r, validateX .stream (runX .stream s1 ys) x = (runX .stream s1 ys, .error r) := by
  cases hr : validateX .stream (runX .stream s1 ys) x with
  | mk s' res =>
    cases res with
    | error e => exact ⟨e, by rw [validateX_error hr]⟩
    | ok a =>
      have := (width_stable xs ys x0 x s1 s' a0 a h0 hr).1
      rw [(validateX_ok hr).2.1] at this
      exact absurd this hne

/-- … and a DataFrame with other names (any difference, including order) is rejected -/
theorem names_stable_rejects (xs ys : List (Input α)) (x0 x : Input α) (s1 : VState) (a0 : Arr α)
    (n0 n : List String) (hn0 : x0.names? = some n0) (hn : x.names? = some n) (hne : n ≠ n0)
    (h0 : validateX .stream (runX .stream VState.init xs) x0 = (s1, .ok a0)) :
    ∃ r, validateX .stream (runX .stream s1 ys) x = (runX .stream s1 ys, .error r) := by
  cases hr : validateX .stream (runX .stream s1 ys) x with
  | mk s' res =>
    cases res with
    | error e => exact ⟨e, by rw [validateX_error hr]⟩
    | ok a => exact absurd ((width_stable xs ys x0 x s1 s' a0 a h0 hr).2.2 n0 n hn0 hn) hne

-- non-vacuity: arrays fix width 2, then a frame of width 2 is accepted and a frame of width 3 is rejected
example :
    validateX .stream (runX .stream VState.init [Input.ndarray2d 2 2 [1, 2, 3, 4], Input.list [5, 6]])
      (Input.dataframe ["a", "b"] 1 [7, 8] : Input Nat)
      = ({ cols := some ["a", "b"], dim := some 2 }, .ok ⟨1, 2, [7, 8]⟩) := by rfl
example :
    validateX .stream (runX .stream VState.init [Input.list [5, 6]])
      (Input.dataframe ["a", "b", "c"] 1 [7, 8, 9] : Input Nat)
      = ({ cols := none, dim := some 2 }, .error .width) := by rfl
-- F8a: the rejected 2-row array left no trace, the list of width 2 decides
example : (runX .stream VState.init [(Input.ndarray2d 2 3 [1, 2, 3, 4, 5, 6] : Input Nat), Input.list [5, 6]]).dim
    = some 2 := by rfl

/-! ### width_stable_partial (batch) and the gap -/

/-- the gap of `BatchDetector._validate_X` (F8d): a frame arrives while no names are recorded but
    arrays have recorded a dimension different from the frame's width -/
def batchGap (s : VState) (x : Input α) : Prop :=
  s.cols = none ∧ ∃ names d, x.names? = some names ∧ s.dim = some d ∧ names.length ≠ d

/-- no call of the history falls into the gap -/
def gapFree : VState → List (Input α) → Prop
  | _, [] => True
  | s, x :: xs => ¬ batchGap s x ∧ gapFree (validateX .batch s x).1 xs

theorem batch_step {s s' : VState} {x : Input α} {a : Arr α} (hi : Inv s) (hg : ¬ batchGap s x)
    (h : validateX .batch s x = (s', .ok a)) :
    s'.dim = some a.cols ∧
    (∀ d, s.dim = some d → a.cols = d) ∧
    (∀ cs, s.cols = some cs → s'.cols = some cs) ∧
    (∀ names, x.names? = some names → s'.cols = some names) := by
  obtain ⟨hc, ha, _⟩ := validateX_ok h
  subst ha
  unfold candidate at hc
  split at hc
  · rename_i names hn
    have hw := coerce_cols_of_names (m := .batch) hn
    split at hc
    · rename_i hcols
      have hcand : s' = { cols := some names, dim := some names.length } := by
        split at hc
        · split at hc <;> simp at hc
          exact hc.symm
        · simp at hc; exact hc.symm
      subst hcand
      refine ⟨by simp [hw], ?_, ?_, ?_⟩
      · intro d' hd'
        rw [hw]
        by_cases hne : names.length = d'
        · exact hne
        · exact absurd ⟨hcols, names, d', hn, hd', hne⟩ hg
      · intro cs h'; rw [hcols] at h'; simp at h'
      · intro n h'; rw [hn] at h'; simp at h'; subst h'; rfl
    · rename_i cs hcols
      split at hc
      · rename_i heq
        simp at hc; subst hc
        have hd := hi cs hcols
        refine ⟨by rw [hd, hw, heq], ?_, ?_, ?_⟩
        · intro d' hd'; rw [hd] at hd'; simp at hd'; subst hd'; rw [hw, heq]
        · intro cs' h'; exact h'
        · intro n h'; rw [hn] at h'; simp at h'; subst h'; rw [hcols, heq]
      · simp at hc
  · rename_i hn
    split at hc
    · rename_i hd
      simp at hc; subst hc
      refine ⟨rfl, ?_, ?_, ?_⟩
      · intro d' hd'; rw [hd] at hd'; simp at hd'
      · intro cs h'; exact h'
      · intro n h'; rw [hn] at h'; simp at h'
    · rename_i d hd
      split at hc
      · simp at hc
      · rename_i hne
        simp at hc; subst hc
        have : (coerceX Mode.batch x).cols = d := by simpa using hne
        refine ⟨by rw [hd, this], ?_, ?_, ?_⟩
        · intro d' hd'; rw [hd] at hd'; simp at hd'; subst hd'; exact this
        · intro cs h'; exact h'
        · intro n h'; rw [hn] at h'; simp at h'

theorem batch_dim_forever (ys : List (Input α)) {s : VState} {d : Nat} (hi : Inv s)
    (hd : s.dim = some d) (hg : gapFree s ys) : (runX .batch s ys).dim = some d := by
  induction ys generalizing s with
  | nil => exact hd
  | cons y ys ih =>
    apply ih (validateX_inv y hi) _ hg.2
    cases hr : validateX .batch s y with
    | mk s' r =>
      cases r with
      | error e => rw [validateX_error hr]; exact hd
      | ok a =>
        have := batch_step hi hg.1 hr
        simp only; rw [this.1, this.2.1 d hd]

theorem gapFree_append {s : VState} (ys zs : List (Input α)) :
    gapFree s (ys ++ zs) ↔ gapFree s ys ∧ gapFree (runX .batch s ys) zs := by
  induction ys generalizing s with
  | nil => simp [gapFree, runX]
  | cons y ys ih => simp [gapFree, runX, ih, and_assoc]

/-- **width_stable_partial** (batch): the streaming statement holds for every history in which no call
    falls into the gap "DataFrame of another width while only arrays have established the width".
    What is missing for the full statement is exactly that gap, see `batch_gap_accepts`. -/
theorem width_stable_partial (xs ys : List (Input α)) (x0 x : Input α) (s1 s' : VState) (a0 a : Arr α)
    (h0 : validateX .batch (runX .batch VState.init xs) x0 = (s1, .ok a0))
    (hg0 : ¬ batchGap (runX .batch VState.init xs) x0)
    (hg : gapFree s1 (ys ++ [x]))
    (h : validateX .batch (runX .batch s1 ys) x = (s', .ok a)) :
    a.cols = a0.cols ∧ s'.dim = some a0.cols := by
  have hi0 : Inv (runX .batch VState.init xs) := runX_inv xs inv_init
  have st0 := batch_step hi0 hg0 h0
  have hi1 : Inv s1 := by have := validateX_inv (m := .batch) x0 hi0; rwa [h0] at this
  rw [gapFree_append] at hg
  have hd := batch_dim_forever ys hi1 st0.1 hg.1
  have st := batch_step (runX_inv ys hi1) hg.2.1 h
  have hw := st.2.1 _ hd
  exact ⟨hw, by rw [st.1, hw]⟩

/-- once names are recorded no later call can fall into the gap … -/
theorem gapFree_of_cols (ys : List (Input α)) {s : VState} {cs : List String} (hi : Inv s)
    (hc : s.cols = some cs) : gapFree s ys := by
  induction ys generalizing s with
  | nil => trivial
  | cons y ys ih =>
    refine ⟨by intro h; rw [h.1] at hc; simp at hc, ?_⟩
    apply ih (validateX_inv y hi)
    cases hr : validateX .batch s y with
    | mk s' r =>
      cases r with
      | error e => rw [validateX_error hr]; exact hc
      | ok a =>
        have hg : ¬ batchGap s y := by intro h; rw [h.1] at hc; simp at hc
        exact (batch_step hi hg hr).2.2.1 cs hc

/-- … and a history without DataFrames never does -/
theorem gapFree_of_no_frames (ys : List (Input α)) (s : VState)
    (hn : ∀ y ∈ ys, y.names? = none) : gapFree s ys := by
  induction ys generalizing s with
  | nil => trivial
  | cons y ys ih =>
    refine ⟨?_, ih _ (fun z hz => hn z (List.mem_cons_of_mem _ hz))⟩
    intro h
    obtain ⟨_, names, d, h1, _⟩ := h
    rw [hn y (List.mem_cons_self ..)] at h1; simp at h1

/-- the gap itself (F8d, `tests/menelaus/test_detector.py::test_batch_validation_X_dimensions`):
    a 6×1 array establishes width 1, a 2×3 DataFrame is then accepted and overwrites the width -/
theorem batch_gap_accepts :
    validateX .batch (runX .batch VState.init [(Input.ndarray2d 6 1 [1, 2, 3, 4, 5, 6] : Input Nat)])
      (Input.dataframe ["a", "b", "c"] 2 [1, 2, 3, 4, 5, 6])
      = ({ cols := some ["a", "b", "c"], dim := some 3 }, .ok ⟨2, 3, [1, 2, 3, 4, 5, 6]⟩) := by rfl

/-- the same call on the streaming base is rejected (fix 31a8ae6) -/
theorem stream_gap_rejects (s : VState) (x : Input α) (h : batchGap s x) :
    validateX .stream s x = (s, .error .width) := by
  obtain ⟨hc, names, d, hn, hd, hne⟩ := h
  simp [validateX, candidate, hn, hc, hd, hne]

-- non-vacuity of `width_stable_partial`: array first, then a frame of the same width (not in the gap)
example : ∃ (s1 s' : VState) (a0 a : Arr Nat),
    validateX .batch (runX .batch VState.init ([] : List (Input Nat))) (.ndarray2d 3 2 [1, 2, 3, 4, 5, 6]) = (s1, .ok a0) ∧
    ¬ batchGap (runX .batch VState.init ([] : List (Input Nat))) (Input.ndarray2d 3 2 [1, 2, 3, 4, 5, 6] : Input Nat) ∧
    gapFree s1 (([] : List (Input Nat)) ++ [Input.dataframe ["a", "b"] 2 [1, 2, 3, 4]]) ∧
    validateX .batch (runX .batch s1 ([] : List (Input Nat))) (.dataframe ["a", "b"] 2 [1, 2, 3, 4]) = (s', .ok a) := by
  refine ⟨_, _, _, _, rfl, ?_, ?_, rfl⟩
  · simp [batchGap, Input.names?]
  · simp [gapFree, batchGap, Input.names?, coerceX, Input.shape]

/-! ### reject_is_noop : a rejected call leaves the validation state as it was -/

/-- a validation function never changes the recorded names / dimension when it rejects -/
def NoopOnReject {ι β : Type} (v : VState → ι → VState × Except Reason β) : Prop :=
  ∀ s i e, (v s i).2 = .error e → (v s i).1 = s

theorem validateX_noop (m : Mode) : NoopOnReject (validateX (α := α) m) := by
  intro s x e h
  cases hr : validateX m s x with
  | mk s' r => rw [hr] at h; simp at h; subst h; exact validateX_error hr

/-- ADWIN / CUSUM / PageHinkley (fix 7e2a80e: the guard restores the prior state) -/
theorem validateUni_noop : NoopOnReject (validateUni (α := α)) := by
  intro s x e h
  unfold validateUni at h ⊢
  cases hr : validateX .stream s x with
  | mk s' r =>
    cases r with
    | error e' => simp only; exact validateX_error hr
    | ok a =>
      rw [hr] at h; simp only at h ⊢
      split
      · rfl
      · rename_i hc; simp [hc] at h

/-- the univariate detectors accept only one column -/
theorem validateUni_ok {s s' : VState} {x : Input α} {a : Arr α}
    (h : validateUni s x = (s', .ok a)) : a.cols = 1 ∧ a.rows = 1 ∧ validateX .stream s x = (s', .ok a) := by
  unfold validateUni at h
  cases hr : validateX .stream s x with
  | mk s1 r =>
    rw [hr] at h
    cases r with
    | error e => simp at h
    | ok a1 =>
      simp only at h
      split at h
      · simp at h
      · rename_i hc
        simp at h; obtain ⟨h1, h2⟩ := h; subst h1; subst h2
        exact ⟨by simpa using hc, accept_rows_stream hr, rfl⟩

theorem validateCdbd_noop : NoopOnReject (validateCdbd (α := α)) := by
  intro s x e h
  unfold validateCdbd at h ⊢
  split
  · rfl
  · rename_i hg; simp [hg] at h; exact validateX_noop .batch s x e h

theorem validateCdbd_ok {s s' : VState} {x : Input α} {a : Arr α}
    (h : validateCdbd s x = (s', .ok a)) : a.cols = 1 ∧ 2 ≤ a.rows := by
  unfold validateCdbd at h
  split at h
  · simp at h
  · rename_i hg
    refine ⟨?_, accept_rows_batch h⟩
    have ha := (validateX_ok h).2.1
    subst ha
    cases x <;> simp_all [cdbdGuard, coerceX, Input.shape]

/-- `_validate_input` never touches the state when no `X` is passed (DDM, EDDM, STEPD, LFR, ADWINAccuracy) -/
theorem validateInput_noX_state (m : Mode) (s : VState) (c : Call α) (h : c.x = none) :
    (validateInput m s c).1 = s := by
  unfold validateInput
  rw [h]; simp only
  cases validateYOpt m c.yTrue <;> simp only
  cases validateYOpt m c.yPred <;> simp only

/-- `_validate_input(X, None, None)` (every detector that monitors `X`) is a no-op when it rejects -/
theorem validateInput_onlyX_noop (m : Mode) (s : VState) (c : Call α) (e : Reason)
    (hy : c.yTrue = none) (hp : c.yPred = none) (h : (validateInput m s c).2 = .error e) :
    (validateInput m s c).1 = s := by
  unfold validateInput at h ⊢
  rw [hy, hp] at h ⊢
  cases hx : c.x with
  | none => simp [validateYOpt]
  | some x =>
    rw [hx] at h; simp only at h ⊢
    cases hr : validateX m s x with
    | mk s' r =>
      rw [hr] at h
      cases r with
      | error e' => simp only; exact validateX_error hr
      | ok a => simp [validateYOpt] at h

/-- latent in the base class (no public detector passes `X` together with labels): `X` is committed
    before the labels are looked at, so a call rejected for its `y` still records the width of `X` -/
example : validateInput .stream VState.init
      { x := some (Input.ndarray1d [1, 2] : Input Nat), yTrue := some (Input.list [1, 0]) }
    = ({ cols := none, dim := some 2 }, .error .yobs) := by rfl

theorem validateLabels_state (s : VState) (yy : Input α × Input α) : (validateLabels s yy).1 = s := by
  unfold validateLabels
  have h := validateInput_noX_state .stream s { yTrue := some yy.1, yPred := some yy.2 } rfl
  cases hr : validateInput .stream s { yTrue := some yy.1, yPred := some yy.2 } with
  | mk s' r =>
    rw [hr] at h; simp at h; subst h
    cases r with
    | error e => rfl
    | ok v => simp only; cases v.yTrue <;> cases v.yPred <;> rfl

theorem validateLabels_noop : NoopOnReject (validateLabels (α := α)) :=
  fun s yy _ _ => validateLabels_state s yy

/-- the label detectors accept exactly one `y_true` and one `y_pred` -/
theorem validateLabels_ok {s s' : VState} {yy : Input α × Input α} {p : Arr α × Arr α}
    (h : validateLabels s yy = (s', .ok p)) : yy.1.size = 1 ∧ yy.2.size = 1 := by
  unfold validateLabels validateInput at h
  simp only [validateYOpt, validateY] at h
  by_cases h1 : yy.1.size = 1 <;> by_cases h2 : yy.2.size = 1 <;> simp [h1, h2] at h
  exact ⟨h1, h2⟩

theorem validateAccuracy_noop (agree : Arr α × Arr α → α) : NoopOnReject (validateAccuracy agree) := by
  intro s yy e h
  unfold validateAccuracy at h ⊢
  have hs := validateLabels_state s yy
  cases hr : validateLabels s yy with
  | mk s' r =>
    rw [hr] at hs h; simp at hs; subst hs
    cases r with
    | error e' => rfl
    | ok p => simp only at h ⊢; exact validateUni_noop _ _ e h

/-- HDDDM / CDBD with `detect_batch = 1`: `set_reference` is a no-op when it rejects, EXCEPT for a
    2-row reference, which passes validation (state committed, reference stored) and is then rejected
    from inside the internal proxy update.  `_partial`: the 2-row case is a real trace of a rejected call. -/
theorem validateHdmRef_noop_partial (g : Bool) (s : VState) (x : Input α) (e : Reason)
    (h : (validateHdmRef g s x).2 = .error e) :
    (validateHdmRef g s x).1 = s ∨ (coerceX .batch x).rows = 2 := by
  unfold validateHdmRef at h ⊢
  have hno : NoopOnReject (fun s (x : Input α) => if g then validateCdbd s x else validateX .batch s x) := by
    intro s x e h; cases g <;> simp at h ⊢
    · exact validateX_noop .batch s x e h
    · exact validateCdbd_noop s x e h
  cases hr : (if g then validateCdbd s x else validateX .batch s x) with
  | mk s' r =>
    cases r with
    | error e' => left; simp only; have := hno s x e' (by simp [hr]); simpa [hr] using this
    | ok a =>
      right
      have ha : a = coerceX .batch x ∧ 2 ≤ a.rows := by
        cases g <;> simp at hr
        · exact ⟨(validateX_ok hr).2.1, accept_rows_batch hr⟩
        · unfold validateCdbd at hr; split at hr
          · simp at hr
          · exact ⟨(validateX_ok hr).2.1, accept_rows_batch hr⟩
      by_cases hp : a.rows - a.rows / 2 ≤ 1
      · rw [← ha.1]; omega
      · have hok : ∃ s'', hdmProxy s' a.rows = (s'', .ok ()) := by
          unfold hdmProxy; simp only [hp, if_false]; exact ⟨_, rfl⟩
        obtain ⟨s'', hs''⟩ := hok
        rw [hr] at h; simp only [hs''] at h; simp at h

/-! ### … hence a rejected call does no harm to any later update

  Every detector's `update` is `[pending reset]; validate; count; algorithm` (`Skel`).  If the pending
  reset is idempotent and validation is a no-op on rejection, then after a rejected call the detector
  answers every later call exactly like a twin that never saw it. -/

variable {ι β σ : Type}

theorem Skel.update_rejected (k : Skel ι β σ) (hno : NoopOnReject k.validate) (s : DState σ) (bad : ι)
    (r : Reason) (hb : (k.update s bad).2 = some r) :
    (k.update s bad).1 = { s with inner := k.pre s.inner } := by
  unfold Skel.update at hb ⊢
  cases hv : k.validate s.v bad with
  | mk v' res =>
    cases res with
    | ok b => rw [hv] at hb; simp at hb
    | error e =>
      have := hno s.v bad e (by rw [hv])
      rw [hv] at this; simp at this; subst this; rfl

/-- not counted as an update, names / dimension untouched -/
theorem Skel.rejected_not_counted (k : Skel ι β σ) (hno : NoopOnReject k.validate) (s : DState σ) (bad : ι)
    (r : Reason) (hb : (k.update s bad).2 = some r) :
    (k.update s bad).1.accepted = s.accepted ∧ (k.update s bad).1.v = s.v := by
  rw [k.update_rejected hno s bad r hb]; exact ⟨rfl, rfl⟩

theorem Skel.update_after_rejected (k : Skel ι β σ) (hpre : ∀ t, k.pre (k.pre t) = k.pre t)
    (hno : NoopOnReject k.validate) (s : DState σ) (bad : ι) (r : Reason)
    (hb : (k.update s bad).2 = some r) (i : ι) :
    k.update (k.update s bad).1 i = k.update s i := by
  rw [k.update_rejected hno s bad r hb]
  unfold Skel.update
  simp only [hpre]

/-- **reject_is_noop**, trace form: after a rejected call, the states and outcomes of ALL later calls
    equal those of the twin that never saw it -/
theorem Skel.trace_after_rejected (k : Skel ι β σ) (hpre : ∀ t, k.pre (k.pre t) = k.pre t)
    (hno : NoopOnReject k.validate) (s : DState σ) (bad : ι) (r : Reason)
    (hb : (k.update s bad).2 = some r) (ys : List ι) :
    k.trace (k.update s bad).1 ys = k.trace s ys := by
  cases ys with
  | nil => rfl
  | cons y ys => simp only [Skel.trace, k.update_after_rejected hpre hno s bad r hb y]

theorem Skel.trace_append (k : Skel ι β σ) (s : DState σ) (xs ys : List ι) :
    k.trace s (xs ++ ys) = k.trace s xs ++ k.trace (k.run s xs) ys := by
  induction xs generalizing s with
  | nil => rfl
  | cons x xs ih => simp [Skel.trace, Skel.run, ih]

/-- **reject_is_noop**, history form: `run (xs ++ [bad] ++ ys)` and `run (xs ++ ys)` agree on everything
    after the rejected call (and, trivially, before it) -/
theorem reject_is_noop (k : Skel ι β σ) (hpre : ∀ t, k.pre (k.pre t) = k.pre t)
    (hno : NoopOnReject k.validate) (s0 : DState σ) (xs ys : List ι) (bad : ι) (r : Reason)
    (hb : (k.update (k.run s0 xs) bad).2 = some r) :
    k.trace s0 (xs ++ bad :: ys)
      = k.trace s0 xs ++ k.update (k.run s0 xs) bad :: k.trace (k.run s0 xs) ys ∧
    k.trace s0 (xs ++ ys) = k.trace s0 xs ++ k.trace (k.run s0 xs) ys := by
  refine ⟨?_, k.trace_append s0 xs ys⟩
  rw [k.trace_append]
  simp only [Skel.trace]
  rw [k.trace_after_rejected hpre hno _ bad r hb]

/-- the skeleton of ADWIN / CUSUM / PageHinkley for an arbitrary algorithm state: pending reset when
    `drifted`, univariate validation, then the algorithm -/
def uniSkel (drifted : σ → Bool) (reset : σ → σ) (step : σ → Arr α → σ) : Skel (Input α) (Arr α) σ :=
  { validate := validateUni, pre := fun t => if drifted t then reset t else t, step := step }

theorem uni_reject_is_noop (drifted : σ → Bool) (reset : σ → σ) (step : σ → Arr α → σ)
    (hreset : ∀ t, drifted (reset t) = false)
    (s0 : DState σ) (xs ys : List (Input α)) (bad : Input α) (r : Reason)
    (hb : ((uniSkel drifted reset step).update ((uniSkel drifted reset step).run s0 xs) bad).2 = some r) :
    (uniSkel drifted reset step).trace ((uniSkel drifted reset step).update ((uniSkel drifted reset step).run s0 xs) bad).1 ys
      = (uniSkel drifted reset step).trace ((uniSkel drifted reset step).run s0 xs) ys := by
  apply Skel.trace_after_rejected _ _ validateUni_noop _ _ r hb
  intro t
  simp only [uniSkel]
  by_cases h : drifted t = true
  · simp [h, hreset]
  · simp [h]

-- non-vacuity: a counting "detector"; the 2-column call is rejected, not counted, and leaves no trace
example :
    let k : Skel (Input Nat) (Arr Nat) Nat := uniSkel (fun n => n ≥ 3) (fun _ => 0) (fun n _ => n + 1)
    let s0 : DState Nat := ⟨VState.init, 0, 0⟩
    (k.update (k.run s0 [.scalar 5, .list [6]]) (.ndarray1d [1, 2])).2 = some .width ∧
    (k.update s0 (.ndarray1d [1, 2])).2 = some .univariate ∧
    (k.run s0 [.scalar 5, .list [6], .ndarray1d [1, 2], .series [7]]).accepted = 3 ∧
    k.run s0 [.scalar 5, .list [6], .ndarray1d [1, 2], .series [7]] = k.run s0 [.scalar 5, .list [6], .series [7]] := by
  intro k s0
  exact ⟨by decide, by decide, rfl, rfl⟩

/-! ### container_irrelevant : the validated value depends only on the values -/

/-- the names of a frame do not contradict recorded names -/
def NamesOk (s : VState) (x : Input α) : Prop :=
  ∀ n cs, x.names? = some n → s.cols = some cs → n = cs

/-- what `_validate_X` decides, written on the coerced array alone (no container, no names) -/
def decideArr (m : Mode) (s : VState) (a : Arr α) : Except Reason (Arr α) :=
  match s.dim with
  | some d => if a.cols ≠ d then .error .width else if rowsOk m a.rows then .ok a else .error .rows
  | none => if rowsOk m a.rows then .ok a else .error .rows

/-- for inputs whose names (if any) agree with the recorded ones — and, on the batch base, that are not
    in the F8d gap — the outcome of `_validate_X` is a function of the coerced array -/
theorem validateX_by_value (m : Mode) (s : VState) (x : Input α) (hi : Inv s) (hn : NamesOk s x)
    (hg : m = .batch → ¬ batchGap s x) :
    (validateX m s x).2 = decideArr m s (coerceX m x) ∧
    (validateX m s x).1.dim = (match (validateX m s x).2 with
      | .ok a => some a.cols
      | .error _ => s.dim) := by
  unfold validateX candidate decideArr
  cases hx : x.names? with
  | some names =>
    have hw := coerce_cols_of_names (m := m) hx
    cases hc : s.cols with
    | some cs =>
      have hnc := hn names cs hx hc
      subst hnc
      have hd := hi names hc
      simp only [hd, hw, ne_eq, not_true_eq_false, if_false, if_true]
      split <;> simp [hd, hw]
    | none =>
      cases hd : s.dim with
      | none => cases m <;> simp only <;> split <;> simp [hd, hw]
      | some d =>
        cases m with
        | stream =>
          simp only [hw]
          by_cases hne : names.length = d
          · simp only [hne, ne_eq, not_true_eq_false, if_false]; split <;> simp [hd, hw, hne]
          · simp [hne, hd]
        | batch =>
          have : names.length = d := by
            by_cases hne : names.length = d
            · exact hne
            · exact absurd ⟨hc, names, d, hx, hd, hne⟩ (hg rfl)
          simp only [hw, this, ne_eq, not_true_eq_false, if_false]; split <;> simp [hd, hw, this]
  | none =>
    cases hd : s.dim with
    | none => simp only; split <;> simp [hd]
    | some d =>
      simp only
      by_cases hne : (coerceX m x).cols = d
      · simp only [hne, ne_eq, not_true_eq_false, if_false]; split <;> simp [hd, hne]
      · simp [hne, hd]

/-- **container_irrelevant**, one call: two inputs that coerce to the same array (same shape, same values),
    whatever their containers, get the same decision and the same validated array, and leave the same
    dimension behind -/
theorem container_irrelevant_step (m : Mode) (s t : VState) (x x' : Input α)
    (hs : Inv s) (ht : Inv t) (hd : s.dim = t.dim)
    (hv : coerceX m x = coerceX m x') (hn : NamesOk s x) (hn' : NamesOk t x')
    (hg : m = .batch → ¬ batchGap s x) (hg' : m = .batch → ¬ batchGap t x') :
    (validateX m s x).2 = (validateX m t x').2 ∧ (validateX m s x).1.dim = (validateX m t x').1.dim := by
  have h1 := validateX_by_value m s x hs hn hg
  have h2 := validateX_by_value m t x' ht hn' hg'
  have hdec : decideArr m s (coerceX m x) = decideArr m t (coerceX m x') := by
    unfold decideArr; rw [hd, hv]
  refine ⟨by rw [h1.1, h2.1, hdec], ?_⟩
  rw [h1.2, h2.2, h1.1, h2.1, hdec, hd]

/-- the outcomes of a history of bare `_validate_X` calls -/
def outsX (m : Mode) : VState → List (Input α) → List (Except Reason (Arr α))
  | _, [] => []
  | s, x :: xs => (validateX m s x).2 :: outsX m (validateX m s x).1 xs

/-- every DataFrame of the history carries the names `ns` -/
def FramesNamed (ns : List String) (xs : List (Input α)) : Prop :=
  ∀ x ∈ xs, ∀ n, x.names? = some n → n = ns

/-- recorded names are `ns` or absent -/
def ColsIn (ns : List String) (s : VState) : Prop := s.cols = none ∨ s.cols = some ns

theorem colsIn_step (m : Mode) (ns : List String) (s : VState) (x : Input α)
    (hc : ColsIn ns s) (hx : ∀ n, x.names? = some n → n = ns) : ColsIn ns (validateX m s x).1 := by
  cases hr : validateX m s x with
  | mk s' r =>
    cases r with
    | error e => rw [validateX_error hr]; exact hc
    | ok a =>
      have hcand := (validateX_ok hr).1
      unfold candidate at hcand
      split at hcand
      · rename_i names hn
        have := hx names hn; subst this
        split at hcand
        · right
          split at hcand
          · split at hcand <;> simp at hcand
            subst hcand; rfl
          · simp at hcand; subst hcand; rfl
        · split at hcand
          · simp at hcand; subst hcand; exact hc
          · simp at hcand
      · split at hcand
        · simp at hcand; subst hcand; exact hc
        · split at hcand
          · simp at hcand
          · simp at hcand; subst hcand; exact hc

/-- two histories carry pairwise the same values: every pair of calls coerces to the same array -/
inductive SameValues (m : Mode) : List (Input α) → List (Input α) → Prop where
  | nil : SameValues m [] []
  | cons {x x' : Input α} {xs xs' : List (Input α)} :
      coerceX m x = coerceX m x' → SameValues m xs xs' → SameValues m (x :: xs) (x' :: xs')

/-- **container_irrelevant**, streaming, whole histories: two histories whose calls pairwise carry the same
    values (same coerced arrays) in ANY containers — scalars, lists, arrays, Series, DataFrames with the
    column names `ns` — produce the same sequence of decisions and validated arrays -/
theorem container_irrelevant (ns : List String) (xs xs' : List (Input α)) (s t : VState)
    (hs : Inv s) (ht : Inv t) (hd : s.dim = t.dim) (hcs : ColsIn ns s) (hct : ColsIn ns t)
    (hv : SameValues .stream xs xs')
    (hf : FramesNamed ns xs) (hf' : FramesNamed ns xs') :
    outsX .stream s xs = outsX .stream t xs' := by
  induction hv generalizing s t with
  | nil => rfl
  | @cons x x' xs xs' hxx _ ih =>
    have hnx : ∀ n, x.names? = some n → n = ns := hf x (List.mem_cons_self ..)
    have hnx' : ∀ n, x'.names? = some n → n = ns := hf' x' (List.mem_cons_self ..)
    have hn : NamesOk s x := by
      intro n cs h1 h2
      rcases hcs with h | h <;> rw [h] at h2 <;> simp at h2
      rw [hnx n h1, h2]
    have hn' : NamesOk t x' := by
      intro n cs h1 h2
      rcases hct with h | h <;> rw [h] at h2 <;> simp at h2
      rw [hnx' n h1, h2]
    have st := container_irrelevant_step .stream s t x x' hs ht hd hxx hn hn' (by simp) (by simp)
    simp only [outsX]
    rw [st.1]
    congr 1
    exact ih _ _ (validateX_inv x hs) (validateX_inv x' ht) st.2
      (colsIn_step .stream ns s x hcs hnx) (colsIn_step .stream ns t x' hct hnx')
      (fun z hz => hf z (List.mem_cons_of_mem _ hz)) (fun z hz => hf' z (List.mem_cons_of_mem _ hz))

/-- batch: `container_irrelevant_partial` — the one-call statement `container_irrelevant_step` holds outside
    the F8d gap; inside it the container matters: the same 2×3 values are rejected as an array and accepted
    as a DataFrame -/
theorem container_matters_in_batch_gap :
    let s := runX .batch VState.init [(Input.ndarray2d 6 1 [1, 2, 3, 4, 5, 6] : Input Nat)]
    coerceX .batch (Input.ndarray2d 2 3 [1, 2, 3, 4, 5, 6] : Input Nat)
      = coerceX .batch (Input.dataframe ["a", "b", "c"] 2 [1, 2, 3, 4, 5, 6]) ∧
    (validateX .batch s (Input.ndarray2d 2 3 [1, 2, 3, 4, 5, 6])).2 = .error .width ∧
    (validateX .batch s (Input.dataframe ["a", "b", "c"] 2 [1, 2, 3, 4, 5, 6])).2 = .ok ⟨2, 3, [1, 2, 3, 4, 5, 6]⟩ := by
  refine ⟨rfl, rfl, rfl⟩

-- non-vacuity of `container_irrelevant`: scalar / list / array / Series / DataFrame of the same values
example : outsX .stream VState.init [(Input.scalar 4 : Input Nat), .list [5], .dataframe ["a"] 1 [6], .ndarray2d 2 1 [7, 8]]
    = outsX .stream VState.init [.series [4], .ndarray2d 1 1 [5], .ndarray1d [6], .dataframe ["a"] 2 [7, 8]] := by rfl

/-! ### HistogramDensityMethod after fix 65ffa2d -/

/-- HDDDM(detect_batch=1): `set_reference` with a bare array records the width only (the internal proxy
    update is an array and records no names); a DataFrame carrying real names is then accepted and
    establishes the names -/
theorem hdm_array_reference_then_frame_accepted :
    let s := (validateHdmRef false VState.init (Input.ndarray2d 8 2 (List.replicate 16 0) : Input Nat)).1
    s = { cols := none, dim := some 2 } ∧
    validateX .batch s (Input.dataframe ["a", "b"] 8 (List.replicate 16 0))
      = ({ cols := some ["a", "b"], dim := some 2 }, .ok ⟨8, 2, List.replicate 16 0⟩) := by
  refine ⟨rfl, rfl⟩

/-- an accepted `set_reference` of HDDDM / CDBD(detect_batch=1) leaves exactly the state of the plain validation -/
theorem validateHdmRef_ok_state (g : Bool) (s s' : VState) (x : Input α) (a : Arr α)
    (h : validateHdmRef g s x = (s', .ok a)) :
    (if g then validateCdbd s x else validateX .batch s x) = (s', .ok a) := by
  unfold validateHdmRef at h
  cases hr : (if g then validateCdbd s x else validateX .batch s x) with
  | mk s1 r =>
    rw [hr] at h
    cases r with
    | error e => simp at h
    | ok a1 =>
      by_cases hp : a1.rows - a1.rows / 2 ≤ 1
      · simp [hdmProxy, hp] at h
      · simp [hdmProxy, hp] at h
        obtain ⟨h1, h2⟩ := h; subst h1; subst h2; rfl

end MV.Validate
