/-
  C03 — ADWIN keeps exact statistics of its adaptive window and cuts it by its rule;
  ADWINAccuracy = ADWIN on the agreement indicators.

  Part 1 (every carrier, hence also the executed `Float` instance; no arithmetic law used):
  bookkeeping of width / total / recs / drift, the cut loop, the declarative reading of a scan.
  Part 2 (every ordered field): the exact-statistics invariant over all histories.

  Domain: `1 ≤ subwindow_size_thresh` (the property's domain; with 0 the code divides 0/0 on a
  split with an empty newer part).  `max_buckets ≥ 1` and `new_sample_thresh ≥ 1` are needed by the
  real code to run (see `Model/Adwin.lean`) but by none of the theorems below.
-/
import MenelausVerif.Lemmas.AdwinStruct
import MenelausVerif.Lemmas.AdwinStats
import Mathlib.Algebra.Order.Field.Rat
import Mathlib.Analysis.SpecialFunctions.Log.Basic
import Mathlib.Analysis.SpecialFunctions.Sqrt
namespace MV.Adwin

section every_carrier
variable {α : Type} [Add α] [Sub α] [Mul α] [Div α] [Neg α] [LT α] [DecidableLT α]
  [NatCast α] [HasSqrt α] [HasLogExp α]

/-- structural invariant of a detector state -/
structure SInv (s : State α) : Prop where
  shape : Shape s.rows s.W
  le_total : s.W ≤ s.total
  recs : s.drift = .none → s.recs = Recs.empty
  nowarn : s.drift ≠ .warning

/-- the state right before `_shrink_window` is called in `update` -/
def afterAdd (c : Cfg α) (s : State α) (x : α) : State α :=
  let s0 := if s.drift ≠ .none then reset s else s
  addSample c.maxBuckets { s0 with total := s0.total + 1, W := s0.W + 1 } x

theorem step_eq (c : Cfg α) (s : State α) (x : α) : step c s x = shrink c (afterAdd c s x) := rfl

omit [Add α] [Sub α] [Mul α] [Div α] [Neg α] [LT α] [DecidableLT α] [HasSqrt α] [HasLogExp α] in
theorem sinv_init : SInv (init : State α) :=
  { shape := ⟨by simp [init, TailOK], by simp [init, flat]⟩, le_total := Nat.le_refl _,
    recs := fun _ => rfl, nowarn := by simp [init] }

omit [Neg α] [LT α] [DecidableLT α] [HasSqrt α] [HasLogExp α] in
theorem afterAdd_spec (c : Cfg α) (s : State α) (hs : SInv s) (x : α) :
    Shape (afterAdd c s x).rows (afterAdd c s x).W ∧ (afterAdd c s x).W = s.W + 1 ∧
    (afterAdd c s x).total = s.total + 1 ∧ (afterAdd c s x).drift = .none ∧
    (afterAdd c s x).recs = Recs.empty ∧
    Merges (flat s.rows ++ [(0, (x, ((0 : Nat) : α)))]) (flat (afterAdd c s x).rows) := by
  have hsh := shape_addSample c.maxBuckets s.rows s.W x hs.shape
  by_cases hd : s.drift = .none
  · have hr := hs.recs hd
    have e : afterAdd c s x = addSample c.maxBuckets { s with total := s.total + 1, W := s.W + 1 } x := by
      simp [afterAdd, hd]
    rw [e]
    exact ⟨hsh.1, rfl, rfl, hd, hr, hsh.2⟩
  · have e : afterAdd c s x =
        addSample c.maxBuckets { reset s with total := (reset s).total + 1, W := (reset s).W + 1 } x := by
      simp [afterAdd, hd]
    rw [e]
    exact ⟨hsh.1, rfl, rfl, rfl, rfl, hsh.2⟩

/-- everything one update does to the bookkeeping, in one statement; the named theorems below are
    its readable corollaries -/
theorem step_spec (c : Cfg α) (hsub : 1 ≤ c.subThresh) (s : State α) (hs : SInv s) (x : α) :
    SInv (step c s x) ∧ (step c s x).total = s.total + 1 ∧
    ∃ k, flat (step c s x).rows = (flat (afterAdd c s x).rows).drop k ∧
      (step c s x).W + sizeOf ((flat (afterAdd c s x).rows).take k) = s.W + 1 ∧
      (k = 0 → step c s x = afterAdd c s x) ∧
      (0 < k → scheduled c (afterAdd c s x) = true ∧ hit c (afterAdd c s x) = true ∧
        (step c s x).drift = .drift ∧ c.subThresh ≤ (step c s x).W ∧
        (step c s x).recs = (some ((step c s x).total - (step c s x).W), some ((step c s x).total - 1))) ∧
      (scheduled c (afterAdd c s x) = true → hit c (step c s x) = false) ∧
      (k = 0 → scheduled c (afterAdd c s x) = true → hit c (afterAdd c s x) = false) := by
  obtain ⟨a1, a2, a3, a4, a5, _⟩ := afterAdd_spec c s hs x
  rw [step_eq]
  generalize afterAdd c s x = a at *
  unfold shrink
  by_cases hsch : scheduled c a = true
  · rw [if_pos hsch]
    obtain ⟨k, r⟩ := shrinkLoop_spec c hsub (flat a.rows).length a a1 (Nat.le_refl _)
    generalize shrinkLoop c (flat a.rows).length a = s' at *
    have htot : s'.total = s.total + 1 := by rw [r.total, a3]
    have hW : s'.W ≤ s'.total := by
      have := r.width; rw [htot]; have := hs.le_total; omega
    refine ⟨?_, htot, k, r.flat_eq, by rw [← a2]; exact r.width, r.zero, ?_, fun _ => r.settled, ?_⟩
    · rcases Nat.eq_zero_or_pos k with hk | hk
      · rw [r.zero hk]
        exact { shape := a1, le_total := by rw [a2, a3]; have := hs.le_total; omega,
                recs := fun _ => a5, nowarn := by rw [a4]; simp }
      · obtain ⟨_, p2, _, _⟩ := r.pos hk
        exact { shape := r.shape, le_total := hW, recs := by rw [p2]; simp, nowarn := by rw [p2]; simp }
    · intro hk
      obtain ⟨p1, p2, p3, p4⟩ := r.pos hk
      refine ⟨hsch, p1, p2, p3, ?_⟩
      rw [p4, r.total]
    · intro hk _
      have := r.settled; rw [r.zero hk] at this; exact this
  · rw [if_neg hsch]
    refine ⟨?_, a3, 0, by simp, by simpa using a2, fun _ => rfl, fun h => absurd h (by omega),
      fun h => absurd h hsch, fun _ h => absurd h hsch⟩
    exact { shape := a1, le_total := by rw [a2, a3]; have := hs.le_total; omega,
            recs := fun _ => a5, nowarn := by rw [a4]; simp }

/-- the invariant holds along every history -/
theorem sinv_foldl (c : Cfg α) (hsub : 1 ≤ c.subThresh) (xs : List α) :
    ∀ s, SInv s → SInv (xs.foldl (step c) s) := by
  induction xs with
  | nil => intro s h; exact h
  | cons x xs ih => intro s h; exact ih _ (step_spec c hsub s h x).1

theorem sinv_run (c : Cfg α) (hsub : 1 ≤ c.subThresh) (xs : List α) : SInv (run c xs) :=
  sinv_foldl c hsub xs _ sinv_init

/-- `total_samples` counts the updates -/
theorem run_total (c : Cfg α) (hsub : 1 ≤ c.subThresh) (xs : List α) : (run c xs).total = xs.length := by
  suffices h : ∀ s, SInv s → (xs.foldl (step c) s).total = s.total + xs.length by
    simpa [run, init] using h init sinv_init
  induction xs with
  | nil => intro s _; rfl
  | cons x xs ih =>
    intro s h
    obtain ⟨h1, h2, _⟩ := step_spec c hsub s h x
    rw [List.foldl_cons, ih _ h1, h2, List.length_cons]; omega

/-! ### readable corollaries of `step_spec` (all for every carrier) -/

omit [Add α] [Sub α] [Mul α] [Div α] [Neg α] [LT α] [DecidableLT α] [NatCast α] [HasSqrt α] [HasLogExp α] in
theorem sizeOf_take_pos (fl : List (Nat × Bucket α)) (k : Nat) (hk : 0 < k) (hne : fl ≠ []) :
    0 < sizeOf (fl.take k) := by
  cases fl with
  | nil => exact absurd rfl hne
  | cons e rest =>
    cases k with
    | zero => omega
    | succ k =>
      simp only [List.take_succ_cons, sizeOf_cons]
      have : 0 < 2 ^ e.1 := Nat.pow_pos (by omega)
      omega

theorem flat_ne_of_hit (c : Cfg α) (s : State α) (h : hit c s = true) : flat s.rows ≠ [] := by
  intro hnil; simp [hit, hnil, scan] at h

/-- **W grows by one per update and shrinks only in an update that reports drift; W ≥ 1.** -/
theorem width_step (c : Cfg α) (hsub : 1 ≤ c.subThresh) (s : State α) (hs : SInv s) (x : α) :
    (step c s x).W ≤ s.W + 1 ∧ 1 ≤ (step c s x).W ∧
    ((step c s x).drift = .none ↔ (step c s x).W = s.W + 1) ∧
    ((step c s x).drift = .drift ↔ (step c s x).W < s.W + 1) := by
  obtain ⟨hinv, _, k, _, hw, h0, hpos, _, _⟩ := step_spec c hsub s hs x
  obtain ⟨_, a2, _, a4, _, _⟩ := afterAdd_spec c s hs x
  rcases Nat.eq_zero_or_pos k with hk | hk
  · rw [h0 hk, a2, a4]; simp
  · obtain ⟨_, p1, p2, p3, _⟩ := hpos hk
    have := sizeOf_take_pos _ k hk (flat_ne_of_hit c _ p1)
    rw [p2]
    refine ⟨by omega, by omega, ?_, ?_⟩
    · constructor
      · intro h; cases h
      · intro h; omega
    · constructor
      · intro _; omega
      · intro _; rfl

/-- **Drift is reported exactly when the check is scheduled (`total % new_sample_thresh = 0` and
    `W > window_size_thresh`, evaluated after the sample was added) and the first scan finds a
    cut** (`hit_iff` says what that means). -/
theorem step_drift_iff (c : Cfg α) (hsub : 1 ≤ c.subThresh) (s : State α) (hs : SInv s) (x : α) :
    (step c s x).drift = .drift ↔
      (scheduled c (afterAdd c s x) = true ∧ hit c (afterAdd c s x) = true) := by
  obtain ⟨_, _, k, _, _, h0, hpos, _, hz⟩ := step_spec c hsub s hs x
  obtain ⟨_, _, _, a4, _, _⟩ := afterAdd_spec c s hs x
  constructor
  · intro hd
    rcases Nat.eq_zero_or_pos k with hk | hk
    · rw [h0 hk, a4] at hd; cases hd
    · exact ⟨(hpos hk).1, (hpos hk).2.1⟩
  · intro ⟨h1, h2⟩
    rcases Nat.eq_zero_or_pos k with hk | hk
    · have := hz hk h1; rw [h2] at this; cases this
    · exact (hpos hk).2.2.1

/-- without a scheduled check the update only adds the sample -/
theorem step_unscheduled (c : Cfg α) (s : State α) (x : α) (h : scheduled c (afterAdd c s x) = false) :
    step c s x = afterAdd c s x := by
  rw [step_eq, shrink, h]; simp

/-- **the oldest buckets are dropped until no admissible split exceeds the cut**: the buckets
    after the update are those after adding the sample minus the `k` oldest; `k > 0` iff drift is
    reported; and after a scheduled check no split of the retained window is a hit. -/
theorem step_drops_oldest (c : Cfg α) (hsub : 1 ≤ c.subThresh) (s : State α) (hs : SInv s) (x : α) :
    (∃ k, flat (step c s x).rows = (flat (afterAdd c s x).rows).drop k ∧
      (0 < k ↔ (step c s x).drift = .drift)) ∧
    (scheduled c (afterAdd c s x) = true → hit c (step c s x) = false) := by
  obtain ⟨_, _, k, hf, _, h0, hpos, hset, _⟩ := step_spec c hsub s hs x
  obtain ⟨_, _, _, a4, _, _⟩ := afterAdd_spec c s hs x
  refine ⟨⟨k, hf, ?_⟩, hset⟩
  constructor
  · intro hk; exact (hpos hk).2.2.1
  · intro hd
    rcases Nat.eq_zero_or_pos k with hk | hk
    · rw [h0 hk, a4] at hd; cases hd
    · exact hk

/-- **`retraining_recs = [total_samples − W, total_samples − 1]` at a drift (for the retained
    window), `[None, None]` otherwise** — in particular cleared by the update after a drift. -/
theorem step_recs (c : Cfg α) (hsub : 1 ≤ c.subThresh) (s : State α) (hs : SInv s) (x : α) :
    ((step c s x).drift = .drift →
      (step c s x).recs = (some ((step c s x).total - (step c s x).W), some ((step c s x).total - 1))
      ∧ (step c s x).W ≤ (step c s x).total) ∧
    ((step c s x).drift ≠ .drift → (step c s x).recs = Recs.empty) := by
  obtain ⟨hinv, _, k, _, _, h0, hpos, _, _⟩ := step_spec c hsub s hs x
  obtain ⟨_, _, _, a4, _, _⟩ := afterAdd_spec c s hs x
  constructor
  · intro hd
    rcases Nat.eq_zero_or_pos k with hk | hk
    · rw [h0 hk, a4] at hd; cases hd
    · exact ⟨(hpos hk).2.2.2.2, hinv.le_total⟩
  · intro hd
    apply hinv.recs
    have := hinv.nowarn
    cases hdd : (step c s x).drift <;> simp_all

/-- **what a hit is**: some bucket boundary of the window — other than the end of the youngest
    bucket — splits it into an older part of `n0` and a newer part of `W − n0` samples, both at
    least `subwindow_size_thresh`, with `|total0/n0 − total1/n1| > eps_cut` (`checkEps`). -/
theorem hit_iff (c : Cfg α) (s : State α) :
    hit c s = true ↔
      ∃ k, ∃ hk : k < (flat s.rows).length,
        ¬ (k + 1 = (flat s.rows).length ∧ ((flat s.rows)[k]).1 = 0) ∧
        c.subThresh ≤ sizeOf ((flat s.rows).take (k + 1)) ∧
        c.subThresh ≤ s.W - sizeOf ((flat s.rows).take (k + 1)) ∧
        checkEps c s (sizeOf ((flat s.rows).take (k + 1)))
          (accT0 ((0 : Nat) : α) ((flat s.rows).take (k + 1)))
          (s.W - sizeOf ((flat s.rows).take (k + 1)))
          (accT1 s.sum ((flat s.rows).take (k + 1))) = true := by
  unfold hit
  rw [scan_iff]
  simp only [splitHit, Nat.zero_add]

/-- the subtraction `W - n` in `_remove_last` never underflows: whenever a scan hits, the oldest
    bucket (of `2^(rows-1)` samples) is smaller than the window by at least `subwindow_size_thresh` -/
theorem cut_no_underflow (c : Cfg α) (hsub : 1 ≤ c.subThresh) (s : State α) (h : Shape s.rows s.W)
    (hh : hit c s = true) : 2 ^ (s.rows.length - 1) + c.subThresh ≤ s.W := by
  obtain ⟨j, b, rest, hf, hb, _⟩ := hit_cut c hsub s h hh
  obtain ⟨_, _, _, _, hj, _⟩ := shape_removeLast s h j b rest hf (by omega)
  rw [← hj]; exact hb

/-- the number of buckets is enough fuel: after `_shrink_window` ran a scheduled check, no split
    of the retained window is a hit -/
theorem shrink_settles (c : Cfg α) (hsub : 1 ≤ c.subThresh) (s : State α) (h : Shape s.rows s.W)
    (hsch : scheduled c s = true) : hit c (shrink c s) = false := by
  rw [shrink, if_pos hsch]
  obtain ⟨k, r⟩ := shrinkLoop_spec c hsub _ s h (Nat.le_refl _)
  exact r.settled

/-! ### row capacity: the numpy arrays of a row (`max_buckets + 1` slots) are never exceeded -/

/-- every row holds at most `max_buckets` buckets between updates -/
def RowsLe (M : Nat) (rows : Rows α) : Prop := ∀ r ∈ rows, r.length ≤ M

omit [Neg α] [LT α] [DecidableLT α] [HasSqrt α] [HasLogExp α] in
theorem rowsLe_addSample (M : Nat) (hM : 1 ≤ M) (s : State α) (x : α) (h : RowsLe M s.rows) :
    RowsLe M (addSample M s x).rows := by
  simp only [addSample]
  cases hr : s.rows with
  | nil =>
    simp only [pushHead]
    exact compress_none_le M hM _ [] 0 (by simp) (by simp)
  | cons r0 rest =>
    rw [hr] at h
    simp only [pushHead]
    exact compress_none_le M hM _ rest 0 (by have := h r0 (by simp); simp; omega)
      (fun r hr => h r (List.mem_cons_of_mem _ hr))

omit [Neg α] [LT α] [DecidableLT α] [HasSqrt α] [HasLogExp α] in
theorem rowsLe_removeLast (M : Nat) (s : State α) (h : RowsLe M s.rows) : RowsLe M (removeLast s).rows := by
  intro r hr
  simp only [removeLast] at hr
  split at hr
  · obtain ⟨r', h1, h2⟩ := mem_dropOldest (mem_trimTail hr)
    exact Nat.le_trans h2 (h r' h1)
  · obtain ⟨r', h1, h2⟩ := mem_dropOldest hr
    exact Nat.le_trans h2 (h r' h1)

theorem rowsLe_shrinkLoop (c : Cfg α) (M : Nat) : ∀ (fuel : Nat) (s : State α), RowsLe M s.rows →
    RowsLe M (shrinkLoop c fuel s).rows := by
  intro fuel
  induction fuel with
  | zero => intro s h; exact h
  | succ fuel ih =>
    intro s h
    rw [shrinkLoop]
    split
    · exact ih _ (rowsLe_removeLast M s h)
    · exact h

theorem rowsLe_step (c : Cfg α) (hM : 1 ≤ c.maxBuckets) (s : State α) (x : α) (h : RowsLe c.maxBuckets s.rows) :
    RowsLe c.maxBuckets (step c s x).rows := by
  have ha : RowsLe c.maxBuckets (afterAdd c s x).rows := by
    unfold afterAdd
    split
    · exact rowsLe_addSample _ hM _ x h
    · exact rowsLe_addSample _ hM _ x h
  rw [step_eq, shrink]
  split
  · exact rowsLe_shrinkLoop c _ _ _ ha
  · exact ha

/-- **no row of the model ever holds more than `max_buckets` buckets after an update** (so the
    `max_buckets + 1` slots of the real arrays suffice, also transiently), for `max_buckets ≥ 1` -/
theorem rows_le (c : Cfg α) (hM : 1 ≤ c.maxBuckets) (xs : List α) : RowsLe c.maxBuckets (run c xs).rows := by
  suffices h : ∀ s : State α, RowsLe c.maxBuckets s.rows → RowsLe c.maxBuckets (xs.foldl (step c) s).rows by
    exact h init (by intro r hr; simp [init] at hr; subst hr; simp)
  induction xs with
  | nil => intro s h; exact h
  | cons x xs ih => intro s h; exact ih _ (rowsLe_step c hM s x h)

theorem run_snoc (c : Cfg α) (xs : List α) (x : α) : run c (xs ++ [x]) = step c (run c xs) x := by
  simp [run, List.foldl_append]

/-- after at least one update the window is not empty -/
theorem run_W_pos (c : Cfg α) (hsub : 1 ≤ c.subThresh) (xs : List α) (hne : xs ≠ []) :
    1 ≤ (run c xs).W := by
  rcases List.eq_nil_or_concat xs with h | ⟨ys, y, rfl⟩
  · exact absurd h hne
  · rw [List.concat_eq_append, run_snoc]
    exact (width_step c hsub _ (sinv_run c hsub ys) y).2.1

end every_carrier

/-! ## Part 2 — exact statistics, for every ordered field

  `sqrt` / `log` may be *any* functions on the field: exactness of the statistics does not depend
  on which cuts are taken. -/
section ordered_field
variable {K : Type} [Field K] [LinearOrder K] [IsStrictOrderedRing K] [HasSqrt K] [HasLogExp K]

/-- the last `n` elements -/
def lastN (n : Nat) (l : List K) : List K := l.drop (l.length - n)

omit [HasSqrt K] [HasLogExp K] in
theorem finv_afterAdd (c : Cfg K) (s : State K) (win : List K) (hf : FInv s win) (x : K) :
    FInv (afterAdd c s x) (win ++ [x]) := by
  have hv : s.var = sqs win - win.sum ^ 2 / (win.length : K) := by rw [hf.var, hf.len]
  unfold afterAdd
  by_cases hd : s.drift ≠ .none
  · rw [if_pos hd]
    exact finv_addSample _ _ win x (by simp [reset, hf.len]) hf.good hf.sum hv
  · rw [if_neg hd]
    exact finv_addSample _ _ win x (by simp [hf.len]) hf.good hf.sum hv

omit [HasSqrt K] [HasLogExp K] in
theorem finv_cut (s : State K) (win : List K) (hsh : Shape s.rows s.W) (hf : FInv s win)
    (j : Nat) (b : Bucket K) (rest : List (Nat × Bucket K)) (hfl : flat s.rows = (j, b) :: rest)
    (hlt : 2 ^ j < s.W) : FInv (cut s) (win.drop (2 ^ j)) := by
  have h := finv_removeLast s win hsh hf j b rest hfl hlt
  exact { good := h.good, len := h.len, sum := h.sum, var := h.var }

theorem finv_shrinkLoop (c : Cfg K) (hsub : 1 ≤ c.subThresh) : ∀ (fuel : Nat) (s : State K) (win : List K),
    Shape s.rows s.W → FInv s win →
    ∃ m, FInv (shrinkLoop c fuel s) (win.drop m) ∧ m + (shrinkLoop c fuel s).W = s.W := by
  intro fuel
  induction fuel with
  | zero => intro s win _ hf; exact ⟨0, by simpa [shrinkLoop] using hf, by simp [shrinkLoop]⟩
  | succ fuel ih =>
    intro s win hsh hf
    rw [shrinkLoop]
    by_cases hh : hit c s = true
    · rw [if_pos hh]
      obtain ⟨j, b, rest, hfl, hb, h1, _, h3, _⟩ := hit_cut c hsub s hsh hh
      have hlt : 2 ^ j < s.W := by omega
      obtain ⟨m, g1, g2⟩ := ih (cut s) _ h1 (finv_cut s win hsh hf j b rest hfl hlt)
      refine ⟨2 ^ j + m, by rw [← List.drop_drop]; exact g1, ?_⟩
      rw [h3] at g2; omega
    · rw [if_neg hh]; exact ⟨0, by simpa using hf, by simp⟩

/-- one update: the window becomes the old window plus the new sample minus its `m` oldest elements -/
theorem finv_step (c : Cfg K) (hsub : 1 ≤ c.subThresh) (s : State K) (hs : SInv s) (win : List K)
    (hf : FInv s win) (x : K) :
    ∃ m, FInv (step c s x) ((win ++ [x]).drop m) ∧ m + (step c s x).W = s.W + 1 := by
  obtain ⟨a1, a2, _⟩ := afterAdd_spec c s hs x
  have ha := finv_afterAdd c s win hf x
  rw [step_eq, shrink]
  split
  · obtain ⟨m, g1, g2⟩ := finv_shrinkLoop c hsub _ _ _ a1 ha
    exact ⟨m, g1, by rw [g2, a2]⟩
  · exact ⟨0, by simpa using ha, by simp [a2]⟩

/-- **the invariant over every history**: the state's window is exactly the last `W` inputs, the
    bucket rows partition it into chunks of sizes `2^row` with exact totals and sums of squared
    deviations, and the running total / variance are exact -/
theorem exact_foldl (c : Cfg K) (hsub : 1 ≤ c.subThresh) (xs : List K) :
    ∀ (s : State K) (hist : List K), SInv s → s.W ≤ hist.length → FInv s (lastN s.W hist) →
      (xs.foldl (step c) s).W ≤ (hist ++ xs).length ∧
      FInv (xs.foldl (step c) s) (lastN (xs.foldl (step c) s).W (hist ++ xs)) := by
  induction xs with
  | nil => intro s hist _ h1 h2; simpa using ⟨h1, h2⟩
  | cons x xs ih =>
    intro s hist hs h1 h2
    obtain ⟨m, g1, g2⟩ := finv_step c hsub s hs _ h2 x
    have hs' := (step_spec c hsub s hs x).1
    have hle : (step c s x).W ≤ (hist ++ [x]).length := by simp; omega
    have hwin : (lastN s.W hist ++ [x]).drop m = lastN (step c s x).W (hist ++ [x]) := by
      unfold lastN
      rw [← List.drop_append_of_le_length (by omega : hist.length - s.W ≤ hist.length), List.drop_drop]
      congr 1
      simp; omega
    rw [hwin] at g1
    have := ih (step c s x) (hist ++ [x]) hs' hle g1
    simpa using this

theorem exact_run (c : Cfg K) (hsub : 1 ≤ c.subThresh) (xs : List K) :
    (run c xs).W ≤ xs.length ∧ FInv (run c xs) (lastN (run c xs).W xs) := by
  have := exact_foldl c hsub xs init [] sinv_init (by simp [init]) (by simpa [lastN, init] using finv_init)
  simpa [run] using this

/-- **`mean()` is the mean of exactly the `W` most recent inputs** -/
theorem mean_exact (c : Cfg K) (hsub : 1 ≤ c.subThresh) (xs : List K) (hne : xs ≠ []) :
    mean (run c xs) = (lastN (run c xs).W xs).sum / ((run c xs).W : K)
    ∧ (lastN (run c xs).W xs).length = (run c xs).W ∧ 1 ≤ (run c xs).W := by
  obtain ⟨_, hf⟩ := exact_run c hsub xs
  have hp := run_W_pos c hsub xs hne
  refine ⟨?_, hf.len, hp⟩
  unfold mean
  rw [if_neg (by omega), hf.sum]

/-- **`variance()` is the population variance of exactly the `W` most recent inputs**:
    `(1/W) Σ (x − x̄)²` over the last `W` inputs, `x̄` their mean -/
theorem variance_exact (c : Cfg K) (hsub : 1 ≤ c.subThresh) (xs : List K) (hne : xs ≠ []) :
    variance (run c xs) =
      ((lastN (run c xs).W xs).map (fun x =>
          (x - (lastN (run c xs).W xs).sum / ((run c xs).W : K)) *
          (x - (lastN (run c xs).W xs).sum / ((run c xs).W : K)))).sum / ((run c xs).W : K) := by
  obtain ⟨_, hf⟩ := exact_run c hsub xs
  have hp := run_W_pos c hsub xs hne
  unfold variance
  rw [if_neg (by omega), hf.var]
  have := dev_eq (lastN (run c xs).W xs)
  unfold dev at this
  rw [hf.len] at this
  rw [this]

/-- number of samples in the `k+1` oldest buckets: the position of the `k`-th bucket boundary -/
def boundary (s : State K) (k : Nat) : Nat := sizeOf ((flat s.rows).take (k + 1))

/-- **the cut rule read on the window itself**: a scan hits iff some bucket boundary `n0` other
    than the end of the youngest bucket splits the window into an older part `win.take n0` and a
    newer part `win.drop n0`, both of at least `subwindow_size_thresh` samples, whose means differ
    by more than the epsilon-cut for the chosen delta. -/
theorem hit_iff_window (c : Cfg K) (s : State K) (win : List K) (hf : FInv s win) :
    hit c s = true ↔
      ∃ k, ∃ hk : k < (flat s.rows).length,
        ¬ (k + 1 = (flat s.rows).length ∧ ((flat s.rows)[k]).1 = 0) ∧
        c.subThresh ≤ boundary s k ∧ c.subThresh ≤ s.W - boundary s k ∧
        epsCut c s.W (variance s) (boundary s k) (s.W - boundary s k) <
          |(win.take (boundary s k)).sum / ((boundary s k : Nat) : K)
            - (win.drop (boundary s k)).sum / ((s.W - boundary s k : Nat) : K)| := by
  obtain ⟨cs, hg, hfl⟩ := hf.good
  rw [hit_iff]
  have key : ∀ k, checkEps c s (boundary s k) (accT0 ((0 : Nat) : K) ((flat s.rows).take (k + 1)))
        (s.W - boundary s k) (accT1 s.sum ((flat s.rows).take (k + 1))) = true ↔
      epsCut c s.W (variance s) (boundary s k) (s.W - boundary s k) <
          |(win.take (boundary s k)).sum / ((boundary s k : Nat) : K)
            - (win.drop (boundary s k)).sum / ((s.W - boundary s k : Nat) : K)| := by
    intro k
    have hpre := good_prefix hg (k + 1)
    rw [hfl] at hpre
    have hsplit : win.sum = (win.take (boundary s k)).sum + (win.drop (boundary s k)).sum := by
      conv_lhs => rw [← List.take_append_drop (boundary s k) win, List.sum_append]
    simp only [checkEps, decide_eq_true_eq, absOf_eq_abs, windowDiff, accT0_eq, accT1_eq, hpre, hf.sum,
      Nat.cast_zero, Nat.cast_one, zero_add, one_mul]
    rw [show boundary s k = sizeOf ((flat s.rows).take (k + 1)) from rfl] at hsplit ⊢
    rw [hsplit, add_sub_cancel_left]
  constructor
  · rintro ⟨k, hk, h1, h2, h3, h4⟩
    exact ⟨k, hk, h1, h2, h3, (key k).1 h4⟩
  · rintro ⟨k, hk, h1, h2, h3, h4⟩
    exact ⟨k, hk, h1, h2, h3, (key k).2 h4⟩

/-- **the cut rule along a history**: the update with `x` after the history `xs` reports drift iff
    the check is scheduled and the window `last W inputs ++ [x]` has a bucket boundary whose two
    sides differ in mean by more than the epsilon-cut -/
theorem run_drift_iff (c : Cfg K) (hsub : 1 ≤ c.subThresh) (xs : List K) (x : K) :
    (run c (xs ++ [x])).drift = .drift ↔
      scheduled c (afterAdd c (run c xs) x) = true ∧
      ∃ k, ∃ hk : k < (flat (afterAdd c (run c xs) x).rows).length,
        ¬ (k + 1 = (flat (afterAdd c (run c xs) x).rows).length ∧ ((flat (afterAdd c (run c xs) x).rows)[k]).1 = 0) ∧
        c.subThresh ≤ boundary (afterAdd c (run c xs) x) k ∧
        c.subThresh ≤ (run c xs).W + 1 - boundary (afterAdd c (run c xs) x) k ∧
        epsCut c ((run c xs).W + 1) (variance (afterAdd c (run c xs) x)) (boundary (afterAdd c (run c xs) x) k)
            ((run c xs).W + 1 - boundary (afterAdd c (run c xs) x) k) <
          |((lastN (run c xs).W xs ++ [x]).take (boundary (afterAdd c (run c xs) x) k)).sum
              / ((boundary (afterAdd c (run c xs) x) k : Nat) : K)
            - ((lastN (run c xs).W xs ++ [x]).drop (boundary (afterAdd c (run c xs) x) k)).sum
              / (((run c xs).W + 1 - boundary (afterAdd c (run c xs) x) k : Nat) : K)| := by
  have hs := sinv_run c hsub xs
  obtain ⟨_, hf⟩ := exact_run c hsub xs
  have ha := finv_afterAdd c _ _ hf x
  obtain ⟨_, a2, _⟩ := afterAdd_spec c _ hs x
  rw [run_snoc, step_drift_iff c hsub _ hs x, hit_iff_window c _ _ ha, a2]

end ordered_field

/-! ## ADWINAccuracy -/
section accuracy
variable {α β : Type} [Add α] [Sub α] [Mul α] [Div α] [Neg α] [LT α] [DecidableLT α]
  [NatCast α] [HasSqrt α] [HasLogExp α] [DecidableEq β]

/-- **ADWINAccuracy behaves exactly as ADWIN, with the constructor parameters it was given, on the
    stream of indicators `1{y_true == y_pred}`** (whatever the label type) -/
theorem adwinAcc_eq_adwin (c : Cfg α) (ys : List (β × β)) :
    AdwinAcc.run c ys = Adwin.run c (ys.map fun y => AdwinAcc.indicator y.1 y.2) := by
  unfold AdwinAcc.run Adwin.run
  rw [List.foldl_map]; rfl

end accuracy

section accuracy_exact
variable {K β : Type} [Field K] [LinearOrder K] [IsStrictOrderedRing K] [HasSqrt K] [HasLogExp K] [DecidableEq β]

/-- ADWINAccuracy's `mean()` is the fraction of agreeing pairs among the last `W` label pairs -/
theorem adwinAcc_mean_exact (c : Cfg K) (hsub : 1 ≤ c.subThresh) (ys : List (β × β)) (hne : ys ≠ []) :
    mean (AdwinAcc.run c ys) =
      (lastN (AdwinAcc.run c ys).W (ys.map fun y => (AdwinAcc.indicator y.1 y.2 : K))).sum
        / ((AdwinAcc.run c ys).W : K) := by
  rw [adwinAcc_eq_adwin]
  exact (mean_exact c hsub _ (by simpa using hne)).1

end accuracy_exact

/-! ## Bonus (ℝ): a smaller delta never lowers the epsilon-cut (used by C17) -/
section real
/-- the real instance of the model's `sqrt` / `log` / `exp` -/
noncomputable local instance realHasSqrt : HasSqrt ℝ := ⟨Real.sqrt⟩
noncomputable local instance realHasLogExp : HasLogExp ℝ := ⟨Real.log, Real.exp⟩

theorem nHarmonic_pos (k n0 n1 : Nat) : (0 : ℝ) < nHarmonic k n0 n1 := by
  unfold nHarmonic
  have h0 : (0 : ℝ) < ((n0 - k + 1 : Nat) : ℝ) := by exact_mod_cast Nat.succ_pos _
  have h1 : (0 : ℝ) < ((n1 - k + 1 : Nat) : ℝ) := by exact_mod_cast Nat.succ_pos _
  have : (0 : ℝ) < ((1 : Nat) : ℝ) := by norm_num
  positivity

/-- for a window of at least two samples (`log W > 0`), non-negative variance and
    `0 < δ₁ ≤ δ₂`: `eps_cut(δ₂) ≤ eps_cut(δ₁)`, for both bounds -/
theorem epsCut_antitone_delta (c : Cfg ℝ) (d1 d2 : ℝ) (h1 : 0 < d1) (h12 : d1 ≤ d2)
    (W : Nat) (hW : 2 ≤ W) (v : ℝ) (hv : 0 ≤ v) (n0 n1 : Nat) :
    epsCut { c with delta := d2 } W v n0 n1 ≤ epsCut { c with delta := d1 } W v n0 n1 := by
  have hnh := nHarmonic_pos c.subThresh n0 n1
  have hlogW : 0 < Real.log ((W : Nat) : ℝ) := Real.log_pos (by exact_mod_cast hW)
  have hd2 : 0 < d2 := lt_of_lt_of_le h1 h12
  have hmono : ∀ a : ℝ, 0 < a → Real.log (a * Real.log ((W : Nat) : ℝ) / d2) ≤ Real.log (a * Real.log ((W : Nat) : ℝ) / d1) := by
    intro a ha
    apply Real.log_le_log (by positivity)
    exact div_le_div_of_nonneg_left (by positivity) h1 h12
  unfold epsCut
  simp only [log, sqrt]
  split
  · apply Real.sqrt_le_sqrt
    have := hmono ((4 : Nat) : ℝ) (by norm_num)
    have hc : (0 : ℝ) ≤ ((1 : Nat) : ℝ) / ((2 : Nat) : ℝ) * nHarmonic c.subThresh n0 n1 := by
      have : (0 : ℝ) ≤ ((1 : Nat) : ℝ) / ((2 : Nat) : ℝ) := by norm_num
      positivity
    exact mul_le_mul_of_nonneg_left this hc
  · have hm := hmono ((2 : Nat) : ℝ) (by norm_num)
    have hc1 : (0 : ℝ) ≤ ((2 : Nat) : ℝ) * nHarmonic c.subThresh n0 n1 * v := by
      have : (0 : ℝ) ≤ ((2 : Nat) : ℝ) := by norm_num
      positivity
    have hc2 : (0 : ℝ) ≤ ((1 : Nat) : ℝ) * (((2 : Nat) : ℝ) / ((3 : Nat) : ℝ)) * nHarmonic c.subThresh n0 n1 := by
      have : (0 : ℝ) ≤ ((1 : Nat) : ℝ) * (((2 : Nat) : ℝ) / ((3 : Nat) : ℝ)) := by norm_num
      positivity
    exact add_le_add (Real.sqrt_le_sqrt (mul_le_mul_of_nonneg_left hm hc1)) (mul_le_mul_of_nonneg_left hm hc2)

/-- hence a split that exceeds the cut for the stricter `δ₁` also exceeds it for the looser `δ₂`
    (same state: window of at least two samples with non-negative variance) -/
theorem checkEps_mono_delta (c : Cfg ℝ) (d1 d2 : ℝ) (h1 : 0 < d1) (h12 : d1 ≤ d2) (s : State ℝ)
    (hW : 2 ≤ s.W) (hv : 0 ≤ s.var) (n0 n1 : Nat) (t0 t1 : ℝ)
    (h : checkEps { c with delta := d1 } s n0 t0 n1 t1 = true) :
    checkEps { c with delta := d2 } s n0 t0 n1 t1 = true := by
  have hvar : 0 ≤ variance s := by
    unfold variance
    split
    · simp
    · exact div_nonneg hv (by positivity)
  have := epsCut_antitone_delta c d1 d2 h1 h12 s.W hW (variance s) hvar n0 n1
  simp only [checkEps, decide_eq_true_eq] at h ⊢
  exact lt_of_le_of_lt this h

end real

/-! ## Non-vacuity: concrete histories over ℚ (with arbitrary stand-ins for sqrt / log) -/
section examples
local instance : HasSqrt ℚ := ⟨id⟩
local instance : HasLogExp ℚ := ⟨fun _ => 1, fun _ => 1⟩

/-- conservative bound, `max_buckets = 2`, check at every sample -/
def cfgEx : Cfg ℚ :=
  { delta := 1, maxBuckets := 2, newSampleThresh := 1, windowThresh := 0, subThresh := 1, conservative := true }

-- a history with merges and a drift that drops two buckets: W = 1, recs = [4, 4]
example : (run cfgEx [0, 0, 0, 0, 8]).drift = .drift ∧ (run cfgEx [0, 0, 0, 0, 8]).W = 1 ∧
    (run cfgEx [0, 0, 0, 0, 8]).recs = (some 4, some 4) ∧ (run cfgEx [0, 0, 0, 0]).rows = [[(0, 0), (0, 0)], [(0, 0)]] := by
  decide +kernel
-- the next update clears drift and recs and grows the window by one
example : (run cfgEx [0, 0, 0, 0, 8, 8]).drift = .none ∧ (run cfgEx [0, 0, 0, 0, 8, 8]).W = 2 ∧
    (run cfgEx [0, 0, 0, 0, 8, 8]).recs = Recs.empty := by
  decide +kernel
-- the hypotheses of the step theorems are met by a state in which the next update cuts
example : SInv (run cfgEx [0, 0, 0, 0]) ∧ scheduled cfgEx (afterAdd cfgEx (run cfgEx [0, 0, 0, 0]) 8) = true ∧
    hit cfgEx (afterAdd cfgEx (run cfgEx [0, 0, 0, 0]) 8) = true :=
  ⟨sinv_run cfgEx (by decide) _, by decide +kernel, by decide +kernel⟩
-- exactness after a cut: the last W = 2 inputs are 8, 9: mean 17/2, population variance 1/4
example : mean (run cfgEx [0, 0, 0, 0, 8, 8, 8, 9]) = 17 / 2 ∧ variance (run cfgEx [0, 0, 0, 0, 8, 8, 8, 9]) = 1 / 4 ∧
    lastN (run cfgEx [0, 0, 0, 0, 8, 8, 8, 9]).W [0, 0, 0, 0, 8, 8, 8, 9] = [8, 9] := by
  decide +kernel
-- `max_buckets = 1` leaves an empty intermediate row (the situation of the F3 repair)
example : (run { cfgEx with maxBuckets := 1 } [1, 1, 1, 1, 1, 1]).rows = [[], [(2, 0)], [(4, 0)]] := by
  decide +kernel

-- the repaired `_remove_last`: dropping the oldest bucket of `[[b], [], [c]]` empties the tail row;
-- the row is removed and the empty row behind it must not become the tail
example : dropOldest ([[(1, 0)], [], [(4, 0)]] : Rows ℚ) = [[(1, 0)], []] ∧
    trimTail ([[(1, 0)], []] : Rows ℚ) = [[(1, 0)]] := by decide +kernel

end examples
end MV.Adwin
