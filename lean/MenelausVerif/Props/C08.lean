/-
  C08 — the kdq-tree partitions space consistently and conserves counts.

  Model: `Model/KdqTree.lean` (transcription of menelaus/partitioners/KDQTreePartitioner.py).

  Part A (every carrier; the only assumption is `Compl α`: the routing tests `x > mid` and
  `x ≤ mid` are complementary — true in every linear order, for the executed `Float` instance
  true on non-NaN data): what `build` returns, children sums, conservation, stop rule, axis
  cycling, midpoints, `fill` (accumulate / reset / frame), cells, fill(build data), histories
  of fills, `to_plotly_dataframe`.
  Part B (ordered fields): `build` terminates within the model's fuel and never produces a
  `None` child; the split value is the midpoint of the range; corrected distributions sum to 1.
  Part C (ℝ): `kl_distance` is the Kullback-Leibler divergence of the corrected distributions,
  it is ≥ 0 (Gibbs) and 0 for equal counts; the Kulldorff statistic is the two-cell divergence.

  Rejected / excluded inputs: `build` on zero rows (numpy raises), NaN coordinates, fills whose
  column count differs from the build's.  A *float-only* defect is recorded as a known finding
  (`known-findings.txt`, kdq-midpoint-rounds-to-max): with adjacent floats `min + ptp/2` can
  round up to the maximum, then the upper half is empty (a `None` child, `noNilBelow = false`)
  or, in one dimension, the recursion never ends (`build = none`).  Part B shows that this is
  impossible in exact arithmetic; the fill theorems of part A carry `noNilBelow` as a hypothesis.
-/
import MenelausVerif.Lemmas.KdqTree
import MenelausVerif.Lemmas.KdqArith
set_option linter.unusedSectionVars false
set_option linter.unusedSimpArgs false
namespace MV.Kdq

/-! ## Part A — every carrier -/

section A
variable {α : Type} [Inhabited α] [Add α] [Sub α] [Mul α] [Div α] [LT α] [DecidableLT α]
  [LE α] [DecidableLE α] [NatCast α] [BEq α] [HasTrunc α]

/-- `build` returns exactly the tree described by `Built` (refinement to the declarative
    description: `None` for no rows, leaf with the row count when the stop rule applies, else a
    split of axis `depth mod m` at `min + ptp/2` with the `≤` / `>` halves as children). -/
theorem build_spec (c : Cfg α) (m : Nat) (data : List (List α)) (t : Tree α) (h : build c m data = some t) :
    Built c.countUbound (minCutpointSizes c m data) m 0 data t :=
  buildAux_built _ _ _ _ _ _ _ h

/-- each node's build count is the sum of its children's counts -/
theorem build_children_sum (hc : Compl α) (c : Cfg α) {m : Nat} (hm : 0 < m) (data : List (List α)) (t : Tree α)
    (h : build c m data = some t) : ChildrenSum 0 t :=
  ((build_spec c m data t h).wf hc hm).1

/-- the leaf counts add up to the number of points built -/
theorem build_leaf_sum (hc : Compl α) (c : Cfg α) {m : Nat} (hm : 0 < m) (data : List (List α)) (t : Tree α)
    (h : build c m data = some t) : (leafCountsD t 0).sum = data.length := by
  obtain ⟨h1, h2, _, _⟩ := (build_spec c m data t h).wf hc hm
  rw [leafSum_eq_rootCount 0 t h1, h2]

/-- **every internal node** of the built tree, wherever it sits (`Holds`: depth `ds`, holding the
    rows `q` of the data): it splits axis `ds mod m` at the midpoint `min + ptp/2` of the range of
    the rows it holds, it holds more than `count_ubound` rows (no node with `count_ubound` rows or
    fewer is split), its count is the number of rows it holds, and the stop rule did not apply. -/
theorem build_every_node (hc : Compl α) (c : Cfg α) (m : Nat) (data : List (List α)) (t : Tree α)
    (h : build c m data = some t) {a : Nat} {mid : α} {cnt : Counts} {l r : Tree α} {ds : Nat} {q : List (List α)}
    (hh : Holds t 0 data (.node a mid cnt l r) ds q) :
    a = ds % m ∧ mid = midpoint q a ∧ c.countUbound < q.length ∧ cget cnt 0 = some q.length ∧
      stops c.countUbound (minCutpointSizes c m data) q a = false := by
  have hb := (build_spec c m data t h).holds hh
  cases hb with
  | node h0 hs hl hr =>
    refine ⟨rfl, rfl, ?_, ?_, hs⟩
    · simp only [stops, Bool.or_eq_false_iff, decide_eq_false_iff_not] at hs
      omega
    · simp [cget, split_length hc]

/-- every leaf of the built tree carries the number of rows that the splits route to it, and it
    is a leaf because the stop rule applied to those rows -/
theorem build_every_leaf (c : Cfg α) (m : Nat) (data : List (List α)) (t : Tree α)
    (h : build c m data = some t) {cnt : Counts} {ds : Nat} {q : List (List α)}
    (hh : Holds t 0 data (.leaf cnt) ds q) :
    cnt = [(0, q.length)] ∧ stops c.countUbound (minCutpointSizes c m data) q (ds % m) = true := by
  have hb := (build_spec c m data t h).holds hh
  cases hb with
  | leaf h0 hs => exact ⟨rfl, hs⟩

/-- the stop rule contains `n ≤ count_ubound`: rows not exceeding the bound are never split -/
theorem stops_of_le (ub : Nat) (mins : List α) (q : List (List α)) (a : Nat) (h : q.length ≤ ub) :
    stops ub mins q a = true := by
  simp [stops, h]

end A

section Afill
variable {α : Type} [Inhabited α] [LT α] [DecidableLT α] [LE α] [DecidableLE α]

/-- `fill` never changes the splits -/
theorem fill_structure (id : Nat) (rs : Bool) (pts : List (List α)) (t : Tree α) :
    skeleton (fill id rs pts t) = skeleton t := skeleton_fill id rs t pts

/-- `fill` under one id leaves the counts of every other id untouched, at every node -/
theorem fill_other_ids (id : Nat) (rs : Bool) (pts : List (List α)) (t : Tree α) {j : Nat} (hj : j ≠ id) :
    nodeCounts j (fill id rs pts t) = nodeCounts j t := nodeCounts_fill_ne id rs hj t pts

/-- accumulate / reset, at every node object (pre-order): the new count is the number of sample
    rows routed to the node, plus the previous count unless `reset` is set or there was none -/
theorem fill_counts (hc : Compl α) (id : Nat) (rs : Bool) (pts : List (List α)) (t : Tree α) :
    nodeCounts id (fill id rs pts t) =
      List.zipWith (fun old k => some (if rs then k else match old with | some o => o + k | none => k))
        (nodeCounts id t) (routed t pts) := nodeCounts_fill hc id rs t pts

/-- `fill` assigns every point to the leaf whose cell contains it: after an overwriting fill the
    count of leaf `k` is the number of sample rows lying in the cell of leaf `k` … -/
theorem fill_leaf_is_cell_count (id : Nat) (rs : Bool) (pts : List (List α)) (t : Tree α)
    (hfresh : rs = true ∨ Absent id t) :
    leafCountsD (fill id rs pts t) id =
      (List.range t.numLeaves).map (fun k => (pts.filter (fun p => inCell p t k)).length) :=
  leafCounts_fill_cells id rs t pts hfresh

/-- … and the cells partition the space: every point lies in the cell of exactly one leaf, the
    one its descent (`> mid` → right, else left) reaches -/
theorem cells_partition (hc : Compl α) {t : Tree α} (hn : t.noNilBelow = true) (p : List α) :
    descend p t < t.numLeaves ∧ ∀ k, k < t.numLeaves → (inCell p t k = true ↔ k = descend p t) :=
  ⟨descend_lt hn p, inCell_iff_descend hc hn p⟩

/-- the invariant of a partitioner: no `None` child, and for every id either every node carries
    it and the children-sum rule holds, or no node carries it -/
def Inv (t : Tree α) : Prop :=
  t.noNilBelow = true ∧ ∀ j, (Present j t ∧ ChildrenSum j t) ∨ Absent j t

theorem fill_inv (hc : Compl α) (id : Nat) (rs : Bool) (pts : List (List α)) {t : Tree α} (h : Inv t) :
    Inv (fill id rs pts t) := by
  obtain ⟨hn, hj⟩ := h
  refine ⟨by rw [noNilBelow_fill]; exact hn, ?_⟩
  intro j
  by_cases e : j = id
  · subst e
    left
    cases rs with
    | true => obtain ⟨a, b, _⟩ := fill_fresh hc j true t pts hn (Or.inl rfl); exact ⟨b, a⟩
    | false =>
      rcases hj j with ⟨hp, hs⟩ | ha
      · obtain ⟨a, b, _⟩ := fill_accum hc j t pts hn hp hs; exact ⟨b, a⟩
      · obtain ⟨a, b, _⟩ := fill_fresh hc j false t pts hn (Or.inr ha); exact ⟨b, a⟩
  · obtain ⟨_, h2, h3, h4⟩ := fill_other id rs e t pts
    rcases hj j with ⟨hp, hs⟩ | ha
    · exact Or.inl ⟨h3 hp, h2 hs⟩
    · exact Or.inr (h4 ha)

/-- conservation for one `fill`: the leaf counts of the filled id add up to the sample size, plus
    the previous total unless reset; the totals of all other ids are unchanged -/
theorem fill_leaf_sum (hc : Compl α) (id : Nat) (rs : Bool) (pts : List (List α)) {t : Tree α} (h : Inv t) (j : Nat) :
    (leafCountsD (fill id rs pts t) j).sum =
      if j = id then (if rs then pts.length else (leafCountsD t id).sum + pts.length)
      else (leafCountsD t j).sum := by
  obtain ⟨hn, hj⟩ := h
  by_cases e : j = id
  · subst e
    simp only [if_true]
    cases rs with
    | true =>
      obtain ⟨a, _, b⟩ := fill_fresh hc j true t pts hn (Or.inl rfl)
      rw [leafSum_eq_rootCount _ _ a, b]; rfl
    | false =>
      simp only [Bool.false_eq_true, if_false]
      rcases hj j with ⟨hp, hs⟩ | ha
      · obtain ⟨a, _, b⟩ := fill_accum hc j t pts hn hp hs
        rw [leafSum_eq_rootCount _ _ a, b, leafSum_eq_rootCount _ _ hs]
      · obtain ⟨a, _, b⟩ := fill_fresh hc j false t pts hn (Or.inr ha)
        obtain ⟨a', b'⟩ := absent_childrenSum j t ha
        rw [leafSum_eq_rootCount _ _ a, b, leafSum_eq_rootCount _ _ a', b']; omega
  · simp only [e, if_false]
    rw [leafCountsD_fill_ne id rs e t pts]

/-- one `fill` call -/
structure FillOp (α : Type) where
  id : Nat
  reset : Bool
  pts : List (List α)

def runFills (t : Tree α) (ops : List (FillOp α)) : Tree α :=
  ops.foldl (fun t o => fill o.id o.reset o.pts t) t

/-- how many points id `j` must account for after a history of fills, starting from `n0` -/
def expectedTotal (j : Nat) (n0 : Nat) (ops : List (FillOp α)) : Nat :=
  ops.foldl (fun n o => if j = o.id then (if o.reset then o.pts.length else n + o.pts.length) else n) n0

/-- **conservation over every history of fills** (any ids, with or without reset, any samples):
    the invariant is kept and for every id the leaf counts add up to the number of points filled
    since the last reset of that id (plus what was there at the start) -/
theorem fills_conserve (hc : Compl α) (ops : List (FillOp α)) :
    ∀ {t : Tree α}, Inv t →
      Inv (runFills t ops) ∧
      ∀ j, (leafCountsD (runFills t ops) j).sum = expectedTotal j (leafCountsD t j).sum ops := by
  induction ops with
  | nil => intro t h; exact ⟨h, fun _ => rfl⟩
  | cons o os ih =>
    intro t h
    have h1 := fill_inv hc o.id o.reset o.pts h
    obtain ⟨i1, i2⟩ := ih h1
    refine ⟨i1, ?_⟩
    intro j
    simp only [runFills, expectedTotal, List.foldl_cons] at i2 ⊢
    rw [i2 j, fill_leaf_sum hc o.id o.reset o.pts h j]
    congr 1
    by_cases e : j = o.id
    · rw [e]
    · simp [e]

/-- children sums for every id after every history of fills -/
theorem fills_children_sum (hc : Compl α) (ops : List (FillOp α)) {t : Tree α} (h : Inv t) (j : Nat) :
    ChildrenSum j (runFills t ops) := by
  rcases (fills_conserve hc ops h).1.2 j with ⟨_, hs⟩ | ha
  · exact hs
  · exact (absent_childrenSum j _ ha).1

end Afill

section Abuildfill
variable {α : Type} [Inhabited α] [Add α] [Sub α] [Mul α] [Div α] [LT α] [DecidableLT α]
  [LE α] [DecidableLE α] [NatCast α] [BEq α] [HasTrunc α]

/-- a built tree without `None` child satisfies the partitioner invariant -/
theorem build_inv (hc : Compl α) (c : Cfg α) {m : Nat} (hm : 0 < m) (data : List (List α)) (t : Tree α)
    (h : build c m data = some t) (hn : t.noNilBelow = true) : Inv t := by
  obtain ⟨h1, _, h3, h4⟩ := (build_spec c m data t h).wf hc hm
  refine ⟨hn, fun j => ?_⟩
  by_cases e : j = 0
  · subst e; exact Or.inl ⟨h3, h1⟩
  · exact Or.inr (h4 j e)

/-- filling the build data under another id (or with reset) reproduces the build counts exactly,
    at every node — hence also at the leaves; no assumption on the carrier is needed -/
theorem fill_build_data (c : Cfg α) (m : Nat) (data : List (List α)) (t : Tree α)
    (h : build c m data = some t) (id : Nat) (rs : Bool) (hfresh : rs = true ∨ id ≠ 0) :
    nodeCounts id (fill id rs data t) = nodeCounts 0 t := by
  have hb := build_spec c m data t h
  exact hb.fill_same id rs (hfresh.imp (fun h => h) (fun h => hb.absent h))

end Abuildfill

section Aflat
variable {β : Type}

/-- `to_plotly_dataframe` lists every node object exactly once, in pre-order: as many rows as
    nodes, the canonical ids are `0, 1, …, N-1`, row `i` carries the reference count of the
    `i`-th node and (when `tree_id2` is given) its count difference `count₂ - count₁`. -/
theorem flatten_each_node_once (t : Tree β) (id1 : Nat) (id2 : Option Nat) (hp : Present id1 t) :
    (flatten t id1 id2).length = t.numNodes ∧
    (flatten t id1 id2).map (·.idx) = List.range t.numNodes ∧
    (flatten t id1 id2).map (·.cell) = (subtrees t).map (·.rootCount id1) ∧
    (flatten t id1 id2).map (·.diff) = (subtrees t).map (diffOf id1 id2) := by
  have h := flattenAux_spec id1 id2 t hp 0 none 0 none
  rw [List.range_eq_range']
  exact h

/-- every row names its parent and depth correctly: a row is either the root row (number 0, no
    parent, depth 0) or its `parent_idx` is the pre-order number `p` of an internal node at depth
    `dp`, the row's depth is `dp + 1`, and the row's own number is that of `p`'s left child
    (`p + 1`, name `ax a <= …`) or right child (`p + 1 + numNodes left`, name `ax a > …`). -/
theorem flatten_parents (t : Tree β) (id1 : Nat) (id2 : Option Nat) (hp : Present id1 t) :
    ∀ row ∈ flatten t id1 id2,
      (row.idx = 0 ∧ row.parent = none ∧ row.depth = 0 ∧ row.via = none) ∨
      (∃ p a mid c l r dp, row.parent = some p ∧ nodeAt t p = some (Tree.node a mid c l r, dp) ∧
        row.depth = dp + 1 ∧
        ((row.idx = p + 1 ∧ row.via = some (a, false)) ∨ (row.idx = p + 1 + l.numNodes ∧ row.via = some (a, true)))) := by
  intro row h
  rcases flattenAux_parent id1 id2 t hp 0 none 0 none row h with h | ⟨p, a, mid, c, l, r, dp, h1, _, h3, h4, h5⟩
  · exact Or.inl h
  · exact Or.inr ⟨p, a, mid, c, l, r, dp, h1, by simpa using h3, by omega, h5⟩

variable {α : Type} [Add α] [Mul α] [Div α] [LT α] [DecidableLT α] [LE α] [DecidableLE α]
  [NatCast α] [BEq α] [HasLogExp α]

/-- the Kulldorff statistic of a row is, by definition, the corrected divergence between the
    two-cell distributions (node, rest) of the two trees -/
theorem kss_is_two_cell (ref test refMax testMax : Nat) :
    (kss ref test refMax testMax : α) =
      entropy (distnFromCounts [ref, refMax - ref]) (distnFromCounts [test, testMax - test]) := rfl

/-- … and in `to_plotly_dataframe` "rest" really is the rest of the sample: when the children-sum
    rule holds for both ids, `ref_max` / `test_max` (column maxima in the code) are the root
    counts, i.e. the sample sizes, so the `kss` of the `i`-th node `s` is
    `KL([n₁(s), N₁ - n₁(s)] ‖ [n₂(s), N₂ - n₂(s)])` with the `+0.5` correction. -/
theorem plotly_kss (t : Tree β) (id1 id2 : Nat) (hp : Present id1 t) (h1 : ChildrenSum id1 t)
    (h2 : ChildrenSum id2 t) (hne : t.numNodes ≠ 0) :
    ∃ rows : List (Row × Option α), plotly t id1 (some id2) none = .ok rows ∧
      rows.map Prod.fst = flatten t id1 (some id2) ∧
      rows.map Prod.snd = (subtrees t).map (fun s => some
        (klCounts [s.rootCount id1, t.rootCount id1 - s.rootCount id1]
                  [s.rootCount id2, t.rootCount id2 - s.rootCount id2])) := by
  obtain ⟨f1, _, f3, f4⟩ := flatten_each_node_once t id1 (some id2) hp
  obtain ⟨rest, hrest⟩ := subtrees_head t hne
  have hne' : (flatten t id1 (some id2)).isEmpty = false := by
    cases hf : flatten t id1 (some id2) with
    | nil => rw [hf] at f1; simp at f1; omega
    | cons _ _ => rfl
  -- test counts of the rows are the id2 counts of the nodes
  have htest : (flatten t id1 (some id2)).map Row.test = (subtrees t).map (·.rootCount id2) := by
    have hz : ∀ (rows : List Row) (ss : List (Tree β)),
        rows.map (·.cell) = ss.map (·.rootCount id1) → rows.map (·.diff) = ss.map (diffOf id1 (some id2)) →
        rows.map Row.test = ss.map (·.rootCount id2) := by
      intro rows
      induction rows with
      | nil => intro ss a _; cases ss with
        | nil => rfl
        | cons _ _ => simp at a
      | cons r rs ih =>
        intro ss a b
        cases ss with
        | nil => simp at a
        | cons s ss =>
          simp only [List.map_cons, List.cons.injEq] at a b ⊢
          refine ⟨?_, ih ss a.2 b.2⟩
          simp only [Row.test, b.1, a.1, diffOf, Option.map_some, Option.getD_some]
          omega
    exact hz _ _ f3 f4
  have hmax1 : maxNat ((flatten t id1 (some id2)).map (·.cell)) = t.rootCount id1 := by
    rw [f3]
    exact maxNat_eq (by rw [hrest]; simp) (by
      intro y hy; obtain ⟨s, hs, rfl⟩ := List.mem_map.mp hy; exact rootCount_le_root id1 t h1 s hs)
  have hmax2 : maxNat ((flatten t id1 (some id2)).map Row.test) = t.rootCount id2 := by
    rw [htest]
    exact maxNat_eq (by rw [hrest]; simp) (by
      intro y hy; obtain ⟨s, hs, rfl⟩ := List.mem_map.mp hy; exact rootCount_le_root id2 t h2 s hs)
  refine ⟨(flatten t id1 (some id2)).map
    (fun r => (r, some (kss r.cell r.test (t.rootCount id1) (t.rootCount id2)))), ?_, ?_, ?_⟩
  · simp only [plotly, depthFilter, Option.getD_none, ne_eq, not_true_eq_false, and_false, if_false, hne',
      Bool.false_eq_true, hmax1, hmax2]
  · rw [List.map_map]; exact List.map_id _
  · simp only [List.map_map, Function.comp, kss]
    have hz : ∀ (rows : List Row) (ss : List (Tree β)),
        rows.map (·.cell) = ss.map (·.rootCount id1) → rows.map Row.test = ss.map (·.rootCount id2) →
        rows.map (fun r => some (klCounts [r.cell, t.rootCount id1 - r.cell] [r.test, t.rootCount id2 - r.test] : α)) =
        ss.map (fun s => some (klCounts [s.rootCount id1, t.rootCount id1 - s.rootCount id1]
          [s.rootCount id2, t.rootCount id2 - s.rootCount id2])) := by
      intro rows
      induction rows with
      | nil => intro ss a _; cases ss with
        | nil => rfl
        | cons _ _ => simp at a
      | cons r rs ih =>
        intro ss a b
        cases ss with
        | nil => simp at a
        | cons s ss =>
          simp only [List.map_cons, List.cons.injEq] at a b ⊢
          exact ⟨by rw [a.1, b.1], ih ss a.2 b.2⟩
    exact hz _ _ f3 htest

end Aflat

/-! ## Part B — ordered fields -/

section B
variable {K : Type} [Field K] [LinearOrder K] [IsStrictOrderedRing K] [Inhabited K] [BEq K] [HasTrunc K]

/-- in a linear order the two routing tests are complementary -/
theorem split_partition : Compl K := compl_of_linearOrder

/-- **`build` terminates** (within the model's fuel) for every data set and configuration with
    `cutpoint_proportion_lbound ≥ 0` (and a truncation `int()` that maps non-negative numbers to
    non-negative numbers), and the tree has **no `None` child**: when a split happens both halves
    are non-empty and strictly smaller.  (With `Float` rounding this can fail — known finding.) -/
theorem build_terminates (c : Cfg K) (hc : 0 ≤ c.cplb) (htr : ∀ x : K, 0 ≤ x → 0 ≤ HasTrunc.trunc x)
    (m : Nat) (data : List (List K)) :
    ∃ t, build c m data = some t ∧ (data ≠ [] → 0 < m → t.noNilBelow = true) := by
  by_cases hm : m = 0
  · subst hm
    refine ⟨.nil, by simp [build, buildFuel, buildAux], fun _ h => by omega⟩
  unfold build
  apply buildAux_total
  · intro a ha
    have hlen : (minCutpointSizes c m data).length = m := by simp [minCutpointSizes]
    have hlt : a < (minCutpointSizes c m data).length := by rw [hlen]; exact ha
    rw [← List.getElem_eq_getD (h := hlt) default]
    simp only [minCutpointSizes, List.getElem_map, List.getElem_range]
    apply htr
    apply mul_nonneg hc
    simp only [ptp, sub_nonneg]
    by_cases hd : data = []
    · subst hd; simp [col, maxOf, minOf]
    · exact le_trans (minOf_le (minOf_mem (col_ne_nil hd a))) (le_maxOf (minOf_mem (col_ne_nil hd a)))
  · simp only [buildFuel]
    have : 1 ≤ m := by omega
    nlinarith

/-- the split value is the midpoint of the range of the points held: `(lo + hi) / 2` where `lo`
    and `hi` are the least and the greatest coordinate of those points on the split axis -/
theorem mid_is_midpoint (q : List (List K)) (a : Nat) (hq : q ≠ []) :
    ∃ lo hi, lo ∈ col q a ∧ hi ∈ col q a ∧ (∀ z ∈ col q a, lo ≤ z ∧ z ≤ hi) ∧ midpoint q a = (lo + hi) / 2 := by
  refine ⟨minOf (col q a), maxOf (col q a), minOf_mem (col_ne_nil hq a), maxOf_mem (col_ne_nil hq a),
    fun z hz => ⟨minOf_le hz, le_maxOf hz⟩, ?_⟩
  have h2 : ((2 : Nat) : K) = 2 := by norm_num
  simp only [midpoint, ptp, two, h2]
  ring

/-- leaf distributions with the `+0.5` correction sum to one -/
theorem distn_sums_to_one (counts : List Nat) (h : counts ≠ []) : sumL (distnFromCounts counts : List K) = 1 :=
  distn_sum_one h

/-- … and each entry is `(count + 1/2) / (total + leaves / 2)` -/
theorem distn_entries (counts : List Nat) :
    (distnFromCounts counts : List K) =
      counts.map (fun (c : Nat) => ((c : K) + 1 / 2) / ((counts.sum : K) + (counts.length : K) / 2)) := by
  have h2 : ((2 : Nat) : K) = 2 := by norm_num
  simp only [distn_eq, denom, half_eq, h2]

end B

/-! ## Part C — ℝ -/

section C

theorem zipWith_relEntr_eq : ∀ (ps qs : List ℝ), (∀ p ∈ ps, 0 < p) → (∀ q ∈ qs, 0 < q) →
    List.zipWith relEntr ps qs = List.zipWith (fun p q => p * Real.log (p / q)) ps qs := by
  intro ps
  induction ps with
  | nil => intro qs _ _; simp
  | cons p ps ih =>
    intro qs hp hq
    cases qs with
    | nil => simp
    | cons q qs =>
      simp only [List.zipWith_cons_cons]
      rw [relEntr_pos_eq (hp p (List.mem_cons_self)) (hq q (List.mem_cons_self)),
        ih qs (fun x hx => hp x (List.mem_cons_of_mem _ hx)) (fun x hx => hq x (List.mem_cons_of_mem _ hx))]

/-- `kl_distance` is the Kullback-Leibler divergence `Σ p log (p / q)` of the corrected leaf
    distributions (scipy's normalisation is the identity because they sum to one) -/
theorem kl_is_divergence (c1 c2 : List Nat) (h1 : c1 ≠ []) (h2 : c2 ≠ []) :
    (klCounts c1 c2 : ℝ) =
      (List.zipWith (fun p q => p * Real.log (p / q)) (distnFromCounts c1 : List ℝ) (distnFromCounts c2)).sum := by
  unfold klCounts
  rw [entropy_eq_sum (distn_sum_one h1) (distn_sum_one h2),
    zipWith_relEntr_eq _ _ (distn_pos h1) (distn_pos h2)]

/-- Gibbs: the divergence is non-negative -/
theorem kl_nonneg (c1 c2 : List Nat) (h : c1.length = c2.length) : 0 ≤ (klCounts c1 c2 : ℝ) := by
  by_cases h1 : c1 = []
  · subst h1
    have : c2 = [] := List.eq_nil_of_length_eq_zero (by simpa using h.symm)
    subst this
    simp [klCounts, distnFromCounts, entropy, sumL]
  have h2 : c2 ≠ [] := by intro e; subst e; exact h1 (List.eq_nil_of_length_eq_zero (by simpa using h))
  exact entropy_nonneg (by simp [distn_length, h]) (distn_pos h1) (distn_pos h2)

/-- equal counts have divergence 0 -/
theorem kl_self (c : List Nat) : (klCounts c c : ℝ) = 0 := by
  by_cases h1 : c = []
  · subst h1; simp [klCounts, distnFromCounts, entropy, sumL]
  exact entropy_self (distn_pos h1)

/-- `kl_distance(id1, id2)` of a partitioner, whenever it returns a value, is ≥ 0 … -/
theorem kl_distance_nonneg {β : Type} (t : Tree β) (id1 id2 : Nat) (v : ℝ)
    (h : klDistance? t id1 id2 = .ok v) : 0 ≤ v := by
  unfold klDistance? at h
  split at h
  · cases h
  · split at h
    · cases h
      exact kl_nonneg _ _ (by simp [leafCountsD])
    · cases h

/-- … and 0 when the two ids have equal leaf counts (in particular `kl_distance(id, id) = 0`) -/
theorem kl_distance_equal_counts {β : Type} (t : Tree β) (id1 id2 : Nat) (v : ℝ)
    (he : leafCountsD t id1 = leafCountsD t id2) (h : klDistance? t id1 id2 = .ok v) : v = 0 := by
  unfold klDistance? at h
  split at h
  · cases h
  · split at h
    · cases h
      rw [he]; exact kl_self _
    · cases h

end C

/-! ## Non-vacuity: concrete trees (rational carrier) -/

section examples

instance : HasTrunc ℚ := ⟨fun x => (Int.toNat ⌊x⌋ : ℚ)⟩  -- truncation of non-negative rationals

/-- four points on a line, `count_ubound = 1`: splits at 3/2, then 1/2 and 5/2 -/
def exData : List (List ℚ) := [[0], [1], [2], [3]]
def exCfg : Cfg ℚ := { countUbound := 1, cplb := 0 }

def exTree : Tree ℚ :=
  .node 0 (3/2) [(0, 4)]
    (.node 0 (1/2) [(0, 2)] (.leaf [(0, 1)]) (.leaf [(0, 1)]))
    (.node 0 (5/2) [(0, 2)] (.leaf [(0, 1)]) (.leaf [(0, 1)]))

/-- the model's `build` produces this tree … -/
theorem ex_build : build exCfg 1 exData = some exTree := by decide +kernel

/-- the hypotheses of `build_terminates` are satisfiable (ℚ, `int()` = floor of non-negatives) -/
example : ∃ t, build exCfg 1 exData = some t ∧ (exData ≠ [] → 0 < 1 → t.noNilBelow = true) :=
  build_terminates exCfg (le_refl _) (fun _ _ => Nat.cast_nonneg _) 1 exData

/-- … so the hypotheses of the build theorems are satisfiable by a tree with three splits -/
example : ChildrenSum 0 exTree := build_children_sum split_partition exCfg (by decide) exData exTree ex_build
example : (leafCountsD exTree 0).sum = 4 := build_leaf_sum split_partition exCfg (by decide) exData exTree ex_build
example : Inv exTree := build_inv split_partition exCfg (by decide) exData exTree ex_build rfl

/-- an internal node below the root, with the rows it holds (`Holds`), as used by `build_every_node` -/
example : Holds exTree 0 exData (.node 0 (1/2) [(0, 2)] (.leaf [(0, 1)]) (.leaf [(0, 1)])) 1 [[0], [1]] := by
  have h : exData.filter (goesDown 0 (3/2 : ℚ)) = [[0], [1]] := by decide +kernel
  exact Holds.left (h ▸ Holds.here _ _ _)

/-- a fill with a point exactly on a split value (1/2 goes left: `≤`), one in the last cell, one
    beyond the data range: each lands in exactly one leaf; a second fill accumulates; reset overwrites -/
example : leafCountsD (fill 1 false [[1/2], [2], [7]] exTree) 1 = [1, 0, 1, 1] := by decide +kernel
example : leafCountsD (fill 1 false [[0]] (fill 1 false [[1/2], [2], [7]] exTree)) 1 = [2, 0, 1, 1] := by
  decide +kernel
example : leafCountsD (fill 1 true [[0]] (fill 1 false [[1/2], [2], [7]] exTree)) 1 = [1, 0, 0, 0] := by
  decide +kernel
example : descend [(1/2 : ℚ)] exTree = 0 ∧ descend [(7 : ℚ)] exTree = 3 := by decide +kernel

/-- filling the build data under id 1 reproduces the build counts at all 7 nodes -/
example : nodeCounts 1 (fill 1 false exData exTree) = nodeCounts 0 exTree := by decide +kernel

/-- `to_plotly_dataframe` rows of the example: 7 rows, parents 0,1,1,0,4,4 -/
example : (flatten (fill 1 false [[1/2], [2], [7]] exTree) 0 (some 1)).map (fun r => (r.idx, r.parent, r.cell, r.depth, r.diff)) =
    [(0, none, 4, 0, some (-1)), (1, some 0, 2, 1, some (-1)), (2, some 1, 1, 2, some 0), (3, some 1, 1, 2, some (-1)),
     (4, some 0, 2, 1, some 0), (5, some 4, 1, 2, some 0), (6, some 4, 1, 2, some 0)] := by decide +kernel

/-- duplicated rows / a constant axis: the stop rule makes a leaf (`ptp = 0`), no split, no loop -/
example : build exCfg 1 [[(5 : ℚ)], [5], [5]] = some (.leaf [(0, 3)]) := by decide +kernel

end examples

end MV.Kdq
